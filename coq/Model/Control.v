(* C27 — round trip of the options of Node.Subscribe / Unsubscribe / Disconnect / Refresh
   through the control message (node.go pubSubscribe... / handleControl), generic over the
   field inventories regenerated from the source on every run (Gen/ControlMap.v).

   An option record is a valuation of option field names, a control message a valuation
   of message field names (values abstract, 0 = the zero value a receiver sees for a field
   nobody wrote).  No proofs here. *)
From Coq Require Import List String NArith Bool.
From Cfg Require Export Gen.ControlMap.
Import ListNotations.
Open Scope string_scope.

Record callmap := mkCallmap {
  cm_setters : list (string * string);   (* With* setter, option field it assigns *)
  cm_encoded : list (string * string);   (* option field, message field written from it *)
  cm_decoded : list (string * string);   (* message field, option field restored from it *)
  cm_dguards : list (string * string)    (* message field, guard of the receiver ("nonnil" = pointer presence) *)
}.

Definition sub_map := mkCallmap sub_setters sub_encoded sub_decoded sub_decode_guards.
Definition unsub_map := mkCallmap unsub_setters unsub_encoded unsub_decoded unsub_decode_guards.
Definition disc_map := mkCallmap disc_setters disc_encoded disc_decoded disc_decode_guards.
Definition refresh_map := mkCallmap refresh_setters refresh_encoded refresh_decoded refresh_decode_guards.

Definition opts := string -> N.
Definition wire := string -> N.

(* the option field a message field is written from (sender) *)
Definition src_of (m : callmap) (w : string) : option string :=
  option_map fst (find (fun p => String.eqb (snd p) w) (cm_encoded m)).

(* the message field an option field is restored from (receiver) *)
Definition wire_of (m : callmap) (f : string) : option string :=
  option_map fst (find (fun p => String.eqb (snd p) f) (cm_decoded m)).

Definition encode (m : callmap) (o : opts) : wire :=
  fun w => match src_of m w with Some f => o f | None => 0%N end.

(* the receiver restores the message field only under a condition on its VALUE (e.g. offset > 0):
   some value is then dropped although the sender transmitted it; 1 stands for such a value *)
Definition value_guarded (m : callmap) (w : string) : bool :=
  existsb (fun g => String.eqb (fst g) w && negb (String.eqb (snd g) "nonnil")) (cm_dguards m).

Definition decode (m : callmap) (v : wire) : opts :=
  fun f => match wire_of m f with
           | Some w => if value_guarded m w && (v w =? 1)%N then 0%N else v w
           | None => 0%N
           end.

(* what the receiving node applies, given what the caller set *)
Definition roundtrip (m : callmap) (o : opts) : opts := decode m (encode m o).

Definition carried_b (m : callmap) (f : string) : bool :=
  match wire_of m f with
  | Some w => match src_of m w with Some f' => String.eqb f' f && negb (value_guarded m w) | None => false end
  | None => false
  end.

(* settable option fields that do not survive the trip *)
Definition lost (m : callmap) : list string :=
  filter (fun f => negb (carried_b m f)) (map snd (cm_setters m)).

Definition mem_str (x : string) (l : list string) : bool := existsb (String.eqb x) l.

(* option fields reported as findings (KNOWN_FINDINGS.txt, keys = these names) *)
Definition known_lost_sub : list string := ["RecoveryMode"; "AutoCacheRecover"; "HistoryMetaTTL"].
