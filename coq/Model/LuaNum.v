(* Lua 5.1 numbers as used by the Redis scripts: IEEE binary64, but the scripts
   only ever produce INTEGER-valued numbers (lengths, offsets, versions read
   from decimal strings).  A number is therefore modelled by the integer [z : Z]
   it denotes, always normalised through [round53] (round-to-nearest-even to 53
   significant bits), which is exactly what strtod / int->double conversion do
   for integers.  Axiom-free (no reals, no Flocq).  Non-integer numerals are
   not modelled: [tonumber] answers [TUnsupported] for them and the interpreter
   stops with an explicit "unsupported" outcome instead of guessing. *)
From Coq Require Import List NArith ZArith Bool String Ascii.
From Cfg Require Import Model.RStr.
Import ListNotations.
Open Scope Z_scope.

(* round a non-negative integer to 53 significant bits, ties to even *)
Definition round53N (n : N) : N :=
  let b := N.size n in                      (* bit length *)
  if (n <? 9007199254740992)%N then n       (* < 2^53: exactly representable *)
  else
    let sh := (b - 53)%N in
    let q := N.shiftr n sh in
    let r := (n - N.shiftl q sh)%N in
    let half := N.shiftl 1 (sh - 1) in
    let q' := if (half <? r)%N then (q + 1)%N
              else if (r =? half)%N then (if N.odd q then (q + 1)%N else q)
              else q in
    N.shiftl q' sh.

Definition round53 (z : Z) : Z :=
  match z with
  | Z0 => 0
  | Zpos p => Z.of_N (round53N (Npos p))
  | Zneg p => - Z.of_N (round53N (Npos p))
  end.

(* ---- tonumber / string->number coercion (lua_str2number = strtod) ---- *)
Inductive tonum := TNum (z : Z) | TNotNumber | TUnsupported.

Definition is_space (c : ascii) : bool :=
  let n := nat_of_ascii c in (Nat.eqb n 32 || (Nat.leb 9 n && Nat.leb n 13))%bool.
Fixpoint ltrim (s : string) : string :=
  match s with String c r => if is_space c then ltrim r else s | _ => s end.
Fixpoint all_digits (s : string) : bool :=
  match s with
  | EmptyString => true
  | String c r => let n := nat_of_ascii c in (Nat.leb 48 n && Nat.leb n 57 && all_digits r)%bool
  end.
(* characters that can never occur in something strtod accepts *)
Fixpoint only_numeric_chars (s : string) : bool :=
  match s with
  | EmptyString => true
  | String c r =>
      let n := nat_of_ascii c in
      ((Nat.leb 48 n && Nat.leb n 57) || is_space c ||
       existsb (Nat.eqb n) [43; 45; 46; 69; 101; 88; 120; 80; 112;            (* + - . E e X x P p *)
                            65; 66; 67; 68; 70; 97; 98; 99; 100; 102;          (* hex digits *)
                            73; 105; 78; 110; 84; 116; 89; 121]%nat)%bool      (* inf / nan / infinity *)
      && only_numeric_chars r
  end.

(* can strtod possibly accept a prefix-complete numeral here?  After blanks and one sign the text must
   start with a digit, '.', "inf" or "nan" (any case); everything else is certainly not a number *)
Definition numeral_start (s : string) : bool :=
  let t := ltrim s in
  let t := match t with String c r => if (Nat.eqb (nat_of_ascii c) 43 || Nat.eqb (nat_of_ascii c) 45)%bool then r else t | _ => t end in
  match t with
  | String c _ =>
      let n := nat_of_ascii c in
      ((Nat.leb 48 n && Nat.leb n 57) || Nat.eqb n 46 ||
       is_prefix "inf" (lower (stake 3 t)) || is_prefix "nan" (lower (stake 3 t)))%bool
  | EmptyString => false
  end.

Definition str2number (s : string) : tonum :=
  if (all_digits s && negb (String.eqb s ""))%bool
  then match parse_dec s with Some n => TNum (round53 (Z.of_N n)) | None => TUnsupported end
  else
  match s with
  | String "-" r =>
      if (all_digits r && negb (String.eqb r ""))%bool
      then match parse_dec r with Some n => TNum (round53 (- Z.of_N n)) | None => TUnsupported end
      else if (only_numeric_chars s && numeral_start s)%bool then TUnsupported else TNotNumber
  | _ =>
      if String.eqb (ltrim s) "" then TNotNumber          (* "" and blanks are not numbers *)
      else if (only_numeric_chars s && numeral_start s)%bool then TUnsupported else TNotNumber
  end.

(* ---- number -> string, "%.<P>g" for an integer-valued double ---- *)
Fixpoint digits_of (s : string) : list nat :=
  match s with EmptyString => [] | String c r => (nat_of_ascii c - 48)%nat :: digits_of r end.
Fixpoint string_of_digits (l : list nat) : string :=
  match l with [] => EmptyString | d :: r => String (ascii_of_nat (d + 48)) (string_of_digits r) end.
Fixpoint strip_trailing_zeros_rev (l : list nat) : list nat :=   (* on the reversed list *)
  match l with O :: r => strip_trailing_zeros_rev r | _ => l end.
Fixpoint all_zero (l : list nat) : bool :=
  match l with [] => true | O :: r => all_zero r | _ => false end.
(* add one to a digit list (most significant first); returns (carry, digits) *)
Fixpoint incr_digits (l : list nat) : bool * list nat :=
  match l with
  | [] => (true, [])
  | d :: r => let '(c, r') := incr_digits r in
              if c then (if Nat.eqb d 9 then (true, O :: r') else (false, S d :: r'))
              else (false, d :: r')
  end.

Definition fmt_g_abs (prec : nat) (n : N) : string :=
  let ds := digits_of (dec n) in
  let len := List.length ds in
  if (n <? 10 ^ N.of_nat prec)%N then dec n   (* at most prec digits: printed exactly *)
  else
    let keep := firstn prec ds in
    let rest := skipn prec ds in
    let up := match rest with
              | d :: rr => if Nat.ltb 5 d then true
                           else if Nat.eqb d 5 then
                                  (if all_zero rr then Nat.odd (last keep O) else true)
                                else false
              | [] => false
              end in
    let '(carry, m) := if up then incr_digits keep else (false, keep) in
    let m' := if carry then 1%nat :: m else m in           (* 99..9 -> 100..0 *)
    let ex := if carry then len else (len - 1)%nat in
    let m'' := firstn prec m' in
    let frac := rev (strip_trailing_zeros_rev (rev (tl m''))) in
    let exs := dec (N.of_nat ex) in
    let exs' := if Nat.ltb ex 10 then ("0" ++ exs)%string else exs in
    (string_of_digits [hd O m''] ++
     (match frac with [] => "" | _ => "." ++ string_of_digits frac end) ++ "e+" ++ exs')%string.

Definition fmt_g (prec : nat) (z : Z) : string :=
  match z with
  | Zneg p => ("-" ++ fmt_g_abs prec (Npos p))%string
  | _ => fmt_g_abs prec (Z.to_N z)
  end.

(* Lua's tostring / concatenation of a number: LUA_NUMBER_FMT "%.14g" *)
Definition lua_num2str (z : Z) : string := fmt_g 14 z.

(* Number passed as an argument of redis.call (script_lua.c, luaArgsToRedisArgv,
   Redis >= 7): integral doubles d with |d| <= LLONG_MAX/2 (double2ll) are
   printed with ll2string (plain decimal); others with a shortest round-trip
   formatter, which is not modelled (None). *)
Definition redis_arg_of_num (z : Z) : option string :=
  if ((-4611686018427387904 <=? z) && (z <=? 4611686018427387904))%bool then Some (zdec z) else None.
