(* Model of the recovery decisions taken on subscribe (sequential case: no
   publication arrives while the subscribe runs, the PUB/SUB buffer is empty):
     /repo/node.go    recoverHistory, recoverCache
     /repo/client.go  isStreamRecovered, isCacheRecovered, the recovery part of
                      subscribeCmd (RejectUnrecovered flag, cache-empty handler
                      retry, MergePublications with an empty buffer, "keep the
                      last publication" trimming, reply offset / epoch rules)
   on top of the memory stream broker model (Model/MemStream.v) and the model
   of MergePublications (Model/Merge.v).  Executable, no proofs here.

   [filt id] = the publication is excluded by the server or the client tags
   filter of the subscription (publicationFiltered(..serverTf) ||
   publicationFiltered(..tf)); filter evaluation itself is C15's subject. *)
From Coq Require Import List NArith ZArith Bool.
From Cfg Require Import Model.MemStream Model.StreamSpec Model.Merge Model.HistoryCmd.
Import ListNotations.
Open Scope N_scope.

Inductive sres :=
| RErr (code : N)                                           (* error reply *)
| ROk (recovered : bool) (pubs : list item) (off ep : N).   (* subscribe result *)

Definition to_pub (filt : N -> bool) (it : item) : pub :=
  mkPub (i_off it) (filt (i_id it)) (i_id it).
Definition of_pub (p : pub) : item := mkItem (p_off p) (p_id p).

(* recoverHistory: limit = RecoveryMaxPublicationLimit if > 0 else NoLimit (-1) *)
Definition rec_limit (lim : Z) : Z := if (0 <? lim)%Z then lim else (-1)%Z.

(* the tail of subscribeCmd after the recovery decision: merge with the empty
   buffer, offset bumps, publications only when recovered *)
Definition finish (cache_mode : bool) (recovered : bool) (recpubs buf : list pub)
           (latest_off latest_ep req_off : N) : sres :=
  let '(merged, maxseen, ok) := merge recpubs buf in
  if negb ok then RErr 3010                                  (* DisconnectInsufficientState *)
  else
    let merged := if cache_mode then match merged with
                                     | _ :: _ :: _ => [last merged (mkPub 0 false 0)]
                                     | _ => merged
                                     end else merged in
    let off1 := match merged with
                | [] => latest_off
                | _ => let lp := p_off (last merged (mkPub 0 false 0)) in
                       if latest_off <? lp then lp else latest_off
                end in
    let off2 := if off1 <? maxseen then maxseen else off1 in
    if recovered then ROk true (map of_pub merged) req_off latest_ep
    else ROk false [] off2 latest_ep.

(* Publications that land on the channel while the subscribe is between its
   history read and the buffer merge (the subscriber is already in the hub and
   buffering): each is published on the broker and reaches the subscriber's
   PUB/SUB buffer - as a marker when the subscription's filters exclude it. *)
Fixpoint race_pubs (filt : N -> bool) (h : hub) (ch : N) (ps : list (N * popts))
  : hub * list pub :=
  match ps with
  | [] => (h, [])
  | (id, po) :: r =>
      let '(h1, o) := publish h ch id po in
      let b := match o with OPub off _ 0 _ => [to_pub filt (mkItem off id)] | _ => [] end in
      let '(h2, bs) := race_pubs filt h1 ch r in
      (h2, b ++ bs)
  end.

(* stream recovery mode; [race] = publications arriving right after the history read *)
Definition sub_stream (lim : Z) (filt : N -> bool) (h : hub) (ch req_off req_ep : N)
           (reject : bool) (meta : N) (race : list (N * popts)) : hub * sres :=
  let f := mkFilter (Some (req_off, req_ep)) (rec_limit lim) false in
  let '(h0, r) := node_history h ch f meta in
  let '(h1, buf) := race_pubs filt h0 ch race in
  match r with
  | CErr code =>
      if code =? ErrUnrecoverablePosition then
        if reject then (h1, RErr ErrUnrecoverablePosition)
        else
          (* the result still carries the stream position *)
          match snd (hub_get h ch f meta) with
          | OHist _ top ep => (h1, finish false false [] buf top ep req_off)
          | _ => (h1, RErr 100)
          end
      else (h1, RErr code)
  | COk items top ep =>
      (* isStreamRecovered *)
      let recovered :=
        if negb (req_ep =? 0) && negb (ep =? req_ep) then false
        else match items with
             | [] => top =? req_off
             | it0 :: _ => (i_off it0 =? wadd1 req_off) &&
                           (i_off (last items it0) =? top)
             end in
      if negb recovered then
        if reject then (h1, RErr ErrUnrecoverablePosition)
        else (h1, finish false false [] buf top ep req_off)
      else (h1, finish false true (map (to_pub filt) items) buf top ep req_off)
  end.

(* recoverCache *)
Definition recover_cache (lim : Z) (use_filters : bool) (filt : N -> bool)
           (h : hub) (ch meta : N) : hub * option (option item * option item * N * N) :=
  let f := if use_filters then mkFilter None (rec_limit lim) true else mkFilter None 1 true in
  let '(h1, r) := node_history h ch f meta in
  match r with
  | CErr _ => (h1, None)
  | COk items top ep =>
      let latest := hd_error items in
      if use_filters then
        match find (fun it => negb (filt (i_id it))) items with
        | Some p => (h1, Some (latest, Some p, top, ep))
        | None => (h1, Some (None, None, top, ep))
        end
      else (h1, Some (latest, latest, top, ep))
  end.

(* isCacheRecovered *)
Definition is_cache_recovered (latest recp : option item) (top ep req_off req_ep : N)
  : list item * bool :=
  let same := (0 <? req_off) && (req_off =? top) && (req_ep =? ep) in
  match latest with
  | None => ([], same)
  | Some l =>
      let recovered := i_off l =? top in
      if recovered && negb same
      then (match recp with Some p => [p] | None => [] end, true)
      else ([], recovered)
  end.

(* the scripted cache-empty handler: absent / reports not populated /
   publishes one publication and reports populated *)
Inductive chandler := HNone | HNo | HPopulate (ps : list (N * popts)).

(* cache recovery mode *)
Definition sub_cache (lim : Z) (use_filters : bool) (filt : N -> bool) (hnd : chandler)
           (h : hub) (ch req_off req_ep meta : N) (race : list (N * popts)) : hub * sres :=
  let '(h0, r) := recover_cache lim use_filters filt h ch meta in
  let '(h1, rbuf) := race_pubs filt h0 ch race in
  match r with
  | None => (h1, RErr 100)
  | Some (latest, recp, top, ep) =>
      let '(pubs, recovered) := is_cache_recovered latest recp top ep req_off req_ep in
      let fin h' pubs buf recovered top ep :=
        (h', finish true recovered (map (to_pub (fun _ => false)) pubs) buf top ep req_off) in
      match latest, hnd with
      | None, HNo => fin h1 pubs rbuf recovered top ep
      | None, HPopulate ps =>
          (* the handler's publications reach this subscriber through the hub while the
             subscribe is still buffering: they are in the PUB/SUB buffer (as markers if
             the subscription's filters exclude them) *)
          let '(h2, hbuf) := race_pubs filt h1 ch ps in
          let buf := rbuf ++ hbuf in
          if negb recovered then
            let '(h3, r2) := recover_cache lim use_filters filt h2 ch meta in
            match r2 with
            | None => (h3, RErr 100)
            | Some (latest2, recp2, top2, ep2) =>
                let '(pubs2, recovered2) := is_cache_recovered latest2 recp2 top2 ep2 req_off req_ep in
                fin h3 pubs2 buf recovered2 top2 ep2
            end
          else fin h2 pubs buf recovered top ep
      | _, _ => fin h1 pubs rbuf recovered top ep
      end
  end.

(* The same computation, returning the ingredients of the decision instead of
   the reply (used to state theorems over arbitrary handler scripts and raced
   publications; Proofs/Recover.v shows that [sub_cache] is [finish] applied to
   this trace):
     ct_read : the hub on which the deciding cache read ran,
     ct_pubs, ct_rc : what isCacheRecovered returned for that read,
     ct_buf  : the PUB/SUB buffer merged afterwards,
     ct_top, ct_ep : the stream position of the deciding read. *)
Record ctrace := mkCtrace {
  ct_read : hub; ct_pubs : list item; ct_rc : bool; ct_buf : list pub; ct_top : N; ct_ep : N
}.

Definition sub_cache_tr (lim : Z) (use_filters : bool) (filt : N -> bool) (hnd : chandler)
           (h : hub) (ch req_off req_ep meta : N) (race : list (N * popts)) : option ctrace :=
  let '(h0, r) := recover_cache lim use_filters filt h ch meta in
  let '(h1, rbuf) := race_pubs filt h0 ch race in
  match r with
  | None => None
  | Some (latest, recp, top, ep) =>
      let '(pubs, recovered) := is_cache_recovered latest recp top ep req_off req_ep in
      match latest, hnd with
      | None, HPopulate ps =>
          let '(h2, hbuf) := race_pubs filt h1 ch ps in
          if negb recovered then
            let '(h3, r2) := recover_cache lim use_filters filt h2 ch meta in
            match r2 with
            | None => None
            | Some (latest2, recp2, top2, ep2) =>
                let '(pubs2, recovered2) := is_cache_recovered latest2 recp2 top2 ep2 req_off req_ep in
                Some (mkCtrace h2 pubs2 recovered2 (rbuf ++ hbuf) top2 ep2)
            end
          else Some (mkCtrace h pubs recovered (rbuf ++ hbuf) top ep)
      | _, _ => Some (mkCtrace h pubs recovered rbuf top ep)
      end
  end.

(* Server-side Client.Subscribe (RecoverSince / AutoCacheRecover): the same
   subscribeCmd runs (no RejectUnrecovered flag, no client tags filter), but
   the client is told through a Subscribe PUSH that carries only offset, epoch,
   recoverable, positioned and data: neither the recovered flag nor the
   recovered publications of the result (getSubscribePushReply). *)
Inductive spush := PErr (code : N) | PSub (off ep : N).

Definition server_push (r : sres) : spush :=
  match r with ROk _ _ off ep => PSub off ep | RErr c => PErr c end.

Definition srv_stream (lim : Z) (filt : N -> bool) (h : hub) (ch off ep meta : N) : hub * spush :=
  let '(h1, r) := sub_stream lim filt h ch off ep false meta [] in (h1, server_push r).

Definition srv_cache (lim : Z) (uf : bool) (filt : N -> bool) (hnd : chandler)
           (h : hub) (ch off ep meta : N) : hub * spush :=
  let '(h1, r) := sub_cache lim uf filt hnd h ch off ep meta [] in (h1, server_push r).

Definition spush_eqb (a b : spush) : bool :=
  match a, b with
  | PErr x, PErr y => x =? y
  | PSub o1 e1, PSub o2 e2 => (o1 =? o2) && (e1 =? e2)
  | _, _ => false
  end.

Definition sres_eqb (a b : sres) : bool :=
  match a, b with
  | RErr x, RErr y => x =? y
  | ROk r1 p1 o1 e1, ROk r2 p2 o2 e2 =>
      Bool.eqb r1 r2 && list_eqb item_eqb p1 p2 && (o1 =? o2) && (e1 =? e2)
  | _, _ => false
  end.
