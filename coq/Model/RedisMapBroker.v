(* Model of the Go side of /repo/map_broker_redis.go (single standalone shard,
   non-cluster): how Publish / Remove / ReadState / ReadStream / Clear build KEYS
   and ARGV, which script or plain commands they send, and how replies are parsed
   back (parseAddScriptResult, parseStateValue, readUnorderedState,
   readSingleKeyWithOpts, ReadStream).  PUB/SUB deliveries are not part of C23.
   The protobuf encoding of a Publication is abstracted to an injective text
   envelope [pb] (Key, Data, Removed, Score; Time / Info / Tags are not observed).
   Parametrised by the implementation of the scripts ([mscripts]): interpreted ASTs
   of the real .lua files (Model/RedisMapServer.v) or shallow versions. *)
From Coq Require Import List NArith ZArith Bool String Ascii.
From Cfg Require Import Model.RStr Model.LuaNum Model.Redis Model.MapApi23.
Import ListNotations.
Open Scope string_scope.

Definition mprefix := "centrifuge".
Definition k_stream (ch : string) := mprefix ++ ":stream:" ++ ch.
Definition k_meta (ch : string) := mprefix ++ ":meta:" ++ ch.
Definition k_state (ch : string) := mprefix ++ ":state:" ++ ch.
Definition k_order (ch : string) := mprefix ++ ":state:order:" ++ ch.
Definition k_expire (ch : string) := mprefix ++ ":state:expire:" ++ ch.
Definition k_smeta (ch : string) := mprefix ++ ":state:meta:" ++ ch.
Definition k_cleanup := mprefix ++ ":cleanup:channels".
Definition k_result (ch idem : string) := mprefix ++ ".result." ++ ch ++ "." ++ idem.
Definition m_channel (ch : string) := mprefix ++ ".client." ++ ch.

(* protobuf envelope: flag, score, key length, key, data *)
Definition pb (key data : string) (removed : bool) (score : Z) : string :=
  (if removed then "R" else "P") ++ zdec score ++ ":" ++ dec (slen key) ++ ":" ++ key ++ data.
Definition unpb (s : string) : option (string * string * bool * Z) :=
  match s with
  | String f r =>
      if negb (Ascii.eqb f "R" || Ascii.eqb f "P")%bool then None else
      match sindex_char ":" r with
      | None => None
      | Some i =>
          match parse_zdec (stake i r), sindex_char ":" (sdrop (S i) r) with
          | Some sc, Some j =>
              let r2 := sdrop (S i) r in
              match parse_dec (stake j r2) with
              | Some kl =>
                  let r3 := sdrop (S j) r2 in
                  if (N.of_nat (String.length r3) <? kl)%N then None
                  else Some (stake (N.to_nat kl) r3, sdrop (N.to_nat kl) r3, Ascii.eqb f "R", sc)
              | None => None
              end
          | _, _ => None
          end
      end
  | EmptyString => None
  end.

Definition millis (z : Z) : string := if (z <=? 0)%Z then "0" else zdec z.
Definition utoa (n : N) : string := dec n.

(* ---------- rueidis accessors ---------- *)
Inductive perr := PNil | PErr.
Definition to_str (r : reply) : perr + string :=
  match r with RBulk s | RStatus s => inr s | RNil => inl PNil | _ => inl PErr end.
Definition parse_u64 (s : string) : option N :=         (* strconv.ParseUint(s, 10, 64) *)
  match s with
  | String "+" _ => None
  | _ => match parse_dec s with Some n => if (n <? 18446744073709551616)%N then Some n else None | None => None end
  end.
Definition as_u64 (r : reply) : perr + N :=
  match r with
  | RInt z => inr (Z.to_N (z mod 18446744073709551616))
  | _ => match to_str r with
         | inr s => match parse_u64 s with Some n => inr n | None => inl PErr end
         | inl e => inl e
         end
  end.
Definition as_arr (r : reply) : perr + list reply :=
  match r with RArr l => inr l | RNil => inl PNil | _ => inl PErr end.

(* parseStateValue: offset:epoch:payload *)
Definition parse_state_value (v : string) : option (N * string * string) :=
  if String.eqb v "" then None else
  match sindex_char ":" v with
  | None => None
  | Some i =>
      match parse_u64 (stake i v) with
      | None => None
      | Some off =>
          let r := sdrop (S i) v in
          match sindex_char ":" r with
          | None => None
          | Some j => Some (off, stake j r, sdrop (S j) r)
          end
      end
  end.

(* parseAddScriptResult *)
Definition parse_add_result (r : reply) : mres :=
  match as_arr r with
  | inl _ => MErr
  | inr l =>
      if Nat.ltb (List.length l) 2 then MErr else
      match (match as_u64 (nth 0 l RNil) with inr n => Some n | inl PNil => Some 0%N | inl PErr => None end),
            to_str (nth 1 l RNil) with
      | Some off, inr ep =>
          let reason := if Nat.leb 3 (List.length l)
                        then match to_str (nth 2 l RNil) with inr s => s | inl _ => "" end else "" in
          if String.eqb reason "" then MUpd off ep false "" None else
          let cur :=
            if (String.eqb reason "position_mismatch" && Nat.leb 4 (List.length l))%bool then
              match to_str (nth 3 l RNil) with
              | inr v => if String.eqb v "" then None else
                         match parse_state_value v with
                         | Some (eo, _, payload) =>
                             match unpb payload with Some (_, data, _, _) => Some (eo, data) | None => None end
                         | None => None
                         end
              | inl _ => None
              end
            else None in
          MUpd off ep true reason cur
      | _, _ => MErr
      end
  end.

Record mscripts := mkMS {
  ms_add : list string -> list string -> rstate -> rstate * reply;
  ms_read_unordered : list string -> list string -> rstate -> rstate * reply;
  ms_stream_read : list string -> list string -> rstate -> rstate * reply
}.

Definition idem_expire (idem : string) (ttl : Z) : string :=
  if String.eqb idem "" then "" else if (0 <? ttl)%Z then millis ttl else millis default_idem_ms.

Definition publish_keys (cf : mcfg) (ch key idem : string) : list string :=
  let streamless := is_ephemeral cf in
  let keyed := negb (String.eqb key "") in
  [if streamless then "" else k_stream ch;
   if streamless then "" else k_meta ch;
   if String.eqb idem "" then "" else k_result ch idem;
   if keyed then k_state ch else "";
   if (keyed && mc_ordered cf)%bool then k_order ch else "";
   if keyed then k_expire ch else "";
   if (keyed && negb streamless)%bool then k_smeta ch else "";
   if ((0 <? mc_keyttl cf)%Z && keyed)%bool then k_cleanup else ""].

Definition publish_args (cf : mcfg) (ch key : string) (o : mpopts) (nonce : string) (now : N) : list string :=
  [key; pb key (mp_data o) false (mp_score o); zdec (mc_size cf); millis (mc_sttl cf); m_channel ch;
   millis (mc_mttl cf); nonce; "PUBLISH"; idem_expire (mp_idem o) (mp_idemttl o);
   if mp_delta o then "1" else "0";
   if (0 <? mp_ver o)%N then utoa (mp_ver o) else "0"; mp_vep o; "0"; zdec (mp_score o); millis (mc_keyttl cf);
   "0"; ch; mp_mode o; if mp_refresh o then "1" else "0";
   match mp_exp o with Some (eo, _) => utoa eo | None => "" end;
   match mp_exp o with Some (_, ee) => ee | None => "" end;
   ""; "";
   if ((0 <? mp_ver o)%N && negb (String.eqb key ""))%bool then "v:" ++ key else "";
   if ((0 <? mp_ver o)%N && negb (String.eqb key ""))%bool then "ve:" ++ key else "";
   utoa now].

Definition remove_keys (cf : mcfg) (ch idem : string) : list string :=
  [if has_stream cf then k_stream ch else ""; if has_stream cf then k_meta ch else "";
   if String.eqb idem "" then "" else k_result ch idem;
   k_state ch; ""; k_expire ch; if is_ephemeral cf then "" else k_smeta ch; ""].

Definition remove_args (cf : mcfg) (ch key : string) (o : mropts) (nonce : string) (now : N) : list string :=
  [key; pb key "" true 0; zdec (mc_size cf); millis (mc_sttl cf); m_channel ch;
   millis (mc_mttl cf); nonce; "PUBLISH"; idem_expire (mr_idem o) (mr_idemttl o);
   "0"; "0"; ""; "1"; "0"; "0"; "0"; ""; ""; "0";
   match mr_exp o with Some (eo, _) => utoa eo | None => "" end;
   match mr_exp o with Some (_, ee) => ee | None => "" end;
   ""; "";
   if String.eqb key "" then "" else "v:" ++ key;
   if String.eqb key "" then "" else "ve:" ++ key;
   utoa now].

Definition stream_read_args (cf : mcfg) (since : option (N * string)) (limit : Z) (reverse : bool) (node : string)
  : list string :=
  let '(include0, offset) :=
    match since with
    | Some (so, _) =>
        if reverse then (if (so =? 0)%N then (false, "") else (true, utoa (so - 1)))
        else (true, utoa ((so + 1) mod 18446744073709551616))
    | None => (true, if reverse then "+" else "-")
    end in
  let include := (include0 && negb (limit =? 0)%Z)%bool in
  [if include then "1" else "0"; offset; zdec (if (limit <? 0)%Z then 0%Z else limit);
   if reverse then "1" else "0"; if (0 <? mc_mttl cf)%Z then millis (mc_mttl cf) else "0"; node].

Fixpoint find_d (fv : list reply) : option string :=
  match fv with
  | k :: v :: r =>
      if String.eqb (match to_str k with inr s => s | inl _ => "" end) "d"
      then Some (match to_str v with inr s => s | inl _ => "" end) else find_d r
  | _ => None
  end.

Definition parse_stream_entry (e : reply) : option tpub :=
  match as_arr e with
  | inr [idr; fvr] =>
      match to_str idr, as_arr fvr with
      | inr id, inr fv =>
          match find_d fv with
          | None => None
          | Some payload =>
              match sindex_char "-" id with
              | Some (S h') =>
                  match parse_u64 (stake (S h') id), unpb payload with
                  | Some off, Some (key, data, removed, _) => Some (off, key, data, removed)
                  | _, _ => None
                  end
              | _ => None
              end
          end
      | _, _ => None
      end
  | _ => None
  end.

Fixpoint parse_all {A B} (f : A -> option B) (l : list A) : option (list B) :=
  match l with
  | [] => Some []
  | x :: r => match f x, parse_all f r with Some y, Some ys => Some (y :: ys) | _, _ => None end
  end.

(* state key/value array of HSCAN / HGETALL; malformed entries are skipped *)
Fixpoint parse_state_kv (l : list reply) : list spub :=
  match l with
  | k :: v :: r =>
      let key := match to_str k with inr s => s | inl _ => "" end in
      let val := match to_str v with inr s => s | inl _ => "" end in
      match parse_state_value val with
      | Some (eo, _, payload) =>
          match unpb payload with
          | Some (_, data, _, score) => (key, eo, data, score) :: parse_state_kv r
          | None => parse_state_kv r
          end
      | None => parse_state_kv r
      end
  | _ => []
  end.

Fixpoint sinsert (x : spub) (l : list spub) : list spub :=
  match l with
  | [] => [x]
  | y :: r => if str_ltb (fst (fst (fst y))) (fst (fst (fst x))) then y :: sinsert x r else x :: l
  end.
Definition sort_spubs (l : list spub) : list spub := fold_right sinsert [] l.

Section WithScripts.
Variable SC : mscripts.
Variable cf : mcfg.

Definition rm_publish (st : rstate) (ch key : string) (o : mpopts) (nonce : string) (now : N) : rstate * mres :=
  if (is_ephemeral cf && (match mp_exp o with Some _ => true | None => false end || (0 <? mp_ver o)%N))%bool
  then (st, MErr) else
  if (is_ephemeral cf && String.eqb (mp_idem o) "" && String.eqb key "")%bool then
    let '(st', r) := redis_call st ["publish"; m_channel ch; "0::" ++ pb "" (mp_data o) false 0] in
    (st', match r with RErr _ | RNil => MErr | _ => MUpd 0 "" false "" None end)
  else
    let '(st', r) := ms_add SC (publish_keys cf ch key (mp_idem o)) (publish_args cf ch key o nonce now) st in
    (st', parse_add_result r).

Definition rm_remove (st : rstate) (ch key : string) (o : mropts) (nonce : string) (now : N) : rstate * mres :=
  if (is_ephemeral cf && match mr_exp o with Some _ => true | None => false end)%bool then (st, MErr) else
  let '(st', r) := ms_add SC (remove_keys cf ch (mr_idem o)) (remove_args cf ch key o nonce now) st in
  (st', parse_add_result r).

Definition rm_read_stream (st : rstate) (ch : string) (since : option (N * string)) (limit : Z) (reverse : bool)
           (node : string) : rstate * mres :=
  let args := stream_read_args cf since limit reverse node in
  let include := String.eqb (nth 0 args "") "1" in
  let '(st', r) := ms_stream_read SC [k_stream ch; k_meta ch] args st in
  (st',
   match as_arr r with
   | inl _ => MErr
   | inr l =>
       if Nat.ltb (List.length l) 2 then MErr else
       match (match as_u64 (nth 0 l RNil) with inr n => Some n | inl PNil => Some 0%N | inl PErr => None end),
             to_str (nth 1 l RNil) with
       | Some top, inr ep =>
           if match since with Some (_, se) => (negb (String.eqb se "") && negb (String.eqb se ep))%bool | None => false end
           then MUnrec else
           if (negb include || Nat.ltb (List.length l) 3)%bool then MStream [] top ep else
           match as_arr (nth 2 l RNil) with
           | inl _ => MErr
           | inr vs => match parse_all parse_stream_entry vs with
                       | Some pubs => MStream pubs top ep
                       | None => MErr
                       end
           end
       | _, _ => MErr
       end
   end).

(* readUnorderedState, following the cursor until it is exhausted *)
Fixpoint read_pages (fuel : nat) (st : rstate) (ch cursor : string) (limit : Z) (rev_ : option (N * string))
         (nonce : string) (acc : list spub) : rstate * mres :=
  match fuel with
  | O => (st, MErr)
  | S f =>
      let '(st', r) := ms_read_unordered SC [k_state ch; k_expire ch; k_meta ch; k_smeta ch]
                         [cursor; zdec (if (limit <? 0)%Z then 0%Z else limit); nonce; millis (mc_mttl cf);
                          if (0 <? mc_mttl cf)%Z then millis (mc_mttl cf) else "0";
                          if is_ephemeral cf then "1" else "0"] st in
      match as_arr r with
      | inl _ => (st', MErr)
      | inr l =>
          if Nat.ltb (List.length l) 4 then (st', MErr) else
          match as_u64 (nth 0 l RNil) with
          | inl PErr => (st', MErr)
          | o =>
              let off := match o with inr n => n | inl _ => 0%N end in
              let ep := match to_str (nth 1 l RNil) with inr s => s | inl _ => "" end in
              let next := match to_str (nth 2 l RNil) with inr s => s | inl _ => "" end in
              if match rev_ with Some (_, re) => negb (String.eqb re ep) | None => false end then (st', MUnrec) else
              let pubs := parse_state_kv (match as_arr (nth 3 l RNil) with inr d => d | inl _ => [] end) in
              if (String.eqb next "0" || String.eqb next "")%bool
              then (st', MState (sort_spubs (acc ++ pubs)) off ep)
              else read_pages f st' ch next limit rev_ nonce (acc ++ pubs)%list
          end
      end
  end.

Definition rm_read_single (st : rstate) (ch key : string) (rev_ : option (N * string)) : rstate * mres :=
  if is_ephemeral cf then
    (* streamless: HGET only; no meta, no revision check, zero position *)
    let '(st1, r1) := redis_call st ["hget"; k_state ch; key] in
    match r1 with
    | RErr _ => (st1, MErr)
    | RNil => (st1, MState [] 0 "")
    | _ => match to_str r1 with
           | inr v =>
               if String.eqb v "" then (st1, MState [] 0 "") else
               match parse_state_value v with
               | Some (eo, _, payload) =>
                   match unpb payload with
                   | Some (_, data, _, score) => (st1, MState [(key, eo, data, score)] 0 "")
                   | None => (st1, MErr)
                   end
               | None => (st1, MErr)
               end
           | inl _ => (st1, MErr)
           end
    end
  else
  let '(st1, r1) := redis_call st ["hget"; k_state ch; key] in
  let '(st2, r2) := redis_call st1 ["hmget"; k_meta ch; "s"; "e"] in
  match (match r1 with RErr _ => None | RNil => Some None | _ => match to_str r1 with inr v => Some (Some v) | inl _ => None end end),
        as_arr r2 with
  | Some ov, inr ml =>
      let off := match as_u64 (nth 0 ml RNil) with inr n => n | inl _ => 0%N end in
      let ep := match to_str (nth 1 ml RNil) with inr s => s | inl _ => "" end in
      if match rev_ with Some (_, re) => negb (String.eqb re ep) | None => false end then (st2, MUnrec) else
      match ov with
      | None => (st2, MState [] off ep)
      | Some v =>
          if String.eqb v "" then (st2, MState [] off ep) else
          match parse_state_value v with
          | Some (eo, _, payload) =>
              match unpb payload with
              | Some (_, data, _, score) => (st2, MState [(key, eo, data, score)] off ep)
              | None => (st2, MErr)
              end
          | None => (st2, MErr)
          end
      end
  | _, _ => (st2, MErr)
  end.

Definition rm_read_state (st : rstate) (ch : string) (rev_ : option (N * string)) (limit : Z) (key : string)
           (nonce : string) : rstate * mres :=
  (* nonce: the string the real code would turn into a new epoch on this path (the timestamp for the
     unordered read script, the node id for the Limit = 0 path which goes through ReadStream) *)
  if negb (String.eqb key "") then rm_read_single st ch key rev_
  else if (limit =? 0)%Z then
    let '(st', r) := rm_read_stream st ch None 0 false nonce in
    (st', match r with MStream _ off ep => MState [] off ep | x => x end)
  else if mc_ordered cf then (st, MErr)          (* Stage C *)
  else read_pages 50 st ch "0" limit rev_ nonce [].

Definition rm_clear (st : rstate) (ch : string) : rstate * mres :=
  let '(st1, r1) := redis_call st ["del"; k_stream ch; k_meta ch; k_state ch; k_order ch; k_expire ch; k_smeta ch] in
  let '(st2, r2) := redis_call st1 ["zrem"; k_cleanup; ch] in
  (st2, match r1, r2 with RErr _, _ | _, RErr _ => MErr | _, _ => MUnit end).

Definition rm_step (st : rstate) (o : mop) : rstate * mres :=
  let st0 := clear_outbox st in
  let '(st', res) :=
    match o with
    | MPublish ch key po nonce now => rm_publish st0 ch key po nonce now
    | MRemove ch key ro nonce now => rm_remove st0 ch key ro nonce now
    | MReadState ch rev_ limit key _ nonce _ => rm_read_state st0 ch rev_ limit key nonce
    | MReadStream ch since limit reverse nonce_r _ => rm_read_stream st0 ch since limit reverse nonce_r
    | MClear ch => rm_clear st0 ch
    | MTick ms => (tick st0 ms, MUnit)
    | MCleanup _ _ | MStats _ => (st0, MErr)        (* handled by rm_step2 below (needs the other scripts) *)
    end in
  (clear_outbox st', res).

Fixpoint rm_run (st : rstate) (ops : list mop) : list mres :=
  match ops with
  | [] => []
  | o :: r => let '(st', ob) := rm_step st o in ob :: rm_run st' r
  end.

End WithScripts.

(* ---------- key TTL cleanup: runCleanupCycle -> cleanupPartition -> cleanupChannel ---------- *)
Record cscripts := mkCS {
  cs_find_expired : list string -> list string -> rstate -> rstate * reply;
  cs_batch_remove : list string -> list string -> rstate -> rstate * reply;
  cs_read_ordered : list string -> list string -> rstate -> rstate * reply;
  cs_stats : list string -> list string -> rstate -> rstate * reply
}.
Definition cleanup_batch : Z := 100.               (* RedisMapBrokerConfig.CleanupBatchSize default *)
Definition cleanup_channel_batch : Z := 10000.     (* cleanupChannelBatchSize *)

(* (key, state value, expire score) triplets of the find-expired reply *)
Fixpoint triplets (l : list reply) : list (string * string * string) :=
  match l with
  | a :: b :: c :: r =>
      let s x := match to_str x with inr v => v | inl _ => "" end in
      (s a, s b, s c) :: triplets r
  | _ => []
  end.

Section Cleanup.
Variable CS : cscripts.
Variable cf : mcfg.

(* one channel: up to 10 rounds of find-expired + batch-remove; None = a script call failed *)
Fixpoint cleanup_channel (rounds : nat) (st : rstate) (ch node : string) (now : N) : rstate * bool :=
  match rounds with
  | O => (st, true)
  | S r =>
      let '(st1, r1) := cs_find_expired CS [k_state ch; k_expire ch] [utoa now; zdec cleanup_batch] st in
      match as_arr r1 with
      | inl _ => (st1, false)
      | inr l =>
          if Nat.ltb (List.length l) 3 then (st1, true) else
          let ts := triplets l in
          let argv :=
            ([zdec (Z.of_nat (List.length ts)); m_channel ch; "PUBLISH"; zdec (mc_size cf); millis (mc_sttl cf);
              if (0 <? mc_mttl cf)%Z then millis (mc_mttl cf) else "0"; node; ch; if is_ephemeral cf then "1" else "0"]
             ++ flat_map (fun t => [fst (fst t); pb (fst (fst t)) "" true 0; snd t]) ts)%list in
          let '(st2, r2) := cs_batch_remove CS [k_state ch; k_expire ch; k_stream ch; k_meta ch; k_cleanup; k_order ch; k_smeta ch]
                              argv st1 in
          match as_arr r2 with
          | inl _ => (st2, false)
          | inr _ => if Nat.ltb (List.length ts) (Z.to_nat cleanup_batch) then (st2, true)
                     else cleanup_channel r st2 ch node now
          end
      end
  end.

Fixpoint cleanup_partition (fuel : nat) (st : rstate) (node : string) (now : N) : rstate :=
  match fuel with
  | O => st
  | S f =>
      let '(st1, r) := redis_call st ["zrangebyscore"; k_cleanup; "0"; utoa now; "LIMIT"; "0"; zdec cleanup_channel_batch] in
      match as_arr r with
      | inl _ => st1
      | inr [] => st1
      | inr chs =>
          let st2 := fold_left (fun acc c => fst (cleanup_channel 10 acc (match to_str c with inr s => s | inl _ => "" end) node now))
                               chs st1 in
          cleanup_partition f st2 node now
      end
  end.

Definition rm_cleanup (st : rstate) (now : N) (node : string) : rstate * mres := (cleanup_partition 20 st node now, MUnit).
End Cleanup.

(* ---------- readOrderedState, following the (score, key) cursor to the end ---------- *)
Fixpoint parse_ordered_kv (ks vs : list reply) : list spub :=
  match ks, vs with
  | k :: kr, v :: vr =>
      let key := match to_str k with inr s => s | inl _ => "" end in
      let val := match to_str v with inr s => s | inl _ => "" end in
      match parse_state_value val with
      | Some (eo, _, payload) =>
          match unpb payload with
          | Some (_, data, _, score) => (key, eo, data, score) :: parse_ordered_kv kr vr
          | None => parse_ordered_kv kr vr
          end
      | None => parse_ordered_kv kr vr
      end
  | _, _ => []
  end.

Section Ordered.
Variable CS : cscripts.
Variable cf : mcfg.

Fixpoint ordered_pages (fuel : nat) (st : rstate) (ch cscore ckey : string) (limit : Z) (rev_ : option (N * string))
         (asc : bool) (nonce : string) (acc : list spub) : rstate * mres :=
  match fuel with
  | O => (st, MErr)
  | S f =>
      let '(st', r) := cs_read_ordered CS [k_state ch; k_order ch; k_expire ch; k_meta ch; k_smeta ch]
                         [zdec (if (limit <? 0)%Z then 0%Z else limit); cscore; ckey; nonce; millis (mc_mttl cf);
                          if (0 <? mc_mttl cf)%Z then millis (mc_mttl cf) else "0";
                          if is_ephemeral cf then "1" else "0"; if asc then "1" else "0"] st in
      match as_arr r with
      | inl _ => (st', MErr)
      | inr l =>
          if Nat.ltb (List.length l) 6 then (st', MErr) else
          match as_u64 (nth 0 l RNil) with
          | inl PErr => (st', MErr)
          | o =>
              let off := match o with inr n => n | inl _ => 0%N end in
              let ep := match to_str (nth 1 l RNil) with inr s => s | inl _ => "" end in
              let ks := match as_arr (nth 2 l RNil) with inr d => d | inl _ => [] end in
              let vs := match as_arr (nth 3 l RNil) with inr d => d | inl _ => [] end in
              let ns := match to_str (nth 4 l RNil) with inr s => s | inl _ => "" end in
              let nk := match to_str (nth 5 l RNil) with inr s => s | inl _ => "" end in
              if match rev_ with Some (_, re) => negb (String.eqb re ep) | None => false end then (st', MUnrec) else
              let pubs := parse_ordered_kv ks vs in
              if (String.eqb ns "" || String.eqb nk "")%bool then (st', MState (acc ++ pubs) off ep)
              else ordered_pages f st' ch ns nk limit rev_ asc nonce (acc ++ pubs)%list
          end
      end
  end.

Definition rm_stats (st : rstate) (ch : string) : rstate * mres :=
  let '(st', r) := cs_stats CS [k_state ch] [] st in
  (st', match as_arr r with
        | inr [RInt z] => MCount (Z.to_N z)
        | inr [x] => match to_str x with
                     | inr s => match parse_zdec s with Some z => MCount (Z.to_N z) | None => MErr end
                     | inl _ => MErr
                     end
        | _ => MErr
        end).
End Ordered.

Definition rm_step2 (SC : mscripts) (CS : cscripts) (cf : mcfg) (st : rstate) (o : mop) : rstate * mres :=
  match o with
  | MCleanup now node => let '(st', r) := rm_cleanup CS cf (clear_outbox st) now node in (clear_outbox st', r)
  | MStats ch => let '(st', r) := rm_stats CS (clear_outbox st) ch in (clear_outbox st', r)
  | MReadState ch rev_ limit key asc nonce _ =>
      if (mc_ordered cf && String.eqb key "" && negb (limit =? 0)%Z)%bool then
        let '(st', r) := ordered_pages CS cf 50 (clear_outbox st) ch "" "" limit rev_ asc nonce [] in (clear_outbox st', r)
      else rm_step SC cf st o
  | _ => rm_step SC cf st o
  end.
Fixpoint rm_run2 (SC : mscripts) (CS : cscripts) (cf : mcfg) (st : rstate) (ops : list mop) : list mres :=
  match ops with
  | [] => []
  | o :: r => let '(st', ob) := rm_step2 SC CS cf st o in ob :: rm_run2 SC CS cf st' r
  end.
