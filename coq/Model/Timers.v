(* C36 — model of the liveness timers of one client connection (client.go):
   the single multiplexed timer (nextExpire / nextPresence / nextPing / nextPong,
   scheduleNextTimer, onTimerOp), sendPing / checkPong / pong handling, closeStale,
   expire / checkExpired with client- and server-side refresh, Client.Refresh, the
   subscription expiration check of the presence tick and the sub refresh command.

   Time is a virtual clock in whole seconds.  The model is the code AFTER
   /verif/fixes/C36-refresh-no-expiry-keeps-timers.patch (Client.Refresh without expiry
   clears nextExpire and re-arms); [srv_refresh_prefix] is the code before it.

   Labelled transition system: labels are the passing of time, the firing of the armed
   timer (enabled when it is due), client frames (pong, refresh, sub refresh) and
   server-side Refresh calls.  No proofs here.

   Codes: 3005 expired, 3006 subscription expired, 3012 no pong, 3501 bad request,
   3502 stale, 3004 server error, 2501 unsubscribe expired, error 110 expired,
   103 permission denied. *)
From Coq Require Import List NArith Bool.
Import ListNotations.
Open Scope N_scope.

Inductive op := OpStale | OpPresence | OpExpire | OpPing | OpPong.

(* what the application's RefreshHandler answers to a server-side refresh *)
Inductive rscript := RNone (* no handler *) | RExtend (d : N) | RExpired | RFail.

(* what the application's SubRefreshHandler answers when the presence tick finds a subscription
   without client-side refresh expired (checkSubscriptionExpiration): an error, Expired, a new
   expiry [d] seconds from now, or ExpireAt 0 (no expiry any more) *)
Inductive sscript := SFail | SExpired | SExtend (d : N) | SForever.

Record cfg := mkCfg {
  g_ping : N;        (* ping interval, 0 = no pings *)
  g_pong : N;        (* pong timeout, 0 = no pong check *)
  g_presence : N;    (* ClientPresenceUpdateInterval *)
  g_stale : N;       (* ClientStaleCloseDelay, 0 = none *)
  g_exp_delay : N;   (* ClientExpiredCloseDelay *)
  g_sub_delay : N;   (* ClientExpiredSubCloseDelay *)
  g_uni : bool;      (* unidirectional transport: no pong expected *)
  g_refresh : rscript;
  g_subrefresh : sscript;
  g_pos_delay : N    (* ClientChannelPositionCheckDelay, 0 = no periodic position check *)
}.

Record sub := mkSub {
  sb_name : N; sb_exp : N; sb_csr : bool; sb_server : bool;
  sb_pos : bool;      (* positioning enabled *)
  sb_check : N;       (* positionCheckTime *)
  sb_bad : bool       (* environment: the stream top of the broker differs from the client's position *)
}.

Record st := mkSt {
  now : N;
  closed : bool; auth : bool; unusable : bool;
  nExpire : N; nPresence : N; nPing : N; nPong : N;     (* 0 = not pending *)
  armed : option (op * N);                              (* the one scheduled timer: op and due time *)
  lastPing : N; ponged : bool; lastSeen : N;            (* lastPing sign trick: ponged = sign flipped *)
  exp : N; csr : bool;
  subs : list sub;
  seq : N            (* number of ping / pong events so far: the code compares nanosecond timestamps of
                        these events, which are ordered like the events themselves; lastPing / lastSeen
                        hold the event numbers *)
}.

Inductive out :=
| OPing                       (* server ping written *)
| OClose (code : N)
| OUnsub (ch code : N)        (* unsubscribe push *)
| OReply (err : N)            (* reply to a refresh / sub refresh command *)
| ORefreshPush                (* refresh push of Client.Refresh *)
| OAsk (ch : N).              (* the SubRefreshHandler was asked about an expired subscription *)

Definition init (g : cfg) : st :=
  mkSt 0 false false false 0 0 0 0
       (if g_stale g =? 0 then None else Some (OpStale, g_stale g))
       0 false 0 0 false [] 0.

Definition upd_armed (s : st) (a : option (op * N)) : st :=
  mkSt (now s) (closed s) (auth s) (unusable s) (nExpire s) (nPresence s) (nPing s) (nPong s) a
       (lastPing s) (ponged s) (lastSeen s) (exp s) (csr s) (subs s) (seq s).

(* scheduleNextTimer: expire, presence, ping, pong in this order, strict comparisons *)
Definition pick (s : st) : option (op * N) :=
  let c0 : option (op * N) := if 0 <? nExpire s then Some (OpExpire, nExpire s) else None in
  let better (x : N) (c : option (op * N)) :=
    (0 <? x) && match c with None => true | Some (_, m) => x <? m end in
  let c1 := if better (nPresence s) c0 then Some (OpPresence, nPresence s) else c0 in
  let c2 := if better (nPing s) c1 then Some (OpPing, nPing s) else c1 in
  let c3 := if better (nPong s) c2 then Some (OpPong, nPong s) else c2 in
  c3.

Definition schedule (s : st) : st := if closed s then s else upd_armed s (pick s).

Definition set_times (s : st) (e pr pi po : N) : st :=
  mkSt (now s) (closed s) (auth s) (unusable s) e pr pi po (armed s)
       (lastPing s) (ponged s) (lastSeen s) (exp s) (csr s) (subs s) (seq s).
Definition set_exp (s : st) (e : N) : st :=
  mkSt (now s) (closed s) (auth s) (unusable s) (nExpire s) (nPresence s) (nPing s) (nPong s) (armed s)
       (lastPing s) (ponged s) (lastSeen s) e (csr s) (subs s) (seq s).
Definition set_subs (s : st) (l : list sub) : st :=
  mkSt (now s) (closed s) (auth s) (unusable s) (nExpire s) (nPresence s) (nPing s) (nPong s) (armed s)
       (lastPing s) (ponged s) (lastSeen s) (exp s) (csr s) l (seq s).
Definition set_ping (s : st) (lp : N) (pg : bool) (ls : N) : st :=
  mkSt (now s) (closed s) (auth s) (unusable s) (nExpire s) (nPresence s) (nPing s) (nPong s) (armed s)
       lp pg ls (exp s) (csr s) (subs s) (seq s + 1).

(* Client.close: status closed, timer stopped *)
Definition close (s : st) (code : N) : st * list out :=
  if closed s then (s, [])
  else (mkSt (now s) true (auth s) (unusable s) (nExpire s) (nPresence s) (nPing s) (nPong s) None
             (lastPing s) (ponged s) (lastSeen s) (exp s) (csr s) (subs s) (seq s), [OClose code]).

(* connectCmd + scheduleOnConnectTimers: [e] credentials expiry (0 none), [c] client-side
   refresh, [fpres] [fping] the randomized first presence / ping delays (inputs) *)
Definition connect (g : cfg) (s : st) (e : N) (c : bool) (fpres fping : N) : st :=
  if closed s || auth s then s else
  let s1 := mkSt (now s) false true (unusable s) (nExpire s) (nPresence s) (nPing s) (nPong s) (armed s)
                 (lastPing s) (ponged s) (lastSeen s) e c (subs s) (seq s) in
  let ne := if 0 <? e then now s + (e - now s) + (if c then g_exp_delay g else 0) else nExpire s in
  let np := if 0 <? g_ping g then now s + fping else nPing s in
  schedule (set_times s1 ne (now s + fpres) np (nPong s1)).

(* checkExpired *)
Definition check_expired (g : cfg) (s : st) : st * list out :=
  if closed s || (exp s =? 0) then (s, []) else
  let handler := match g_refresh g with RNone => false | _ => true end in
  let s1 := if negb (csr s) && handler && (now s <? exp s)
            then schedule (set_times s (now s + (exp s - now s)) (nPresence s) (nPing s) (nPong s))
            else s in
  if now s <? exp s then (s1, []) else close s1 3005.

(* expire *)
Definition expire (g : cfg) (s : st) : st * list out :=
  if closed s || (exp s =? 0) then (s, []) else
  if negb (csr s) then
    match g_refresh g with
    | RNone => check_expired g s
    | RFail => close s 3004
    | RExpired => close s 3005
    | RExtend d =>
        let e := now s + d in
        check_expired g (if 0 <? e then set_exp s e else s)
    end
  else check_expired g s.

(* one expired subscription found by the presence tick *)
Definition sub_expired (g : cfg) (s : st) (b : sub) : bool :=
  (0 <? sb_exp b) && (sb_exp b + g_sub_delay g <? now s).

(* the subscription is given to the SubRefreshHandler, which extends it: the new expireAt *)
Definition sub_refreshed (g : cfg) (s : st) (b : sub) : option N :=
  if sb_csr b then None else     (* only a sub refresh command of the client can extend it *)
  match g_subrefresh g with
  | SExtend d => Some (now s + d)
  | SForever => Some 0
  | SFail | SExpired => None
  end.

Definition set_sub_exp (l : list sub) (n e : N) : list sub :=
  map (fun x => if sb_name x =? n
                then mkSub n e (sb_csr x) (sb_server x) (sb_pos x) (sb_check x) (sb_bad x) else x) l.

(* the handler is asked about every expired subscription without client-side refresh *)
Definition sub_ask (b : sub) : list out := if sb_csr b then [] else [OAsk (sb_name b)].

Fixpoint tick_subs (g : cfg) (s : st) (l : list sub) : st * list out :=
  match l with
  | [] => (s, [])
  | b :: r =>
      if closed s then (s, []) else
      if sub_expired g s b then
        match sub_refreshed g s b with
        | Some e =>
            let '(s2, o2) := tick_subs g (set_subs s (set_sub_exp (subs s) (sb_name b) e)) r in
            (s2, sub_ask b ++ o2)
        | None =>
            if sb_server b then let '(s2, o2) := close s 3006 in (s2, sub_ask b ++ o2)
            else
              let s1 := set_subs s (filter (fun x => negb (sb_name x =? sb_name b)) (subs s)) in
              let '(s2, o2) := tick_subs g s1 r in (s2, sub_ask b ++ OUnsub (sb_name b) 2501 :: o2)
        end
      else tick_subs g s r
  end.

(* periodic position check (checkPosition): due when more than the delay passed since the last one *)
Definition pos_due (g : cfg) (s : st) (b : sub) : bool :=
  (0 <? g_pos_delay g) && sb_pos b && (g_pos_delay g <? now s - sb_check b).
Definition pos_invalid (g : cfg) (s : st) (b : sub) : bool := pos_due g s b && sb_bad b.
(* a valid position is stamped with the time of the check *)
Definition stamp (g : cfg) (s : st) (l : list sub) : list sub :=
  map (fun b => if pos_due g s b && negb (sb_bad b)
                then mkSub (sb_name b) (sb_exp b) (sb_csr b) (sb_server b) (sb_pos b) (now s) (sb_bad b)
                else b) l.

(* insufficient state found by the tick: unsubscribe 2500, a server-side subscription closes 3010 *)
Fixpoint tick_pos (s : st) (l : list sub) : st * list out :=
  match l with
  | [] => (s, [])
  | b :: r =>
      if closed s then (s, []) else
      if sb_server b then close s 3010
      else
        let s1 := set_subs s (filter (fun x => negb (sb_name x =? sb_name b)) (subs s)) in
        let '(s2, o2) := tick_pos s1 r in (s2, OUnsub (sb_name b) 2500 :: o2)
  end.

(* the channel part of updatePresence: position checks first (results kept), then per channel the
   expiry check and the consequence of an invalid position.  A subscription that is both expired
   and at an invalid position is not generated (two unsubscribe goroutines would race). *)
Definition tick (g : cfg) (s : st) : st * list out :=
  let bad := filter (pos_invalid g s) (subs s) in
  let s0 := set_subs s (stamp g s (subs s)) in
  let '(s1, o1) := tick_subs g s0 (subs s0) in
  let '(s2, o2) := tick_pos s1 (filter (fun b => existsb (fun x => sb_name x =? sb_name b) (subs s1)) bad) in
  (s2, o1 ++ o2).

(* the armed timer fires *)
Definition run_op (g : cfg) (s : st) (o : op) : st * list out :=
  match o with
  | OpStale => if negb (auth s) || unusable s then close s 3502 else (s, [])
  | OpPresence =>
      let s1 := schedule (set_times s (nExpire s) (now s + g_presence g) (nPing s) (nPong s)) in
      if unusable s then close s1 3502 else tick g s1
  | OpExpire => expire g s
  | OpPing =>
      let s1 := set_ping s (seq s + 1) false (lastSeen s) in
      let po := if (0 <? g_pong g) && negb (g_uni g) then now s + g_pong g else nPong s in
      (schedule (set_times s1 (nExpire s) (nPresence s) (now s + g_ping g) po), [OPing])
  | OpPong =>
      if lastSeen s <? lastPing s then close s 3012
      else (schedule (set_times s (nExpire s) (nPresence s) (nPing s) 0), [])
  end.

Definition fire (g : cfg) (s : st) : option (st * list out) :=
  if closed s then None else
  match armed s with
  | Some (o, due) => if due <=? now s then Some (run_op g (upd_armed s None) o) else None
  | None => None
  end.

(* pong frame from the client (dispatchCommand) *)
Definition pong_cmd (s : st) : st * list out :=
  if closed s then (s, []) else
  if negb (auth s) then close s 3501 else
  if (lastPing s =? 0) || ponged s then close s 3501
  else (set_ping s (lastPing s) true (seq s + 1), []).

(* client refresh command answered by the application with expireAt [e] *)
Definition refresh_cmd (g : cfg) (s : st) (e : N) : st * list out :=
  if closed s then (s, []) else
  (* the application registers a RefreshHandler iff it refreshes client-side or server-side *)
  if negb (csr s) then
    match g_refresh g with RNone => (s, [OReply 108]) | _ => close s 3501 end
  else
  if e =? 0 then (s, [OReply 0]) else
  if now s <? e then
    (schedule (set_times (set_exp s e) (now s + (e - now s) + g_exp_delay g) (nPresence s) (nPing s) (nPong s)),
     [OReply 0])
  else (s, [OReply 110]).

(* Client.Refresh (server API) *)
Definition srv_refresh_gen (clear : bool) (g : cfg) (s : st) (expired : bool) (e : N) : st * list out :=
  if expired then close s 3005 else
  if e =? 0 then
    ((if clear then schedule (set_times (set_exp s 0) 0 (nPresence s) (nPing s) (nPong s)) else set_exp s 0),
     if closed s then [] else [ORefreshPush])
  else if now s <? e then
    (schedule (set_times (set_exp s e) (now s + (e - now s) + g_exp_delay g) (nPresence s) (nPing s) (nPong s)),
     if closed s then [] else [ORefreshPush])
  else close s 3005.
Definition srv_refresh := srv_refresh_gen true.
Definition srv_refresh_prefix := srv_refresh_gen false.

(* sub refresh command for channel [n] answered with expireAt [e] *)
Definition sub_refresh_cmd (s : st) (n e : N) : st * list out :=
  if closed s then (s, []) else
  match find (fun b => sb_name b =? n) (subs s) with
  | None => (s, [OReply 103])
  | Some b =>
      if negb (sb_csr b) then close s 3501 else
      if (0 <? e) && (e <? now s) then (s, [OReply 110])
      else (set_subs s (set_sub_exp (subs s) n e), [OReply 0])
  end.

(* subscribing stamps the position check time *)
Definition add_sub (s : st) (b : sub) : st :=
  if closed s then s
  else set_subs s (subs s ++ [mkSub (sb_name b) (sb_exp b) (sb_csr b) (sb_server b) (sb_pos b) (now s) (sb_bad b)]).

(* environment: the stream of channel [n] moves on without the client (or catches up again) *)
Definition set_stream (s : st) (n : N) (bad : bool) : st :=
  set_subs s (map (fun x => if sb_name x =? n
                            then mkSub n (sb_exp x) (sb_csr x) (sb_server x) (sb_pos x) (sb_check x) bad else x) (subs s)).

Definition advance (s : st) (d : N) : st :=
  mkSt (now s + d) (closed s) (auth s) (unusable s) (nExpire s) (nPresence s) (nPing s) (nPong s) (armed s)
       (lastPing s) (ponged s) (lastSeen s) (exp s) (csr s) (subs s) (seq s).

(* A connect whose OnConnect handler takes [d] seconds.  connectCmd has authenticated the
   connection (status still connecting), the on-connect timers are armed only when the handler
   has returned: in between the stale timer is still the armed one and fires when it is due
   (closeStale looks at the authenticated flag, so it spares the connection). *)
Definition stale_due (s : st) : bool :=
  match armed s with Some (OpStale, due) => due <=? now s | _ => false end.

Definition connect_slow (g : cfg) (s : st) (e : N) (c : bool) (fpres fping d : N) : st * list out :=
  if closed s || auth s then (advance s d, []) else
  let s1 := mkSt (now s) false true (unusable s) (nExpire s) (nPresence s) (nPing s) (nPong s) (armed s)
                 (lastPing s) (ponged s) (lastSeen s) e c (subs s) (seq s) in
  let s2 := advance s1 d in
  let '(s3, o3) := if stale_due s2 then run_op g (upd_armed s2 None) OpStale else (s2, []) in
  if closed s3 then (s3, o3) else
  let ne := if 0 <? e then now s3 + (e - now s3) + (if c then g_exp_delay g else 0) else nExpire s3 in
  let np := if 0 <? g_ping g then now s3 + fping else nPing s3 in
  (schedule (set_times s3 ne (now s3 + fpres) np (nPong s3)), o3).

Inductive label :=
| LAdvance (d : N)
| LFire
| LConnect (e : N) (c : bool) (fpres fping : N)
| LSubscribe (b : sub)
| LPong
| LRefreshCmd (e : N)
| LSrvRefresh (expired : bool) (e : N)
| LSubRefreshCmd (n e : N)
| LStream (n : N) (bad : bool)
| LConnectSlow (e : N) (c : bool) (fpres fping d : N).

Section Step.
  Variable srv : cfg -> st -> bool -> N -> st * list out.
  Definition step_gen (g : cfg) (s : st) (l : label) : option (st * list out) :=
    match l with
    | LAdvance d => Some (advance s d, [])
    | LFire => fire g s
    | LConnect e c fp fi => Some (connect g s e c fp fi, [])
    (* server-side calls reach only connections registered in the hub, i.e. authenticated ones *)
    | LSubscribe b => if auth s then Some (add_sub s b, []) else None
    | LSrvRefresh x e => if auth s then Some (srv g s x e) else None
    (* client frames before authentication are closed by the dispatch gate (C09) *)
    | LPong => Some (pong_cmd s)
    | LRefreshCmd e => Some (if auth s then refresh_cmd g s e else close s 3501)
    | LSubRefreshCmd n e => Some (if auth s then sub_refresh_cmd s n e else close s 3501)
    | LStream n bad => Some (set_stream s n bad, [])
    | LConnectSlow e c fp fi d => Some (connect_slow g s e c fp fi d)
    end.

  Fixpoint exec_gen (g : cfg) (s : st) (ls : list label) : option (st * list (list out)) :=
    match ls with
    | [] => Some (s, [])
    | l :: r =>
        match step_gen g s l with
        | None => None
        | Some (s1, o1) =>
            match exec_gen g s1 r with
            | None => None
            | Some (s2, os) => Some (s2, o1 :: os)
            end
        end
    end.
End Step.

Definition step := step_gen srv_refresh.
Definition exec := exec_gen srv_refresh.
Definition step_prefix := step_gen srv_refresh_prefix.
Definition exec_prefix := exec_gen srv_refresh_prefix.
