(* Fuel-bounded interpreter for the Lua 5.1 subset of Model/LuaAst.v, as run by
   Redis' EVAL: globals KEYS / ARGV, redis.call, tonumber, tostring; RESP2
   reply <-> Lua value conversions of script_lua.c.  Numbers are integer-valued
   binary64 (Model/LuaNum.v).  Tables are immutable arrays (the scripts never
   assign into a table).  Anything outside the modelled subset stops with
   [OUnsup] (never a guessed result).
   TRUSTED: this file is the specification of Lua used by C18 (and C23). *)
From Coq Require Import List NArith ZArith Bool String Ascii.
From Cfg Require Import Model.RStr Model.LuaNum Model.LuaAst Model.Redis.
Import ListNotations.
Open Scope string_scope.

Inductive lval :=
| LNil | LBool (b : bool) | LNum (z : Z) | LStr (s : string)
| LTab (arr : list lval)                 (* array part t[1..n] *)
| LStatus (s : string)                   (* the table { ok = s } made from a status reply *)
| LFun (body : list stmt).               (* a parameterless local function (closure over the enclosing locals) *)

Inductive outcome (A : Type) :=
| OK (a : A)
| OErr (st : rstate) (msg : string)      (* Lua runtime error: the script aborts, effects so far persist *)
| OUnsup (msg : string)                  (* outside the modelled subset *)
| OFuel.
Arguments OK {A}. Arguments OErr {A}. Arguments OUnsup {A}. Arguments OFuel {A}.

Definition bind {A B} (o : outcome A) (f : A -> outcome B) : outcome B :=
  match o with OK a => f a | OErr st m => OErr st m | OUnsup m => OUnsup m | OFuel => OFuel end.
Notation "'do' x <- o ; f" := (bind o (fun x => f)) (at level 200, x pattern, o at level 100, f at level 200).

(* ---- conversions (script_lua.c) ---- *)
Fixpoint reply_to_lua (r : reply) : lval :=
  match r with
  | RInt z => LNum (round53 z)
  | RBulk s => LStr s
  | RNil => LBool false
  | RStatus s => LStatus s
  | RErr s => LStr s                      (* not reached: redis.call raises instead *)
  | RArr l => LTab (map reply_to_lua l)
  end.

Fixpoint lua_to_reply (fuel : nat) (v : lval) : reply :=
  match v with
  | LNil => RNil
  | LBool false => RNil
  | LBool true => RInt 1
  | LNum z => RInt z
  | LStr s => RBulk s
  | LStatus s => RStatus s
  | LFun _ => RNil
  | LTab l =>
      match fuel with
      | O => RNil
      | S f =>
          RArr ((fix go (l : list lval) : list reply :=
                   match l with
                   | [] => []
                   | LNil :: _ => []                  (* conversion stops at the first nil *)
                   | x :: r => lua_to_reply f x :: go r
                   end) l)
      end
  end.

Definition truthy (v : lval) : bool :=
  match v with LNil | LBool false => false | _ => true end.

Definition env := list (string * lval).

Fixpoint lookup (x : string) (e : env) : lval :=
  match e with
  | [] => LNil
  | (y, v) :: r => if String.eqb x y then v else lookup x r
  end.
Fixpoint assign (x : string) (v : lval) (e : env) : option env :=
  match e with
  | [] => None
  | (y, w) :: r => if String.eqb x y then Some ((y, v) :: r)
                   else match assign x v r with Some r' => Some ((y, w) :: r') | None => None end
  end.
Definition restore (n : nat) (e : env) : env := skipn (List.length e - n) e.

(* byte-wise string order (strcoll in the C locale) *)
Fixpoint str_lt (a b : string) : bool :=
  match a, b with
  | _, EmptyString => false
  | EmptyString, String _ _ => true
  | String x a', String y b' =>
      let nx := nat_of_ascii x in let ny := nat_of_ascii y in
      if Nat.ltb nx ny then true else if Nat.ltb ny nx then false else str_lt a' b'
  end.

Definition type_name (v : lval) : string :=
  match v with
  | LNil => "nil" | LBool _ => "boolean" | LNum _ => "number" | LStr _ => "string"
  | LTab _ | LStatus _ => "table"
  | LFun _ => "function"
  end.

Definition lua_eq (a b : lval) : option bool :=          (* None: table identity, not modelled *)
  match a, b with
  | LNil, LNil => Some true
  | LBool x, LBool y => Some (Bool.eqb x y)
  | LNum x, LNum y => Some (x =? y)%Z
  | LStr x, LStr y => Some (String.eqb x y)
  | (LTab _ | LStatus _), (LTab _ | LStatus _) => None
  | LFun _, LFun _ => None
  | _, _ => Some false
  end.

(* arithmetic operand: numbers, or strings convertible to numbers *)
Definition arith_operand (st : rstate) (v : lval) : outcome Z :=
  match v with
  | LNum z => OK z
  | LStr s => match str2number s with
              | TNum z => OK z
              | TNotNumber => OErr st "attempt to perform arithmetic on a string value"
              | TUnsupported => OUnsup ("numeral not modelled: " ++ s)
              end
  | _ => OErr st ("attempt to perform arithmetic on a " ++ type_name v ++ " value")
  end.

Definition concat_operand (st : rstate) (v : lval) : outcome string :=
  match v with
  | LStr s => OK s
  | LNum z => OK (lua_num2str z)
  | _ => OErr st ("attempt to concatenate a " ++ type_name v ++ " value")
  end.

Definition lua_index (st : rstate) (t k : lval) : outcome lval :=
  match t with
  | LTab l =>
      match k with
      | LNum z => if (1 <=? z)%Z then OK (nth (Z.to_nat (z - 1)) l LNil) else OK LNil
      | LNil => OK LNil
      | _ => OK LNil                      (* array tables have no other keys *)
      end
  | LStatus s => match k with LStr "ok" => OK (LStr s) | _ => OK LNil end
  | LStr _ => OUnsup "indexing a string (string methods)"
  | _ => OErr st ("attempt to index a " ++ type_name t ++ " value")
  end.

Fixpoint has_nil (l : list lval) : bool :=
  match l with [] => false | LNil :: _ => true | _ :: r => has_nil r end.

Definition redis_args (st : rstate) (vs : list lval) : outcome (list string) :=
  (fix go (vs : list lval) : outcome (list string) :=
     match vs with
     | [] => OK []
     | LStr s :: r => do r' <- go r; OK (s :: r')
     | LNum z :: r => match redis_arg_of_num z with
                      | Some s => do r' <- go r; OK (s :: r')
                      | None => OUnsup "number argument outside the long long range"
                      end
     | _ :: _ => OErr st "Lua redis lib command arguments must be strings or integers"
     end) vs.

Definition call_builtin (st : rstate) (f : string) (vs : list lval) : outcome (rstate * lval) :=
  if String.eqb f "redis.call" then
    do args <- redis_args st vs;
    match args with
    | [] => OErr st "Please specify at least one argument for this redis lib call"
    | _ =>
        let '(st', r) := redis_call st args in
        match r with
        | RErr m => if is_prefix "MODEL-UNSUPPORTED" m then OUnsup m else OErr st' m
        | _ => OK (st', reply_to_lua r)
        end
    end
  else if String.eqb f "tonumber" then
    match vs with
    | [LNum z] => OK (st, LNum z)
    | [LStr s] => match str2number s with
                  | TNum z => OK (st, LNum z)
                  | TNotNumber => OK (st, LNil)
                  | TUnsupported => OUnsup ("numeral not modelled: " ++ s)
                  end
    | [_] => OK (st, LNil)
    | [] => OErr st "bad argument #1 to 'tonumber' (value expected)"
    | _ => OUnsup "tonumber with a base"
    end
  else if String.eqb f "tostring" then
    match vs with
    | LStr s :: _ => OK (st, LStr s)
    | LNum z :: _ => OK (st, LStr (lua_num2str z))
    | LNil :: _ => OK (st, LStr "nil")
    | LBool b :: _ => OK (st, LStr (if b then "true" else "false"))
    | [] => OErr st "bad argument #1 to 'tostring' (value expected)"
    | _ => OUnsup "tostring of a table"
    end
  else if String.eqb f "string.find" then
    (* string.find(s, pattern): only patterns without magic characters (plain search) *)
    match vs with
    | [LStr s; LStr p] =>
        if existsb (fun c => has_char c p) ["^"; "$"; "("; ")"; "%"; "."; "["; "]"; "*"; "+"; "-"; "?"]%char
        then OUnsup "string.find with a pattern"
        else match sindex p s with
             | Some i => OK (st, LNum (Z.of_nat (S i)))
             | None => OK (st, LNil)
             end
    | _ => OUnsup "string.find argument forms"
    end
  else if String.eqb f "string.sub" then
    match vs with
    | [LStr s; LNum i; LNum j] =>
        if ((1 <=? i) && (0 <=? j))%Z
        then OK (st, LStr (stake (Z.to_nat (j - i + 1)) (sdrop (Z.to_nat (i - 1)) s)))
        else OUnsup "string.sub with non-positive indices"
    | [LStr s; LNum i] =>
        if (1 <=? i)%Z then OK (st, LStr (sdrop (Z.to_nat (i - 1)) s)) else OUnsup "string.sub with non-positive indices"
    | _ => OUnsup "string.sub argument forms"
    end
  else if (String.eqb f "table.sort_asc" || String.eqb f "table.sort_desc")%bool then
    (* table.sort(t, function(a, b) return a < b end) / (a > b) on an array of strings (translator) *)
    let asc := String.eqb f "table.sort_asc" in
    let strs := fix go (l : list lval) : option (list string) :=
                  match l with
                  | [] => Some []
                  | LStr s :: r => match go r with Some rs => Some (s :: rs) | None => None end
                  | _ => None
                  end in
    let ins := fix ins (x : string) (l : list string) : list string :=
                 match l with
                 | [] => [x]
                 | y :: r => if (if asc then str_lt y x else str_lt x y) then y :: ins x r else x :: l
                 end in
    match vs with
    | [LTab l] => match strs l with
                  | Some ss => OK (st, LTab (map LStr (fold_right ins [] ss)))
                  | None => OUnsup "table.sort of non-strings"
                  end
    | _ => OUnsup "table.sort argument forms"
    end
  else OUnsup ("function not modelled: " ++ f).

Definition num_cmp (op : binop) (x y : Z) : bool :=
  match op with
  | BLt => (x <? y)%Z | BLe => (x <=? y)%Z | BGt => (y <? x)%Z | BGe => (y <=? x)%Z | _ => false
  end.
Definition str_cmp (op : binop) (x y : string) : bool :=
  match op with
  | BLt => str_lt x y | BLe => negb (str_lt y x) | BGt => str_lt y x | BGe => negb (str_lt x y) | _ => false
  end.

Definition binop_strict (st : rstate) (op : binop) (a b : lval) : outcome lval :=
  match op with
  | BEq => match lua_eq a b with Some r => OK (LBool r) | None => OUnsup "table comparison" end
  | BNe => match lua_eq a b with Some r => OK (LBool (negb r)) | None => OUnsup "table comparison" end
  | BLt | BLe | BGt | BGe =>
      match a, b with
      | LNum x, LNum y => OK (LBool (num_cmp op x y))
      | LStr x, LStr y => OK (LBool (str_cmp op x y))
      | _, _ => if String.eqb (type_name a) (type_name b)
                then OErr st ("attempt to compare two " ++ type_name a ++ " values")
                else OErr st ("attempt to compare " ++ type_name a ++ " with " ++ type_name b)
      end
  | BConcat => do x <- concat_operand st a; do y <- concat_operand st b; OK (LStr (x ++ y))
  | BAdd => do x <- arith_operand st a; do y <- arith_operand st b; OK (LNum (round53 (x + y)))
  | BSub => do x <- arith_operand st a; do y <- arith_operand st b; OK (LNum (round53 (x - y)))
  | BMul => do x <- arith_operand st a; do y <- arith_operand st b; OK (LNum (round53 (x * y)))
  | BAnd | BOr => OUnsup "internal: and/or are not strict"
  end.

Fixpoint eval (fuel : nat) (st : rstate) (e : env) (x : expr) {struct fuel} : outcome (rstate * lval) :=
  match fuel with
  | O => OFuel
  | S f =>
      let eval_list :=
        (fix go (st : rstate) (xs : list expr) : outcome (rstate * list lval) :=
           match xs with
           | [] => OK (st, [])
           | x :: r => do (st1, v) <- eval f st e x; do (st2, vs) <- go st1 r; OK (st2, v :: vs)
           end) in
      match x with
      | ENil => OK (st, LNil)
      | ETrue => OK (st, LBool true)
      | EFalse => OK (st, LBool false)
      | ENum z => OK (st, LNum (round53 z))
      | EStr s => OK (st, LStr s)
      | EVar y => OK (st, lookup y e)
      | EIndex a k =>
          do (st1, va) <- eval f st e a;
          do (st2, vk) <- eval f st1 e k;
          do v <- lua_index st2 va vk; OK (st2, v)
      | ECall fn args =>
          (* f(a, b, unpack(t)): a call to unpack in LAST position is expanded to the elements of t *)
          match rev args with
          | ECall "unpack" [t] :: rinit =>
              do (st1, vs) <- eval_list st (rev rinit);
              do (st2, vt) <- eval f st1 e t;
              match vt with
              | LTab l => if has_nil l then OUnsup "unpack of a table with holes" else call_builtin st2 fn (vs ++ l)%list
              | _ => OErr st2 "bad argument #1 to 'unpack' (table expected)"
              end
          | _ =>
              do (st1, vs) <- eval_list st args;
              call_builtin st1 fn vs
          end
      | EBin BAnd a b =>
          do (st1, va) <- eval f st e a;
          if truthy va then eval f st1 e b else OK (st1, va)
      | EBin BOr a b =>
          do (st1, va) <- eval f st e a;
          if truthy va then OK (st1, va) else eval f st1 e b
      | EBin op a b =>
          do (st1, va) <- eval f st e a;
          do (st2, vb) <- eval f st1 e b;
          do v <- binop_strict st2 op va vb; OK (st2, v)
      | EUn UNot a => do (st1, va) <- eval f st e a; OK (st1, LBool (negb (truthy va)))
      | EUn ULen a =>
          do (st1, va) <- eval f st e a;
          match va with
          | LStr s => OK (st1, LNum (Z.of_N (slen s)))
          | LTab l => if has_nil l then OUnsup "length of a table with holes"
                      else OK (st1, LNum (Z.of_nat (List.length l)))
          | LStatus _ => OK (st1, LNum 0)
          | _ => OErr st1 ("attempt to get length of a " ++ type_name va ++ " value")
          end
      | EUn UNeg a =>
          do (st1, va) <- eval f st e a;
          do z <- arith_operand st1 va; OK (st1, LNum (- z)%Z)
      | ETable es =>
          do (st1, vs) <- eval_list st es; OK (st1, LTab vs)
      end
  end.

Inductive signal := SigNone | SigBreak | SigRet (v : lval).

Fixpoint bind_locals (xs : list string) (vs : list lval) (e : env) : env :=
  match xs with
  | [] => e
  | x :: xr => match vs with
               | v :: vr => bind_locals xr vr ((x, v) :: e)
               | [] => bind_locals xr [] ((x, LNil) :: e)
               end
  end.

Fixpoint exec (fuel : nat) (st : rstate) (e : env) (b : list stmt) {struct fuel}
  : outcome (rstate * env * signal) :=
  match fuel with
  | O => OFuel
  | S f =>
      match b with
      | [] => OK (st, e, SigNone)
      | s :: rest =>
          let scoped (st : rstate) (e : env) (body : list stmt) : outcome (rstate * env * signal) :=
            do (st1, e1, sg) <- exec f st e body; OK (st1, restore (List.length e) e1, sg) in
          do (st1, e1, sg) <-
            match s with
            | SLocal xs es =>
                do (st1, vs) <-
                  (fix go (st : rstate) (xs : list expr) : outcome (rstate * list lval) :=
                     match xs with
                     | [] => OK (st, [])
                     | x :: r => do (st1, v) <- eval f st e x; do (st2, vs) <- go st1 r; OK (st2, v :: vs)
                     end) st es;
                OK (st1, bind_locals xs vs e, SigNone)
            | SAssign x ex =>
                do (st1, v) <- eval f st e ex;
                match assign x v e with
                | Some e' => OK (st1, e', SigNone)
                | None => OUnsup ("assignment to a global: " ++ x)
                end
            | SAssignIndex x ek ex =>
                do (st1, vk) <- eval f st e ek;
                do (st2, v) <- eval f st1 e ex;
                match lookup x e, vk with
                | LTab l, LNum k =>
                    let n := Z.of_nat (List.length l) in
                    if has_nil l then OUnsup "element assignment on a table with holes"
                    else if (k =? n + 1)%Z then
                      match assign x (LTab (l ++ [v])) e with Some e' => OK (st2, e', SigNone) | None => OUnsup ("assignment to a global: " ++ x) end
                    else if ((1 <=? k) && (k <=? n))%Z then
                      match assign x (LTab (firstn (Z.to_nat (k - 1)) l ++ v :: skipn (Z.to_nat k) l)) e with
                      | Some e' => OK (st2, e', SigNone) | None => OUnsup ("assignment to a global: " ++ x) end
                    else OUnsup "element assignment outside 1 .. #t + 1"
                | _, _ => OUnsup "element assignment on a non-array"
                end
            | SLocalFun fn body => OK (st, (fn, LFun body) :: e, SigNone)
            | SIf arms els =>
                (fix go (st : rstate) (arms : list (expr * list stmt)) : outcome (rstate * env * signal) :=
                   match arms with
                   | [] => scoped st e els
                   | (c, body) :: r =>
                       do (st1, vc) <- eval f st e c;
                       if truthy vc then scoped st1 e body else go st1 r
                   end) st arms
            | SForNum x e1 e2 e3 body =>
                do (st1, v1) <- eval f st e e1;
                do (st2, v2) <- eval f st1 e e2;
                do (st3, v3) <- eval f st2 e e3;
                match v1, v2, v3 with
                | LNum i0, LNum lim, LNum step =>
                    if (step =? 0)%Z then OErr st3 "'for' step is zero" else
                    (fix loop (n : nat) (st : rstate) (e : env) (i : Z) : outcome (rstate * env * signal) :=
                       match n with
                       | O => OFuel
                       | S n' =>
                           if (if (0 <? step)%Z then (i <=? lim)%Z else (lim <=? i)%Z) then
                             do (st', e', sg) <- scoped st ((x, LNum i) :: e) body;
                             let e'' := tl e' in
                             match sg with
                             | SigNone => loop n' st' e'' (round53 (i + step))
                             | SigBreak => OK (st', e'', SigNone)
                             | SigRet v => OK (st', e'', SigRet v)
                             end
                           else OK (st, e, SigNone)
                       end) f st3 e i0
                | _, _, _ => OUnsup "'for' bounds that are not numbers"
                end
            | SWhile c body =>
                (fix loop (n : nat) (st : rstate) (e : env) : outcome (rstate * env * signal) :=
                   match n with
                   | O => OFuel
                   | S n' =>
                       do (st1, vc) <- eval f st e c;
                       if truthy vc then
                         do (st', e', sg) <- scoped st1 e body;
                         match sg with
                         | SigNone => loop n' st' e'
                         | SigBreak => OK (st', e', SigNone)
                         | SigRet v => OK (st', e', SigRet v)
                         end
                       else OK (st1, e, SigNone)
                   end) f st e
            | SCall ex =>
                match ex with
                | ECall fn [] =>
                    match lookup fn e with
                    | LFun body =>
                        (* the body sees (and may assign) the locals visible at the call; its own locals are dropped *)
                        do (st1, e1, _) <- scoped st e body; OK (st1, e1, SigNone)
                    | _ => do (st1, _) <- eval f st e ex; OK (st1, e, SigNone)
                    end
                | _ => do (st1, _) <- eval f st e ex; OK (st1, e, SigNone)
                end
            | SReturn None => OK (st, e, SigRet LNil)
            | SReturn (Some ex) => do (st1, v) <- eval f st e ex; OK (st1, e, SigRet v)
            | SBreak => OK (st, e, SigBreak)
            end;
          match sg with
          | SigNone => exec f st1 e1 rest
          | _ => OK (st1, e1, sg)
          end
      end
  end.

Definition default_fuel : nat := 2000.

(* EVAL: run a script; the result is the new state and the RESP reply. *)
Definition run_script (fuel : nat) (body : block) (keys argv : list string) (st : rstate) : outcome (rstate * reply) :=
  let e : env := [("KEYS", LTab (map LStr keys)); ("ARGV", LTab (map LStr argv))] in
  do (st1, _, sg) <- exec fuel st e body;
  match sg with
  | SigRet v => OK (st1, lua_to_reply 8 v)
  | _ => OK (st1, RNil)
  end.

(* As seen by a client: errors become error replies (effects persist). *)
Definition eval_script (body : block) (keys argv : list string) (st : rstate) : rstate * reply :=
  match run_script default_fuel body keys argv st with
  | OK r => r
  | OErr st' m => (st', RErr m)
  | OUnsup m => (st, RErr ("MODEL-UNSUPPORTED " ++ m))
  | OFuel => (st, RErr "MODEL-UNSUPPORTED out of fuel")
  end.
