(* Model of /repo/internal/filter/filter.go: Match, Validate and the byte string
   that Hash feeds to SHA-256 (FilterNode.MarshalToVT of centrifugal/protocol).
   Executable, no proofs here.

   The in / nin leaf cases are modelled as they are AFTER the minimal fix
   /verif/fixes/C15-in-absent-key.patch ([ok &&] / [!ok ||]); [match_gen false]
   is the code as it was before the fix (kept only for the refutation example). *)
From Coq Require Import List NArith ZArith Bool.
From Cfg Require Export Model.Decimal.
Import ListNotations.
Open Scope N_scope.

(* protocol.FilterNode: every field of the Go struct is present, so that all
   malformed trees are representable (a leaf with children, a NOT with two
   children, unknown operators ...).  Pointers are assumed non-nil. *)
Inductive node :=
  Node (op key cmp val : bytes) (vals : list bytes) (nodes : list node).

Definition tagmap := list (bytes * bytes).     (* Go map[string]string, keys distinct *)

Fixpoint lookup (k : bytes) (m : tagmap) : option bytes :=
  match m with
  | [] => None
  | (k', v) :: m' => if bytes_eqb k k' then Some v else lookup k m'
  end.

(* string constants of filter.go *)
Definition s_and : bytes := [97; 110; 100].
Definition s_or  : bytes := [111; 114].
Definition s_not : bytes := [110; 111; 116].
Definition s_eq  : bytes := [101; 113].
Definition s_neq : bytes := [110; 101; 113].
Definition s_in  : bytes := [105; 110].
Definition s_nin : bytes := [110; 105; 110].
Definition s_ex  : bytes := [101; 120].
Definition s_nex : bytes := [110; 101; 120].
Definition s_sw  : bytes := [115; 119].
Definition s_ew  : bytes := [101; 119].
Definition s_ct  : bytes := [99; 116].
Definition s_gt  : bytes := [103; 116].
Definition s_gte : bytes := [103; 116; 101].
Definition s_lt  : bytes := [108; 116].
Definition s_lte : bytes := [108; 116; 101].

Inductive opk := OLeaf | OAnd | OOr | ONot.
Inductive cmpop :=
  CEq | CNeq | CIn | CNin | CEx | CNex | CSw | CEw | CCt | CGt | CGte | CLt | CLte.

(* the [switch f.Op] / [switch f.Cmp] on string constants *)
Definition decode_op (op : bytes) : option opk :=
  match op with
  | [] => Some OLeaf
  | _ => if bytes_eqb op s_and then Some OAnd
         else if bytes_eqb op s_or then Some OOr
         else if bytes_eqb op s_not then Some ONot
         else None
  end.

Definition decode_cmp (c : bytes) : option cmpop :=
  if bytes_eqb c s_eq then Some CEq
  else if bytes_eqb c s_neq then Some CNeq
  else if bytes_eqb c s_in then Some CIn
  else if bytes_eqb c s_nin then Some CNin
  else if bytes_eqb c s_ex then Some CEx
  else if bytes_eqb c s_nex then Some CNex
  else if bytes_eqb c s_sw then Some CSw
  else if bytes_eqb c s_ew then Some CEw
  else if bytes_eqb c s_ct then Some CCt
  else if bytes_eqb c s_gt then Some CGt
  else if bytes_eqb c s_gte then Some CGte
  else if bytes_eqb c s_lt then Some CLt
  else if bytes_eqb c s_lte then Some CLte
  else None.

(* strings.HasPrefix / HasSuffix / Contains, slices.Contains *)
Fixpoint has_prefix (s p : bytes) : bool :=
  match p, s with
  | [], _ => true
  | x :: p', y :: s' => (x =? y) && has_prefix s' p'
  | _ :: _, [] => false
  end.

Definition has_suffix (s p : bytes) : bool := has_prefix (rev s) (rev p).

Fixpoint str_contains (s p : bytes) : bool :=
  has_prefix s p || match s with [] => false | _ :: s' => str_contains s' p end.

Definition slice_contains (l : list bytes) (x : bytes) : bool := existsb (bytes_eqb x) l.

(* the numeric tail of the leaf switch *)
Definition num_test (c : cmpop) (r : comparison) : bool :=
  match c, r with
  | CGt, Gt => true
  | CGte, Gt | CGte, Eq => true
  | CLt, Lt => true
  | CLte, Lt | CLte, Eq => true
  | _, _ => false
  end.

(* leaf case of Match; None = the function returns an error.
   [fixed = true]: in/nin test [ok]; [false]: they look up the zero value. *)
Definition match_leaf (fixed : bool) (key cmp val : bytes) (vals : list bytes)
           (tags : tagmap) : option bool :=
  let r := lookup key tags in
  let ok := match r with Some _ => true | None => false end in
  let v := match r with Some x => x | None => [] end in
  match decode_cmp cmp with
  | None => None
  | Some CEq => Some (ok && bytes_eqb v val)
  | Some CNeq => Some (negb ok || negb (bytes_eqb v val))
  | Some CIn => Some ((ok || negb fixed) && slice_contains vals v)
  | Some CNin => Some ((negb ok && fixed) || negb (slice_contains vals v))
  | Some CEx => Some ok
  | Some CNex => Some (negb ok)
  | Some CSw => Some (ok && has_prefix v val)
  | Some CEw => Some (ok && has_suffix v val)
  | Some CCt => Some (ok && str_contains v val)
  | Some c =>                      (* gt, gte, lt, lte *)
      if negb ok then Some false
      else match dec_parse v with
           | None => Some false
           | Some dv =>
               match dec_parse val with
               | None => Some false
               | Some dc => Some (num_test c (dec_cmp dv dc))
               end
           end
  end.

Fixpoint match_gen (fixed : bool) (f : node) (tags : tagmap) {struct f} : option bool :=
  match f with
  | Node op key cmp val vals nodes =>
      match decode_op op with
      | Some OLeaf => match_leaf fixed key cmp val vals tags
      | Some OAnd =>
          (fix go (l : list node) : option bool :=
             match l with
             | [] => Some true
             | c :: l' =>
                 match match_gen fixed c tags with
                 | None => None
                 | Some false => Some false
                 | Some true => go l'
                 end
             end) nodes
      | Some OOr =>
          (fix go (l : list node) : option bool :=
             match l with
             | [] => Some false
             | c :: l' =>
                 match match_gen fixed c tags with
                 | None => None
                 | Some true => Some true
                 | Some false => go l'
                 end
             end) nodes
      | Some ONot =>
          match nodes with
          | [c] => option_map negb (match_gen fixed c tags)
          | _ => None
          end
      | None => None
      end
  end.

Definition matchf : node -> tagmap -> option bool := match_gen true.

(* leaf case of Validate; true = nil error *)
Definition validate_leaf (key cmp val : bytes) (vals : list bytes) : bool :=
  if is_nil cmp then false
  else
    match decode_cmp cmp with
    | None => false
    | Some c =>
        (match c with
         | CIn | CNin => negb (is_nil vals) && is_nil val
         | CEx | CNex => is_nil val && is_nil vals
         | _ => negb (is_nil val) && is_nil vals
         end)
        && (negb (is_nil key) || match c with CEx | CNex => true | _ => false end)
    end.

Fixpoint validate (f : node) : bool :=
  match f with
  | Node op key cmp val vals nodes =>
      match decode_op op with
      | Some OLeaf => validate_leaf key cmp val vals
      | Some OAnd | Some OOr =>
          negb (is_nil nodes) &&
          (fix go (l : list node) : bool :=
             match l with
             | [] => true
             | c :: l' => if validate c then go l' else false
             end) nodes
      | Some ONot =>
          match nodes with
          | [c] => validate c
          | _ => false
          end
      | None => false
      end
  end.

(* protobuf wire encoding used by Hash: fields 1..6, all length-delimited
   (wire type 2), empty scalar strings omitted, every element of the repeated
   fields emitted (also empty ones), no unknown fields. *)
Fixpoint varint (fuel : nat) (n : N) : bytes :=
  match fuel with
  | O => []
  | S k => if n <? 128 then [n] else (n mod 128 + 128) :: varint k (n / 128)
  end.

Definition tagged (fld : N) (s : bytes) : bytes :=
  (fld * 8 + 2) :: varint 10 (N.of_nat (length s)) ++ s.

Definition field (fld : N) (s : bytes) : bytes :=
  match s with [] => [] | _ => tagged fld s end.

Fixpoint marshal (f : node) : bytes :=
  match f with
  | Node op key cmp val vals nodes =>
      field 1 op ++ field 2 key ++ field 3 cmp ++ field 4 val ++
      flat_map (tagged 5) vals ++
      (fix go (l : list node) : bytes :=
         match l with
         | [] => []
         | c :: l' => tagged 6 (marshal c) ++ go l'
         end) nodes
  end.
