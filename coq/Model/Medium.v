(* C38: the channel medium (channel_medium.go) as a transition system: an optional queue
   with a byte bound, a writer that either forwards one item or (broadcast delay) coalesces a
   run of publications into its last one, the shared position check with its rate limit,
   retry and insufficient-state marker, and close.  Output = the sequence of calls the medium
   makes to Node.handlePublication (publication offsets, or the MaxUint64 marker).

   What reaches the subscribers after that is Model/Positioned.v: a publication the medium
   skipped is a dropped delivery there, the marker is a delivery whose offset is above any
   expected one (CheckPosition's gap / epoch branch). *)
From Coq Require Import List NArith Bool.
Import ListNotations.
Open Scope N_scope.

Inductive qitem := QPub (off : N) (size : N) | QInsuff.

Record mopts := mkMO {
  o_queue : bool;        (* enableQueue *)
  o_max : N;             (* queueMaxSize in bytes (0 = 16 MiB default) *)
  o_delay : bool         (* broadcastDelay > 0 (requires the queue) *)
}.

Record mst := mkMS {
  mq : list qitem;       (* publicationQueue *)
  mclosed : bool;        (* queue closed (medium shut down) *)
  mchk : N;              (* positionCheckTime *)
  mout : list qitem;     (* calls to handlePublication, oldest first *)
  g_in : list qitem      (* ghost: everything handed to the medium, in order *)
}.

Definition minit (now : N) : mst := mkMS [] false now [] [].

Definition isize (i : qitem) : N := match i with QPub _ s => s | QInsuff => 0 end.
Definition qsize (q : list qitem) : N := fold_right (fun i a => isize i + a) 0 q.
Definition qmax (o : mopts) : N := if o_max o =? 0 then 16777216 else o_max o.

(* channelMedium.broadcastPublication / broadcastInsufficientState *)
Definition accept (o : mopts) (s : mst) (i : qitem) (now : N) : mst :=
  let gi := g_in s ++ [i] in
  if o_queue o then
    match i with
    | QPub _ _ =>
        if qmax o <? qsize (mq s) then mkMS (mq s) (mclosed s) now (mout s) gi          (* dropped: queue full *)
        else if mclosed s then mkMS (mq s) (mclosed s) now (mout s) gi                  (* Add on a closed queue *)
        else mkMS (mq s ++ [i]) (mclosed s) now (mout s) gi
    | QInsuff =>
        if mclosed s then mkMS (mq s) (mclosed s) now (mout s) gi
        else mkMS (mq s ++ [i]) (mclosed s) now (mout s) gi
    end
  else mkMS (mq s) (mclosed s) now (mout s ++ [i]) gi.                                  (* direct, under broadcastMu *)

(* waitSendPub after Wait() and the timer: coalesce with delay *)
Fixpoint drain (n : nat) (cur : qitem) (q : list qitem) : qitem * list qitem :=
  match n, q with
  | S n', x :: q' =>
      match x with
      | QInsuff => (x, q')              (* the marker stops the coalescing and is what is sent *)
      | _ => drain n' x q'
      end
  | _, _ => (cur, q)
  end.

Inductive mlabel :=
  | MBroadcast (off size now : N)
  | MWriter                                (* one waitSendPub iteration on a non-empty queue *)
  | MCheck (now delay : N) (r1 r2 : option bool)   (* CheckPosition: streamTop answers (None = error, Some valid?) *)
  | MClose.

Definition mstep (o : mopts) (s : mst) (l : mlabel) : option (mst * option bool) :=
  match l with
  | MBroadcast off size now => Some (accept o s (QPub off size) now, None)
  | MWriter =>
      if mclosed s then None else
      match mq s with
      | [] => None
      | x :: q =>
          if negb (o_delay o) then Some (mkMS q (mclosed s) (mchk s) (mout s ++ [x]) (g_in s), None)
          else match x with
               | QInsuff => Some (mkMS q (mclosed s) (mchk s) (mout s ++ [x]) (g_in s), None)
               | _ => let '(y, q') := drain (length q) x q in
                      Some (mkMS q' (mclosed s) (mchk s) (mout s ++ [y]) (g_in s), None)
               end
      end
  | MCheck now delay r1 r2 =>
      if now - mchk s <? delay then Some (s, Some true)       (* rate limit: not checked *)
      else
        let s1 := mkMS (mq s) (mclosed s) now (mout s) (g_in s) in
        let final := match r1 with Some true => Some true | _ => r2 end in
        match final with
        | None => Some (s1, Some true)                        (* error: check again later *)
        | Some true => Some (s1, Some true)
        | Some false => Some (accept o s1 QInsuff now, Some false)
        end
  | MClose => Some (mkMS [] true (mchk s) (mout s) (g_in s), None)
  end.

Fixpoint mrun (o : mopts) (s : mst) (ls : list mlabel) : option (mst * list (option bool)) :=
  match ls with
  | [] => Some (s, [])
  | l :: ls' =>
      match mstep o s l with
      | Some (s', r) => match mrun o s' ls' with Some (s'', rs) => Some (s'', r :: rs) | None => None end
      | None => None
      end
  end.

(* ---- specification ---- *)
(* order is preserved: what the medium forwards is a subsequence of what it was given *)
Fixpoint subseq (a b : list qitem) (eqb : qitem -> qitem -> bool) : bool :=
  match a, b with
  | [], _ => true
  | _ :: _, [] => false
  | x :: a', y :: b' => if eqb x y then subseq a' b' eqb else subseq a b' eqb
  end.
Definition qitem_eqb (x y : qitem) : bool :=
  match x, y with
  | QPub o1 s1, QPub o2 s2 => (o1 =? o2) && (s1 =? s2)
  | QInsuff, QInsuff => true
  | _, _ => false
  end.
Definition count_insuff (l : list qitem) : nat :=
  length (filter (fun i => match i with QInsuff => true | _ => false end) l).
