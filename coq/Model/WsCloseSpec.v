(* Specification side of C31's close-frame part, written from RFC 6455 (sections 1.3, 5.5, 5.5.1,
   7.1.5, 7.4) and from the property text, independently of the Go code's tables and control flow.
   Executable, so that the same predicates judge what the implementation did. *)
From Coq Require Import List NArith Bool.
From Cfg Require Import Model.WsUtf8 Model.WsClose.
Import ListNotations.
Open Scope N_scope.

(* RFC 6455 section 1.3: the GUID appended to the challenge key *)
Definition rfc_guid : list N :=
  [50; 53; 56; 69; 65; 70; 65; 53; 45; 69; 57; 49; 52; 45; 52; 55; 68; 65; 45; 57; 53; 67; 65; 45; 67; 53; 65; 66; 48; 68; 67; 56; 53; 66; 49; 49].

(* RFC 6455 section 7.4.
   7.4.1 defines 1000 1001 1002 1003 1007 1008 1009 1010 1011; 1004 is reserved; 1005, 1006 and 1015
   MUST NOT be set as a status code in a Close control frame by an endpoint.
   7.4.2: 0-999 are not used; 1000-2999 are reserved for the protocol and its extensions (a code in
   that range without a definition has no meaning and must not appear); 3000-3999 libraries and
   frameworks, 4000-4999 private use.  Status codes are 16 bit; nothing is defined above 4999.
   IANA later registered 1012, 1013, 1014: neither required nor forbidden here. *)
Definition rfc_close_defined (c : N) : bool :=
  ((1000 <=? c) && (c <=? 1003)) || ((1007 <=? c) && (c <=? 1011)) || ((3000 <=? c) && (c <=? 4999)).
Definition iana_close_registered (c : N) : bool := (1012 <=? c) && (c <=? 1014).
Definition rfc_close_forbidden (c : N) : bool :=
  negb (rfc_close_defined c) && negb (iana_close_registered c).

(* The disconnect advice fits in a close control frame: 2 bytes of status code + reason <= 125 bytes,
   the code is a 16 bit status code that can be put on the wire.  Excluded: 3000
   (DisconnectConnectionClosed = "connection already gone, nothing is sent") and 1005 (RFC 7.4.1:
   must never be sent; the library sends an empty close body for it). *)
Definition fits_close_frame (code : N) (reason : list N) : bool :=
  (1 <=? code) && (code <=? 65535) && negb (code =? 3000) && negb (code =? 1005)
  && (2 + N.of_nat (length reason) <=? 125).

Definition close_payload (code : N) (reason : list N) : list N := (code / 256) :: (code mod 256) :: reason.

(* status code carried by a close frame payload; 1005 = "no status present" (RFC 7.1.5) *)
Definition payload_code (p : list N) : N :=
  match p with a :: b :: _ => a * 256 + b | _ => 1005 end.

(* the close frames observed during one event, in order: (code, incoming) *)
Definition observed_closes (o : obs) : list (N * bool) :=
  match o with
  | OWrite fs _ => map (fun f => (payload_code f, false)) fs
  | OTransport fs => map (fun f => (payload_code f, false)) fs
  | ORecv fs (RClose c _) => (c, true) :: map (fun f => (payload_code f, false)) fs
  | ORecv fs _ => map (fun f => (payload_code f, false)) fs
  end.

Definition frames_of (o : obs) : list (list N) :=
  match o with OWrite fs _ => fs | OTransport fs => fs | ORecv fs _ => fs end.

Definition rres_is_proto (r : rres) : bool := match r with RProtoErr => true | _ => false end.
Definition list_beq (a b : list N) : bool := if list_eq_dec N.eq_dec a b then true else false.
Definition rres_is_close (r : rres) (c : N) (t : list N) : bool :=
  match r with RClose c' t' => (c =? c') && list_beq t t' | _ => false end.

(* One event judged against the property. sent = a close frame was already written on this
   connection; closed = transport.Close already ran. *)
Definition event_ok (sent closed : bool) (e : event) (o : obs) : bool :=
  match e, o with
  | EvTransportClose code reason, OTransport fs =>
      if closed then match fs with [] => true | _ => false end
      else if negb sent && fits_close_frame code reason then
        match fs with [f] => list_beq f (close_payload code reason) | _ => false end
      else (N.of_nat (length fs) <=? 1)
  | EvRecvClose payload _, ORecv fs r =>
      match r with
      | RNone => match fs with [] => true | _ => false end
      | _ =>
          match payload with
          | a :: b :: text =>
              let code := a * 256 + b in
              if rfc_close_forbidden code || negb (utf8_valid text) then
                rres_is_proto r
                && (if sent then match fs with [] => true | _ => false end
                    else match fs with [f] => payload_code f =? 1002 | _ => false end)
              else if rfc_close_defined code then rres_is_close r code text
              else rres_is_proto r || rres_is_close r code text
          | [] => rres_is_close r 1005 []
          | [_] => true      (* a one byte close body is judged by C29 *)
          end
      end
  | EvWriteClose data, OWrite fs _ =>
      forallb (fun f => N.of_nat (length f) <=? 125) fs && (N.of_nat (length fs) <=? 1)
  | _, _ => false
  end.

Fixpoint events_ok (sent closed : bool) (es : list event) (os : list obs) : bool :=
  match es, os with
  | [], [] => true
  | e :: es', o :: os' =>
      event_ok sent closed e o
      && events_ok (sent || match frames_of o with [] => false | _ => true end)
                   (closed || match e with EvTransportClose _ _ => true | _ => false end) es' os'
  | _, _ => false
  end.

(* the first close frame observed (sent on the wire or validly received) *)
Definition first_close (os : list obs) : option (N * bool) :=
  hd_error (flat_map observed_closes os).

(* RFC 7.4.2: status code 0 is never used; an application that puts it into a close frame is
   outside the property (the library then records nothing for that frame) *)
Definition sent_zero (os : list obs) : bool :=
  existsb (fun '(c, _) => c =? 0) (flat_map observed_closes os).

Definition session_ok (es : list event) (os : list obs) (code : N) (incoming : bool) : bool :=
  events_ok false false es os
  && (sent_zero os
      || match first_close os with
         | Some (c, i) => (code =? c) && Bool.eqb incoming i
         | None => true
         end).
