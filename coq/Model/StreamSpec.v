(* Specification of a bounded append-only stream broker, written from the
   text of properties C17 and C19 and independent of the data structures of
   the code (no stored offsets, no index lookups, no trimming loop, no
   separate deadline maps):

   per channel, as long as its metadata lives, an abstract record
     epoch, top, the retained payloads (a suffix of the append-only log; the
     i-th retained payload from the END carries offset top - i), the history
     deadline, the metadata deadline, the held version.

   * a stored publication gets offset top+1; at most [size] newest are retained;
   * history = retained suffix filtered by since / limit / direction, computed
     arithmetically on offsets;
   * expiry (sweep after the history deadline) and RemoveHistory drop the
     retained payloads and keep top and epoch;
   * only discarding the metadata (sweep after the metadata deadline) forgets
     the channel; the next access creates it afresh with a fresh epoch;
   * a keyed publish whose key was stored by an unsuppressed publish and whose
     result deadline is still in the future returns that position and changes
     nothing; a versioned publish is suppressed iff the channel holds a version
     >= it in the same version epoch (empty epoch in the request = any), and
     changes nothing; only versioned unsuppressed publishes change the held
     version. *)
From Coq Require Import List NArith ZArith Bool.
From Cfg Require Import Model.MemStream.
Import ListNotations.
Open Scope N_scope.

Record achan := mkAchan {
  a_epoch : N;
  a_top : N;
  a_ret : list N;          (* retained payloads, oldest first *)
  a_exp : N;               (* history deadline (s); meaningful while a_ret <> [] *)
  a_meta : option N;       (* metadata deadline (s); None = never discarded *)
  a_ver : N;
  a_vep : N
}.

Record aspec := mkSpec {
  sp_chan : N -> option achan;
  sp_cache : N -> N -> option (N * N * N);
  sp_now : N;
  sp_fresh : N;
  sp_meta : N
}.

Definition spec_init (now meta : N) : aspec :=
  mkSpec (fun _ => None) (fun _ _ => None) now 1 meta.

(* payloads numbered lo+1, lo+2, ... *)
Fixpoint number (lo : N) (ids : list N) : list item :=
  match ids with
  | [] => []
  | x :: r => mkItem (lo + 1) x :: number (lo + 1) r
  end.

Definition a_lo (a : achan) : N := a_top a - N.of_nat (length (a_ret a)).
Definition aitems (a : achan) : list item := number (a_lo a) (a_ret a).

Definition lastn {A} (n : nat) (l : list A) : list A := skipn (length l - n) l.

Definition spec_filter (top : N) (its : list item) (f : hfilter) : list item :=
  if (f_limit f =? 0)%Z then [] else
  match f_since f with
  | None => take (f_limit f) (if f_rev f then rev its else its)
  | Some (o, _) =>
      if f_rev f then
        if top + 1 <? o then []      (* a position beyond the stream: nothing *)
        else take (f_limit f) (rev (filter (fun it => i_off it <? o) its))
      else take (f_limit f) (filter (fun it => o <? i_off it) its)
  end.

Definition sp_now_s (a : aspec) : N := sp_now a / 1000.

Definition sp_touch (a : aspec) (c : achan) (m : N) : option N :=
  let m' := if m =? 0 then sp_meta a else m in
  if 0 <? m' then Some (sp_now_s a + m' / 1000) else a_meta c.

Definition sp_cache_get (a : aspec) (ch key : N) : option (N * N) :=
  match sp_cache a ch key with
  | Some (off, ep, exp) => if exp <=? sp_now a then None else Some (off, ep)
  | None => None
  end.

Definition sp_set (a : aspec) (ch : N) (c : option achan) (fresh : N) : aspec :=
  mkSpec (fun x => if x =? ch then c else sp_chan a x) (sp_cache a) (sp_now a) fresh (sp_meta a).

Definition sp_save (a : aspec) (ch : N) (o : popts) (pos : N * N) : aspec :=
  if po_key o =? 0 then a else
  mkSpec (sp_chan a)
         (fun c k => if (c =? ch) && (k =? po_key o)
                     then Some (fst pos, snd pos, sp_now a + result_secs o * 1000)
                     else sp_cache a c k)
         (sp_now a) (sp_fresh a) (sp_meta a).

Definition holds_version (c : achan) (o : popts) : bool :=
  (0 <? po_ver o) && ((po_vep o =? 0) || (po_vep o =? a_vep c)) && (po_ver o <=? a_ver c).

Definition sp_publish (a : aspec) (ch id : N) (o : popts) : aspec * out :=
  match (if po_key o =? 0 then None else sp_cache_get a ch (po_key o)) with
  | Some (off, ep) => (a, OPub off ep 1 [])
  | None =>
      if history_on o then
        let '(c, fresh) := match sp_chan a ch with
                           | Some c => (c, sp_fresh a)
                           | None => (mkAchan (sp_fresh a) 0 [] 0 None 0 0, sp_fresh a + 1)
                           end in
        if holds_version c o then (a, OPub (a_top c) (a_epoch c) 2 [])
        else
          let top := a_top c + 1 in
          let c' := mkAchan (a_epoch c) top
                            (lastn (Z.to_nat (po_size o)) (a_ret c ++ [id]))
                            (sp_now_s a + po_ttl o / 1000)
                            (sp_touch a c (po_meta o))
                            (if 0 <? po_ver o then po_ver o else a_ver c)
                            (if 0 <? po_ver o then po_vep o else a_vep c) in
          (sp_save (sp_set a ch (Some c') fresh) ch o (top, a_epoch c),
           OPub top (a_epoch c) 0 [mkDeliv ch id top top (a_epoch c)])
      else (sp_save a ch o (0, 0), OPub 0 0 0 [mkDeliv ch id 0 0 0])
  end.

Definition with_meta (c : achan) (m : option N) : achan :=
  mkAchan (a_epoch c) (a_top c) (a_ret c) (a_exp c) m (a_ver c) (a_vep c).
Definition with_ret (c : achan) (r : list N) : achan :=
  mkAchan (a_epoch c) (a_top c) r (a_exp c) (a_meta c) (a_ver c) (a_vep c).

Definition sp_history (a : aspec) (ch : N) (f : hfilter) (meta : N) : aspec * out :=
  match sp_chan a ch with
  | None =>
      let c := mkAchan (sp_fresh a) 0 [] 0 None 0 0 in
      (sp_set a ch (Some (with_meta c (sp_touch a c meta))) (sp_fresh a + 1),
       OHist [] 0 (sp_fresh a))
  | Some c =>
      (sp_set a ch (Some (with_meta c (sp_touch a c meta))) (sp_fresh a),
       OHist (spec_filter (a_top c) (aitems c) f) (a_top c) (a_epoch c))
  end.

Definition sp_due (a : aspec) (d : N) : bool := d <=? sp_now_s a.

Definition sp_step (a : aspec) (o : op) : aspec * out :=
  match o with
  | Publish ch id po => sp_publish a ch id po
  | History ch f meta => sp_history a ch f meta
  | Remove ch =>
      (match sp_chan a ch with
       | Some c => sp_set a ch (Some (with_ret c [])) (sp_fresh a)
       | None => a
       end, OUnit)
  | Advance d => (mkSpec (sp_chan a) (sp_cache a) (sp_now a + d) (sp_fresh a) (sp_meta a), OUnit)
  | SweepExpire =>
      (mkSpec (fun x => match sp_chan a x with
                        | Some c => match a_ret c with
                                    | [] => Some c
                                    | _ => if sp_due a (a_exp c) then Some (with_ret c []) else Some c
                                    end
                        | None => None
                        end) (sp_cache a) (sp_now a) (sp_fresh a) (sp_meta a), OUnit)
  | SweepRemove =>
      (mkSpec (fun x => match sp_chan a x with
                        | Some c => match a_meta c with
                                    | Some d => if sp_due a d then None else Some c
                                    | None => Some c
                                    end
                        | None => None
                        end) (sp_cache a) (sp_now a) (sp_fresh a) (sp_meta a), OUnit)
  | SweepCache => (a, OUnit)     (* dropping dead cache entries is unobservable *)
  end.

Fixpoint sp_run (a : aspec) (ops : list op) : aspec * list out :=
  match ops with
  | [] => (a, [])
  | o :: r => let '(a1, x) := sp_step a o in
              let '(a2, xs) := sp_run a1 r in (a2, x :: xs)
  end.

(* Domain of the refinement: history requests whose since offset cannot wrap
   (forward: offset+1 < 2^64; reverse: offset-1 >= 0).  At the two excluded
   points the code's uint64 arithmetic wraps (see Props/C17.v,
   C17_wrap_quirk_fwd). *)
Definition filter_ok (f : hfilter) : bool :=
  match f_since f with
  | None => true
  | Some (o, _) => if f_rev f then 1 <=? o else o <? U64 - 1
  end.

Definition op_ok (o : op) : bool :=
  match o with History _ f _ => filter_ok f | _ => true end.

(* ---- decidable equality of outputs (for the harness) ---- *)
Definition item_eqb (x y : item) : bool := (i_off x =? i_off y) && (i_id x =? i_id y).
Definition deliv_eqb (x y : deliv) : bool :=
  (d_ch x =? d_ch y) && (d_id x =? d_id y) && (d_poff x =? d_poff y) &&
  (d_off x =? d_off y) && (d_ep x =? d_ep y).

Fixpoint list_eqb {A} (e : A -> A -> bool) (a b : list A) : bool :=
  match a, b with
  | [], [] => true
  | x :: a', y :: b' => e x y && list_eqb e a' b'
  | _, _ => false
  end.

Definition out_eqb (x y : out) : bool :=
  match x, y with
  | OPub o1 e1 s1 d1, OPub o2 e2 s2 d2 =>
      (o1 =? o2) && (e1 =? e2) && (s1 =? s2) && list_eqb deliv_eqb d1 d2
  | OHist i1 t1 e1, OHist i2 t2 e2 => list_eqb item_eqb i1 i2 && (t1 =? t2) && (e1 =? e2)
  | OUnit, OUnit => true
  | OErr a, OErr b => a =? b
  | _, _ => false
  end.

(* The same specification with expiry taking effect as soon as the clock has
   passed a deadline (a sweep right after every clock move) instead of at the
   next sweep the schedule contains.  The property text does not fix when,
   within the sweep period, an elapsed deadline takes effect; both extremes
   are accepted by the oracle. *)
Fixpoint sp_run_eager (a : aspec) (ops : list op) : list out :=
  match ops with
  | [] => []
  | o :: r =>
      let '(a1, x) := sp_step a o in
      let a2 := match o with
                | Advance _ => fst (sp_step (fst (sp_step a1 SweepExpire)) SweepRemove)
                | _ => a1
                end in
      x :: sp_run_eager a2 r
  end.
