(* Model of the decimal engine used by internal/filter/filter.go for the numeric
   comparators: github.com/quagmt/udecimal v1.10.1, functions Parse (parseBint,
   parseBintFromU128, parseSmallToU128, parseLargeToU128, digitToU128 and the
   big.Int fallback), newDecimal and Decimal.Cmp.  Executable, no proofs here.

   Strings are Go strings = byte sequences, modelled as [list N] (bytes < 256).
   Lengths/indices are [nat] (strings longer than 200 bytes are rejected at once),
   coefficients are unbounded [N]; the 128-bit limit of the fast path is explicit. *)
From Coq Require Import List NArith ZArith Bool.
Import ListNotations.
Open Scope N_scope.

Definition bytes := list N.

Fixpoint bytes_eqb (a b : bytes) : bool :=
  match a, b with
  | [], [] => true
  | x :: a', y :: b' => (x =? y) && bytes_eqb a' b'
  | _, _ => false
  end.

Definition is_digit (c : N) : bool := (48 <=? c) && (c <=? 57).
Definition all_digits (s : bytes) : bool := forallb is_digit s.

(* numeric value of a digit string, most significant digit first *)
Fixpoint digits_acc (s : bytes) (a : N) : N :=
  match s with
  | [] => a
  | c :: s' => digits_acc s' (a * 10 + (c - 48))
  end.
Definition digits_val (s : bytes) : N := digits_acc s 0.

Definition pow10 (p : nat) : N := 10 ^ N.of_nat p.
Definition U128 : N := 2 ^ 128.

(* bytes.IndexByte(s, '.') together with the two slices the callers take around
   that index: [split_dot s = (s[:p], Some s[p+1:])] when the first '.' is at index
   p, and [(s, None)] when there is none. *)
Fixpoint split_dot (s : bytes) : bytes * option bytes :=
  match s with
  | [] => ([], None)
  | c :: s' => if c =? 46 then ([], Some s')
               else let '(a, b) := split_dot s' in (c :: a, b)
  end.

Definition is_nil {A} (l : list A) : bool := match l with [] => true | _ => false end.

(* outcome of the 128-bit fast path *)
Inductive ures := UOk (coef : N) (prec : nat) | UErr | UOverflow.

(* parseSmallToU128: at most 19 bytes, one left-to-right loop in a uint64
   (19 decimal digits cannot wrap a uint64). *)
Fixpoint small_loop (s : bytes) (coef : N) (prec : nat) : ures :=
  match s with
  | [] => UOk coef prec
  | c :: s' =>
      if c =? 46 then
        if negb (Nat.eqb prec 0) then UErr                 (* second '.' *)
        else let p := length s' in
             if Nat.eqb p 0 then UErr                      (* "123." *)
             else if Nat.ltb 19 p then UErr
             else small_loop s' coef p
      else if is_digit c then small_loop s' (coef * 10 + (c - 48)) prec
      else UErr
  end.

Definition parse_small (s : bytes) : ures :=
  match small_loop s 0 0 with
  | UOk 0 _ => UOk 0 0
  | r => r
  end.

(* digitToU128: every byte must be a digit; chunks of 19 digits are folded with
   overflow-checked 128-bit Mul64/Add64.  All operations are monotone, so some
   step overflows iff the exact value does not fit 128 bits.  (When the real code
   reports overflow before looking at a later invalid byte the big.Int path
   re-reads the whole string and rejects it, as this model does directly.) *)
Definition digits_u128 (s : bytes) : ures :=
  if all_digits s then
    (if digits_val s <? U128 then UOk (digits_val s) 0 else UOverflow)
  else UErr.

(* parseLargeToU128 (ParseModeError is the default and filter.go never changes it) *)
Definition parse_large (s : bytes) : ures :=
  match split_dot s with
  | (_, None) => digits_u128 s
  | (i, Some f) =>
      if is_nil i || is_nil f then UErr               (* pos == 0 || pos == l-1 *)
      else
        let prec := length f in                       (* l - pos - 1 *)
        if Nat.ltb 19 prec then UErr
        else match digits_u128 i with
             | UOk ip _ =>
                 match digits_u128 f with
                 | UOk fp _ =>
                     let c := ip * pow10 prec + fp in
                     if c <? U128 then UOk c prec else UOverflow
                 | r => r
                 end
             | r => r
             end
  end.

(* parseBintFromU128: returns (neg, outcome) *)
Definition parse_u128 (s : bytes) : bool * ures :=
  match s with
  | [] => (false, UErr)
  | c0 :: s1 =>
      if c0 =? 46 then (false, UErr)
      else
        let neg := c0 =? 45 in
        let rest := if (c0 =? 45) || (c0 =? 43) then s1 else s in     (* s[pos:] *)
        match rest with
        | [] => (neg, UErr)                                            (* "+" or "-" *)
        | c :: _ =>
            if c =? 46 then (neg, UErr)                                (* "-.5" *)
            else if Nat.leb (length rest) 19 then (neg, parse_small rest)
            else (neg, parse_large rest)
        end
  end.

(* big.Int SetString(s, 10): optional single sign, then one or more ASCII
   digits, nothing else (no underscores, no prefixes for an explicit base). *)
Definition set_string (s : bytes) : option Z :=
  let '(neg, ds) :=
    match s with
    | [] => (false, s)
    | c :: r => if c =? 43 then (false, r) else if c =? 45 then (true, r) else (false, s)
    end in
  if is_nil ds then None
  else if all_digits ds
       then Some (if neg then (- Z.of_N (digits_val ds))%Z else Z.of_N (digits_val ds))
       else None.

(* the part of the big.Int fallback that works on [value]: locate the '.', splice it
   out, SetString *)
Definition big_core (value : bytes) : option (Z * nat) :=
  let r :=
    match split_dot value with
    | (_, None) => Some (value, 0%nat)
    | (i, Some f) =>
        if is_nil i || is_nil f then None             (* pIndex == 0 || pIndex >= vLen-1 *)
        else if Nat.ltb 19 (length f) then None       (* ErrPrecOutOfRange *)
        else Some (i ++ f, length f)
    end in
  match r with
  | None => None
  | Some (istr, prec) =>
      match set_string istr with
      | None => None
      | Some z => Some (z, prec)
      end
  end.

(* the big.Int fallback of parseBint; note that only a leading '-' is removed from
   [value], a leading '+' is left to SetString. *)
Definition parse_big (s : bytes) : option (bool * N * nat) :=
  match s with
  | [] => None
  | c0 :: s1 =>
      if c0 =? 46 then None
      else
        let neg := c0 =? 45 in
        let value := if c0 =? 45 then s1 else s in
        let rest := if (c0 =? 45) || (c0 =? 43) then s1 else s in     (* s[pos:] *)
        match rest with
        | [] => None
        | c :: _ =>
            if c =? 46 then None
            else match big_core value with
                 | None => None
                 | Some (z, prec) =>
                     if (z <? 0)%Z then None else Some (neg, Z.to_N z, prec)
                 end
        end
  end.

Record dec := mkDec { d_neg : bool; d_coef : N; d_prec : nat }.
Definition dec_zero := mkDec false 0 0.

(* newDecimal: zero is made canonical *)
Definition new_decimal (neg : bool) (coef : N) (prec : nat) : dec :=
  if coef =? 0 then dec_zero else mkDec neg coef prec.

(* udecimal.Parse *)
Definition dec_parse (s : bytes) : option dec :=
  let big := match parse_big s with
             | Some (neg, c, p) => Some (new_decimal neg c p)
             | None => None
             end in
  match s with
  | [] => None
  | _ =>
      if Nat.ltb 200 (length s) then None
      else if Nat.leb (length s) 41 then
        match parse_u128 s with
        | (neg, UOk c p) => Some (new_decimal neg c p)
        | (_, UErr) => None
        | (_, UOverflow) => big
        end
      else big
  end.

(* cmpDecSameSign: both the u128/u256 path and the big.Int path compare the
   coefficients exactly after scaling the one with fewer fraction digits. *)
Definition cmp_same_sign (d e : dec) : comparison :=
  if Nat.eqb (d_prec d) (d_prec e) then d_coef d ?= d_coef e
  else if Nat.ltb (d_prec d) (d_prec e)
       then d_coef d * pow10 (d_prec e - d_prec d) ?= d_coef e
       else d_coef d ?= d_coef e * pow10 (d_prec d - d_prec e).

(* Decimal.Cmp *)
Definition dec_cmp (d e : dec) : comparison :=
  if d_neg d && negb (d_neg e) then Lt
  else if negb (d_neg d) && d_neg e then Gt
  else if d_neg d then CompOpp (cmp_same_sign d e)
  else cmp_same_sign d e.
