(* C37 — model of the per-connection limit decisions (client.go validateSubscribeRequest,
   handleSubscribe routing, client_shared_poll.go handleSharedPollSubscribe, Client.Subscribe,
   writer.go enqueue): channel limit counted over subscribed channels and reservations of
   subscribes in flight, channel name length, and queued bytes against the queue limit.
   The ring queue / writer itself is C12's; here the writer is stuck in a transport write, so
   every enqueued byte stays queued.

   [sub_cmd] / [complete] are the code AFTER /verif/fixes/C37-shared-poll-channel-length.patch
   (the length check runs in handleSubscribe before routing) and
   /verif/fixes/C37-map-subscribe-limit.patch (a map subscribe re-checks the channel limit where
   its reservation is installed, i.e. after the application callback); [sub_cmd_prefix] /
   [complete_prefix] are the code before them.  No proofs here.

   Codes: errors 105 already subscribed, 106 limit exceeded, 107 bad request; disconnects
   3505 channel limit, 3008 slow. *)
From Coq Require Import List NArith Bool.
Import ListNotations.
Open Scope N_scope.

Record cfg := mkCfg { g_limit : N; g_maxlen : N; g_maxq : N }.     (* 0 = unlimited *)

Inductive script := SOk | SErr (code : N) | SAsync.
Inductive route := RStream | RSharedPoll | RMap | RMapPaged.   (* RMapPaged: map channel whose state needs a second page *)

Record st := mkSt {
  closed : bool;
  chans : list N;             (* Client.channels entries with flagSubscribed *)
  resv : list (N * N);        (* reservations (token, channel): subscribe callbacks held by the application *)
  mpend : list (N * N);       (* map subscribes whose callback is held: validateSubscribeRequest reserved nothing *)
  mpag : list N;              (* map subscriptions between two pages of their state (entry in Client.mapSubscribing) *)
  next : N;
  q : N                       (* bytes in the writer queue *)
}.

Definition init : st := mkSt false [] [] [] [] 0 0.


Inductive out := OReply (err : N) | OClose (code : N) | OHandler (name : N).

Definition memN (x : N) (l : list N) : bool := existsb (N.eqb x) l.
Definition held (s : st) : N := N.of_nat (length (chans s) + length (resv s) + length (mpag s)).
Definition taken (s : st) (n : N) : bool := memN n (chans s) || memN n (map snd (resv s)) || memN n (mpag s).

Definition close (s : st) (code : N) : st * list out :=
  if closed s then (s, []) else (mkSt true (chans s) (resv s) (mpend s) (mpag s) (next s) (q s), [OClose code]).

Definition at_limit (g : cfg) (s : st) : bool := (0 <? g_limit g) && (g_limit g <=? held s).

(* a map subscribe installs its reservation after the callback; with a single page of state it
   goes live at once, otherwise it stays in Client.mapSubscribing until the client has fetched
   the remaining pages *)
Definition map_install (recheck : bool) (g : cfg) (s : st) (n : N) (paged : bool) (rest : list (N * N)) : st * list out :=
  if recheck && at_limit g s then (mkSt false (chans s) (resv s) rest (mpag s) (next s) (q s), [OReply 106])
  else if memN n (chans s) || memN n (mpag s) then (mkSt false (chans s) (resv s) rest (mpag s) (next s) (q s), [OReply 105])
  else if paged then (mkSt false (chans s) (resv s) rest (mpag s ++ [n]) (next s) (q s), [OReply 0])
  else (mkSt false (chans s ++ [n]) (resv s) rest (mpag s) (next s) (q s), [OReply 0]).

(* client subscribe command on one of the three routes;
   [lencheck_sp] = does the shared-poll route check the name length,
   [recheck] = does a map subscribe re-check the limit when it installs its reservation *)
Definition sub_gen (lencheck_sp recheck : bool) (g : cfg) (s : st) (n len : N) (rt : route) (sc : script)
  : st * list out :=
  if closed s then (s, []) else
  let sp := match rt with RSharedPoll => true | _ => false end in
  if (0 <? g_maxlen g) && (g_maxlen g <? len) && (negb sp || lencheck_sp) then (s, [OReply 107]) else
  match rt with
  | RMap | RMapPaged =>
      let paged := match rt with RMapPaged => true | _ => false end in
      if memN n (chans s) || memN n (mpag s) then (s, [OReply 105]) else
      if at_limit g s then (s, [OReply 106]) else
      match sc with
      | SOk => let '(s1, o1) := map_install recheck g s n paged (mpend s) in (s1, OHandler n :: o1)
      | SErr code => (s, [OHandler n; OReply code])
      | SAsync => (mkSt false (chans s) (resv s) (mpend s ++ [(next s, n)]) (mpag s) (next s + 1) (q s), [OHandler n])
      end
  | _ =>
      if taken s n then (s, [OReply 105]) else
      if at_limit g s then (s, [OReply 106]) else
      match sc with
      | SOk => (mkSt false (chans s ++ [n]) (resv s) (mpend s) (mpag s) (next s) (q s), [OHandler n; OReply 0])
      | SErr code => (s, [OHandler n; OReply code])
      | SAsync => (mkSt false (chans s) (resv s ++ [(next s, n)]) (mpend s) (mpag s) (next s + 1) (q s), [OHandler n])
      end
  end.
Definition sub_cmd := sub_gen true true.
Definition sub_cmd_prefix := sub_gen false false.

Fixpoint take (tok : N) (l : list (N * N)) : option (N * list (N * N)) :=
  match l with
  | [] => None
  | (t, n) :: r =>
      if t =? tok then Some (n, r)
      else match take tok r with Some (m, r') => Some (m, (t, n) :: r') | None => None end
  end.

Definition complete_gen (recheck : bool) (g : cfg) (s : st) (tok : N) (ok : bool) : st * list out :=
  match take tok (resv s) with
  | Some (n, rest) =>
      if closed s then (mkSt true (chans s) rest (mpend s) (mpag s) (next s) (q s), [])
      else if ok then (mkSt false (chans s ++ [n]) rest (mpend s) (mpag s) (next s) (q s), [OReply 0])
      else (mkSt false (chans s) rest (mpend s) (mpag s) (next s) (q s), [OReply 103])
  | None =>
      match take tok (mpend s) with
      | None => (s, [])
      | Some (n, rest) =>
          if closed s then (mkSt true (chans s) (resv s) rest (mpag s) (next s) (q s), [])
          else if ok then map_install recheck g s n false rest
          else (mkSt false (chans s) (resv s) rest (mpag s) (next s) (q s), [OReply 103])
      end
  end.
Definition complete := complete_gen true.
Definition complete_prefix := complete_gen false.

(* the client fetches the last page of a paginated map subscription: it goes live
   (validateSubscribeRequest lets a continuation through without a limit check: the slot is
   already counted) *)
Definition map_next (s : st) (n : N) : option (st * list out) :=
  if closed s then Some (s, []) else
  if memN n (mpag s)
  then Some (mkSt false (chans s ++ [n]) (resv s) (mpend s) (filter (fun x => negb (x =? n)) (mpag s)) (next s) (q s), [OReply 0])
  else None.

(* server-side Client.Subscribe *)
Definition srv_sub (g : cfg) (s : st) (n : N) : st * list out :=
  if closed s then (s, []) else
  if at_limit g s then close s 3505 else
  if taken s n then (s, []) else
  (mkSt false (chans s ++ [n]) (resv s) (mpend s) (mpag s) (next s) (q s), []).

Definition unsub_cmd (s : st) (n : N) : option (st * list out) :=
  if closed s then Some (s, []) else
  if memN n (map snd (resv s)) || memN n (mpag s) then None        (* waits for the subscribe in flight *)
  else Some (mkSt false (filter (fun x => negb (x =? n)) (chans s)) (resv s) (mpend s) (mpag s) (next s) (q s), [OReply 0]).

(* a message of [size] encoded bytes is enqueued while the writer is stuck *)
Definition enqueue (g : cfg) (s : st) (size : N) : st * list out :=
  if closed s then (s, []) else
  let s1 := mkSt false (chans s) (resv s) (mpend s) (mpag s) (next s) (q s + size) in
  if (0 <? g_maxq g) && (g_maxq g <? q s1) then close s1 3008 else (s1, []).

(* connectCmd: OnConnecting may return server-side subscriptions; more of them than the limit
   disconnects with 3505 before any is created (note the strict comparison) *)
Definition start (g : cfg) (names : list N) : st * list out :=
  if (0 <? g_limit g) && (g_limit g <? N.of_nat (length names))
  then (mkSt true [] [] [] [] 0 0, [OClose 3505])
  else (mkSt false names [] [] [] 0 0, []).

Inductive label :=
| LSub (n len : N) (rt : route) (sc : script)
| LComplete (tok : N) (ok : bool)
| LSrvSub (n : N)
| LUnsub (n : N)
| LMapNext (n : N)
| LUnsubRace (tok : N) (ok : bool)   (* an unsubscribe command arrives while the subscribe callback [tok] is
                                      held: it waits on the subscribing gate, the application answers, it proceeds *)
| LEnqueue (size : N).

Section Step.
  Variable sub : cfg -> st -> N -> N -> route -> script -> st * list out.
  Variable compl : cfg -> st -> N -> bool -> st * list out.
  Definition step_gen (g : cfg) (s : st) (l : label) : option (st * list out) :=
    match l with
    | LSub n len rt sc => Some (sub g s n len rt sc)
    | LComplete tok ok => Some (compl g s tok ok)
    | LSrvSub n => Some (srv_sub g s n)
    | LUnsub n => unsub_cmd s n
    | LMapNext n => map_next s n
    | LUnsubRace tok ok =>
        match take tok (resv s) with
        | None => None
        | Some (n, _) =>
            let '(s1, o1) := compl g s tok ok in
            match unsub_cmd s1 n with
            | Some (s2, o2) => Some (s2, o1 ++ o2)
            | None => None
            end
        end
    | LEnqueue size => Some (enqueue g s size)
    end.
  Fixpoint trace_gen (g : cfg) (s : st) (ls : list label) : option (list (list out * st)) :=
    match ls with
    | [] => Some []
    | l :: r =>
        match step_gen g s l with
        | None => None
        | Some (s1, o1) =>
            match trace_gen g s1 r with
            | None => None
            | Some t => Some ((o1, s1) :: t)
            end
        end
    end.
End Step.
Definition step := step_gen sub_cmd complete.
Definition trace := trace_gen sub_cmd complete.
Definition step_prefix := step_gen sub_cmd_prefix complete_prefix.
Definition trace_prefix := trace_gen sub_cmd_prefix complete_prefix.
