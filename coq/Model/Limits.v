(* C37 — model of the per-connection limit decisions (client.go validateSubscribeRequest,
   handleSubscribe routing, client_shared_poll.go handleSharedPollSubscribe, Client.Subscribe,
   writer.go enqueue): channel limit counted over subscribed channels and reservations of
   subscribes in flight, channel name length, and queued bytes against the queue limit.
   The ring queue / writer itself is C12's; here the writer is stuck in a transport write, so
   every enqueued byte stays queued.

   [sub_cmd] is the code AFTER /verif/fixes/C37-shared-poll-channel-length.patch (the length
   check runs in handleSubscribe before routing); [sub_cmd_prefix] the code before it, where the
   shared-poll route skipped it.  No proofs here.

   Codes: errors 105 already subscribed, 106 limit exceeded, 107 bad request; disconnects
   3505 channel limit, 3008 slow. *)
From Coq Require Import List NArith Bool.
Import ListNotations.
Open Scope N_scope.

Record cfg := mkCfg { g_limit : N; g_maxlen : N; g_maxq : N }.     (* 0 = unlimited *)

Inductive script := SOk | SErr (code : N) | SAsync.

Record st := mkSt {
  closed : bool;
  chans : list N;             (* Client.channels entries with flagSubscribed *)
  resv : list (N * N);        (* reservations (token, channel): subscribe callbacks held by the application *)
  next : N;
  q : N                       (* bytes in the writer queue *)
}.

Definition init : st := mkSt false [] [] 0 0.

Inductive out := OReply (err : N) | OClose (code : N) | OHandler (name : N).

Definition memN (x : N) (l : list N) : bool := existsb (N.eqb x) l.
Definition held (s : st) : N := N.of_nat (length (chans s) + length (resv s)).
Definition taken (s : st) (n : N) : bool := memN n (chans s) || memN n (map snd (resv s)).

Definition close (s : st) (code : N) : st * list out :=
  if closed s then (s, []) else (mkSt true (chans s) (resv s) (next s) (q s), [OClose code]).

(* client subscribe command; [sp] = the channel is a shared-poll channel (type 4 request);
   [lencheck_sp] = does the shared-poll route check the name length *)
Definition sub_gen (lencheck_sp : bool) (g : cfg) (s : st) (n len : N) (sp : bool) (sc : script)
  : st * list out :=
  if closed s then (s, []) else
  if (0 <? g_maxlen g) && (g_maxlen g <? len) && (negb sp || lencheck_sp) then (s, [OReply 107]) else
  if taken s n then (s, [OReply 105]) else
  if (0 <? g_limit g) && (g_limit g <=? held s) then (s, [OReply 106]) else
  match sc with
  | SOk => (mkSt false (chans s ++ [n]) (resv s) (next s) (q s), [OHandler n; OReply 0])
  | SErr code => (s, [OHandler n; OReply code])
  | SAsync => (mkSt false (chans s) (resv s ++ [(next s, n)]) (next s + 1) (q s), [OHandler n])
  end.
Definition sub_cmd := sub_gen true.
Definition sub_cmd_prefix := sub_gen false.

Fixpoint take (tok : N) (l : list (N * N)) : option (N * list (N * N)) :=
  match l with
  | [] => None
  | (t, n) :: r =>
      if t =? tok then Some (n, r)
      else match take tok r with Some (m, r') => Some (m, (t, n) :: r') | None => None end
  end.

Definition complete (s : st) (tok : N) (ok : bool) : st * list out :=
  match take tok (resv s) with
  | None => (s, [])
  | Some (n, rest) =>
      if closed s then (mkSt true (chans s) rest (next s) (q s), [])
      else if ok then (mkSt false (chans s ++ [n]) rest (next s) (q s), [OReply 0])
      else (mkSt false (chans s) rest (next s) (q s), [OReply 103])
  end.

(* server-side Client.Subscribe *)
Definition srv_sub (g : cfg) (s : st) (n : N) : st * list out :=
  if closed s then (s, []) else
  if (0 <? g_limit g) && (g_limit g <=? held s) then close s 3505 else
  if taken s n then (s, []) else
  (mkSt false (chans s ++ [n]) (resv s) (next s) (q s), []).

Definition unsub_cmd (s : st) (n : N) : option (st * list out) :=
  if closed s then Some (s, []) else
  if memN n (map snd (resv s)) then None        (* waits for the subscribe in flight *)
  else Some (mkSt false (filter (fun x => negb (x =? n)) (chans s)) (resv s) (next s) (q s), [OReply 0]).

(* a message of [size] encoded bytes is enqueued while the writer is stuck *)
Definition enqueue (g : cfg) (s : st) (size : N) : st * list out :=
  if closed s then (s, []) else
  let s1 := mkSt false (chans s) (resv s) (next s) (q s + size) in
  if (0 <? g_maxq g) && (g_maxq g <? q s1) then close s1 3008 else (s1, []).

Inductive label :=
| LSub (n len : N) (sp : bool) (sc : script)
| LComplete (tok : N) (ok : bool)
| LSrvSub (n : N)
| LUnsub (n : N)
| LEnqueue (size : N).

Section Step.
  Variable sub : cfg -> st -> N -> N -> bool -> script -> st * list out.
  Definition step_gen (g : cfg) (s : st) (l : label) : option (st * list out) :=
    match l with
    | LSub n len sp sc => Some (sub g s n len sp sc)
    | LComplete tok ok => Some (complete s tok ok)
    | LSrvSub n => Some (srv_sub g s n)
    | LUnsub n => unsub_cmd s n
    | LEnqueue size => Some (enqueue g s size)
    end.
  Fixpoint trace_gen (g : cfg) (s : st) (ls : list label) : option (list (list out * st)) :=
    match ls with
    | [] => Some []
    | l :: r =>
        match step_gen g s l with
        | None => None
        | Some (s1, o1) =>
            match trace_gen g s1 r with
            | None => None
            | Some t => Some ((o1, s1) :: t)
            end
        end
    end.
End Step.
Definition step := step_gen sub_cmd.
Definition trace := trace_gen sub_cmd.
Definition step_prefix := step_gen sub_cmd_prefix.
