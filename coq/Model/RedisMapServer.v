(* The modelled Redis server for the C23 fake server: EVAL/EVALSHA of the map broker
   scripts are answered by interpreting the ASTs generated from the real .lua files
   (Gen/LuaMapScripts.v, Model/Lua.v), plain commands by Model/Redis.v. *)
From Coq Require Import List NArith ZArith Bool String Ascii.
From Cfg Require Import Model.RStr Model.LuaAst Model.Redis Model.Lua Model.RedisServer Model.RedisMapBroker
                        Gen.LuaMapScripts.
Import ListNotations.
Open Scope string_scope.

Definition map_interp : mscripts :=
  mkMS (eval_script map_broker_add) (eval_script map_broker_read_unordered) (eval_script map_broker_stream_read).

Definition map_cinterp : cscripts :=
  mkCS (eval_script map_broker_find_expired) (eval_script map_broker_batch_remove)
       (eval_script map_broker_read_ordered) (eval_script map_broker_stats).

Definition map_script_by_name (n : string) : option block :=
  if String.eqb n "map_broker_add" then Some map_broker_add
  else if String.eqb n "map_broker_read_unordered" then Some map_broker_read_unordered
  else if String.eqb n "map_broker_stream_read" then Some map_broker_stream_read
  else if String.eqb n "map_broker_read_meta" then Some map_broker_read_meta
  else if String.eqb n "map_broker_find_expired" then Some map_broker_find_expired
  else if String.eqb n "map_broker_batch_remove" then Some map_broker_batch_remove
  else if String.eqb n "map_broker_read_ordered" then Some map_broker_read_ordered
  else if String.eqb n "map_broker_stats" then Some map_broker_stats
  else None.

Definition map_srv_exec (st : rstate) (cmd : list string) : rstate * reply :=
  match cmd with
  | c :: nk :: rest =>
      if is_prefix "EVAL:" c then
        match map_script_by_name (sdrop 5 c), parse_dec nk with
        | Some b, Some n => eval_script b (firstn (N.to_nat n) rest) (skipn (N.to_nat n) rest) st
        | None, _ => (st, RErr "NOSCRIPT No matching script. Please use EVAL.")
        | _, None => (st, RErr "ERR value is not an integer or out of range")
        end
      else redis_call st cmd
  | _ => redis_call st cmd
  end.

Definition map_srv_step (st : rstate) (cmd : list (list N)) : rstate * list N :=
  let '(st', r) := map_srv_exec (clear_outbox st) (map of_bytes cmd) in
  (clear_outbox st',
   (frame (resp_of_reply r) ++ N.of_nat (List.length (outbox st'))
    :: flat_map (fun cm => frame (fst cm) ++ frame (snd cm)) (outbox st'))%list).
