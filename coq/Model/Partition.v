(* Model of internal/redispartition/partitions.go (SlotToNode, TagSlot,
   FindTags over a tag table) and the specification of C35's notions.
   Executable, no proofs here. *)
From Coq Require Import List NArith Bool String Ascii.
From Cfg Require Import Model.Crc16.
Import ListNotations.
Open Scope N_scope.

Definition total_slots : N := 16384.

(* bytes of a string literal (used by the generated Gen/Precomputed.v) *)
Definition s2b (s : string) : list N := map N_of_ascii (list_ascii_of_string s).

(* SlotToNode(slot, numNodes); None = integer divide by zero panic *)
Definition slot_to_node (slot n : N) : option N :=
  if n =? 0 then None
  else
    let sn := total_slots / n in
    let r := total_slots mod n in
    let b := r * (sn + 1) in
    if slot <? b then Some (slot / (sn + 1))
    else if sn =? 0 then None
    else Some (r + (slot - b) / sn).

(* TagSlot(tag) = int(crc16(tag)) % totalSlots *)
Definition tag_slot (tag : list N) : N := crc16_loop tag mod total_slots.

(* FindTags over a table (the Go map literal, in source order) *)
Fixpoint find_tags (tbl : list (N * list (list N))) (p : N) : option (list (list N)) :=
  match tbl with
  | [] => None
  | (q, tags) :: tbl' => if q =? p then Some tags else find_tags tbl' p
  end.

(* ---------------- specification ---------------- *)

(* Redis: HASH_SLOT = CRC16(key) mod 16384 (key without hash tag braces) *)
Definition slot_spec (key : list N) : N := crc16_spec key mod total_slots.

(* Contiguous slot assignment over n nodes: node j owns
   [node_start n j, node_start n (j+1)); the first 16384 mod n nodes own one
   slot more than the others. *)
Definition node_start (n j : N) : N := j * (total_slots / n) + N.min j (total_slots mod n).
Definition owns (n j s : N) : Prop := j < n /\ node_start n j <= s /\ s < node_start n (j + 1).
Definition owns_b (n j s : N) : bool := (node_start n j <=? s) && (s <? node_start n (j + 1)).

(* number of slots of [slots] owned by node j *)
Definition node_count (n j : N) (slots : list N) : N :=
  N.of_nat (List.length (filter (owns_b n j) slots)).

(* per-node counts differ by at most one  <=>  every count is floor(p/n) or floor(p/n)+1 *)
Definition balanced (n : N) (slots : list N) : Prop :=
  let p := N.of_nat (List.length slots) in
  forall j, j < n -> p / n <= node_count n j slots /\ node_count n j slots <= p / n + 1.
