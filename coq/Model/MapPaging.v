(* C21: pagination of a map channel's state.  [paginate] iterates the model's
   getState page function ([state_page] of Model/MapHub.v) from the empty
   cursor, feeding every returned cursor back, exactly as a client does.
   The specification of "the channel's sort order" is written from the
   property text over (score, key) pairs. *)
From Coq Require Import List NArith ZArith Bool Sorting.Sorted Permutation.
From Cfg Require Import Model.MapHub.
Import ListNotations.
Open Scope N_scope.

Fixpoint paginate (fuel : nat) (ordered : bool) (st : list (key * entry)) (sorted : list key) (p : pos)
         (cursor : list N) (limit : Z) (asc : bool) : option (list (list pub)) :=
  match fuel with
  | O => None                                    (* would mean: no progress *)
  | S f =>
      match state_page ordered st sorted p cursor limit asc with
      | StOk pubs _ cur =>
          if is_empty cur then Some [pubs]
          else match paginate f ordered st sorted p cur limit asc with
               | Some rest => Some (pubs :: rest)
               | None => None
               end
      | _ => None
      end
  end.

(* all pages of a state, as a client obtains them *)
Definition pages_of (ordered : bool) (st : list (key * entry)) (p : pos) (limit : Z) (asc : bool)
  : option (list (list pub)) :=
  paginate (S (length st)) ordered st (sorted_keys ordered asc st) p [] limit asc.

(* ---- specification: the channel's sort order ---- *)
(* unordered channels: keys ascending bytewise; ordered channels: by score
   (ascending or descending as requested), ties by key in the same direction *)
Definition key_lt (a b : key) : Prop := key_ltb a b = true.
Definition before (ordered asc : bool) (st : list (key * entry)) (a b : key) : Prop :=
  if ordered then
    let sa := score_of st a in let sb := score_of st b in
    if asc then (sa < sb)%Z \/ (sa = sb /\ key_lt a b)
    else (sb < sa)%Z \/ (sa = sb /\ key_lt b a)
  else key_lt a b.

Definition is_sorted_state (ordered asc : bool) (st : list (key * entry)) (l : list key) : Prop :=
  Permutation l (map fst st) /\ StronglySorted (before ordered asc st) l.

Definition int64 (z : Z) : Prop := (-9223372036854775808 <= z <= 9223372036854775807)%Z.

(* well-formed channel state: distinct non-empty keys (mapHub.add only stores
   a state entry under [if key != ""]), int64 scores *)
Definition state_ok (st : list (key * entry)) : Prop :=
  NoDup (map fst st) /\ (forall k, In k (map fst st) -> k <> []) /\
  (forall k e, In (k, e) st -> int64 (p_score (e_pub e))).

(* ---- decidable versions used as oracle on observed pages ---- *)
Definition before_b (ordered asc : bool) (a b : Z * key) : bool :=
  if ordered then
    if asc then (fst a <? fst b)%Z || ((fst a =? fst b)%Z && key_ltb (snd a) (snd b))
    else (fst b <? fst a)%Z || ((fst a =? fst b)%Z && key_ltb (snd b) (snd a))
  else key_ltb (snd a) (snd b).

Fixpoint chain_b {A} (r : A -> A -> bool) (l : list A) : bool :=
  match l with
  | a :: (b :: _) as t => r a b && chain_b r t
  | _ => true
  end.
