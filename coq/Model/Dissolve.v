(* Executable model of /repo/internal/dissolve (deferred-work queue of the node):
   queue.go  : the Job ring queue (a second ring buffer; its resize has NO empty-queue
               branch, so its safety needs a stronger invariant than internal/queue);
   dissolve.go : Submit / Close / runWorker as a labelled transition system.
   A Job (a Go closure) is abstracted to an [item] whose [it_id] names it; whether a run
   succeeds is chosen by the schedule (label LFinish), i.e. all failure patterns are covered.
   Go run-time panics are explicit [None] / [DPanic] outcomes.  No proofs in this file. *)
From Coq Require Import List NArith ZArith Bool Arith.
From Cfg Require Import Model.RingQueue.
Import ListNotations.

Notation job := item (only parsing).
Definition mkJob (id : N) : job := mkItem id 0.

(* ---------------------------------------------------------------- queue.go *)
Record dq := mkDq {
  dnodes : list job; dhead : nat; dtail : nat; dcnt : nat; dclosed : bool; dinit : nat
}.

Definition dnew (ic : nat) : dq := mkDq (repeat zero_item ic) 0 0 0 false ic.

(* func (q *queueImpl) resize(n int) *)
Definition dresize (q : dq) (n : nat) : option dq :=
  let blank := repeat zero_item n in
  bind (if dhead q <? dtail q then
          bind (slice (dnodes q) (dhead q) (dtail q)) (fun s =>
          option_map fst (copy_at blank 0 s))
        else
          bind (slice (dnodes q) (dhead q) (length (dnodes q))) (fun s1 =>
          bind (slice (dnodes q) 0 (dtail q)) (fun s2 =>
          bind (copy_at blank 0 s1) (fun '(b1, _) =>
          (* copy(nodes[len(q.nodes)-q.head:], q.nodes[:q.tail]) *)
          option_map fst (copy_at b1 (length (dnodes q) - dhead q) s2)))))
       (fun ns => bind (modn (dcnt q) n) (fun t =>
          Some (mkDq ns 0 t (dcnt q) (dclosed q) (dinit q)))).

(* func (q *queueImpl) Add(i Job) bool *)
Definition dadd (q : dq) (j : job) : option (dq * bool) :=
  if dclosed q then Some (q, false) else
  bind (if dcnt q =? length (dnodes q) then dresize q (dcnt q * 2) else Some q) (fun q1 =>
  bind (wr (dnodes q1) (dtail q1) j) (fun ns =>
  bind (modn (dtail q1 + 1) (length ns)) (fun t =>
  Some (mkDq ns (dhead q1) t (S (dcnt q1)) (dclosed q1) (dinit q1), true)))).

(* func (q *queueImpl) Remove() (Job, bool) *)
Definition dremove (q : dq) : option (dq * option job) :=
  if dcnt q =? 0 then Some (q, None) else
  bind (rd (dnodes q) (dhead q)) (fun j =>
  bind (modn (dhead q + 1) (length (dnodes q))) (fun h =>
  let q1 := mkDq (dnodes q) h (dtail q) (dcnt q - 1) (dclosed q) (dinit q) in
  let n := length (dnodes q1) / 2 in
  bind (if (dinit q1 <=? n) && (dcnt q1 <=? n) then dresize q1 n else Some q1) (fun q2 =>
  Some (q2, Some j)))).

(* func (q *queueImpl) Close() *)
Definition dclose (q : dq) : dq := mkDq [] (dhead q) (dtail q) 0 true (dinit q).

(* ---------------------------------------------------------------- dissolve.go *)
Inductive wpc :=
| WIdle                 (* about to call queue.Wait(): its first critical section *)
| WCondWait             (* blocked in cond.Wait *)
| WRemove               (* Wait decided to call Remove() *)
| WCheckClosed          (* got (nil,false): about to call queue.Closed() *)
| WHold (j : job)       (* Remove returned j; job() not entered yet *)
| WRunning (j : job)    (* inside job() *)
| WRequeue (j : job)    (* job failed: about to Add it again *)
| WExit.

Inductive dev :=                         (* execution log *)
| EStart (j : job) (after_close : bool)  (* job() entered; was the queue already closed? *)
| EFinish (j : job) (ok : bool).

Record dst := mkD {
  d_q : dq;
  d_w : list wpc;               (* workers, by index *)
  d_log : list dev;
  d_accepted : list job;        (* ghost: jobs whose Submit returned nil, in order *)
  d_rejected : list job;        (* ghost: jobs whose Submit returned an error *)
  d_succeeded : list job        (* ghost: jobs that returned nil *)
}.

Definition getw (ws : list wpc) (w : nat) : option wpc := nth_error ws w.

Fixpoint updw (ws : list wpc) (w : nat) (p : wpc) : list wpc :=
  match ws, w with
  | [], _ => []
  | _ :: t, 0 => p :: t
  | h :: t, S w' => h :: updw t w' p
  end.

(* Dissolver.New(numWorkers); Run() *)
Definition dinitial (ic numWorkers : nat) : dst :=
  mkD (dnew ic) (repeat WIdle numWorkers) [] [] [] [].

Inductive dres := DNext (s : dst) | DBlocked | DPanic.

Inductive dlabel :=
| LSubmit (j : job)              (* Dissolver.Submit(job) *)
| LDClose                        (* Dissolver.Close() *)
| LWStep (w : nat)               (* worker w performs its next atomic action *)
| LWWake (w : nat)               (* worker w, blocked in cond.Wait, is signalled *)
| LWFinish (w : nat) (ok : bool). (* the job run by worker w returns (ok = nil error) *)

Definition setw (s : dst) (w : nat) (p : wpc) : dst :=
  mkD (d_q s) (updw (d_w s) w p) (d_log s) (d_accepted s) (d_rejected s) (d_succeeded s).
Definition setq (s : dst) (q : dq) : dst :=
  mkD q (d_w s) (d_log s) (d_accepted s) (d_rejected s) (d_succeeded s).
Definition addlog (s : dst) (e : dev) : dst :=
  mkD (d_q s) (d_w s) (d_log s ++ [e]) (d_accepted s) (d_rejected s) (d_succeeded s).

Definition dqdo {A} (x : option A) (k : A -> dres) : dres :=
  match x with Some a => k a | None => DPanic end.

Definition job_eqb (a b : job) : bool := N.eqb (it_id a) (it_id b).
Definition job_in (j : job) (l : list job) : bool := existsb (job_eqb j) l.

Definition dstep (s : dst) (l : dlabel) : dres :=
  match l with
  | LSubmit j =>
      (* a job value is submitted once (the driver and node.go create a fresh closure per call) *)
      if job_in j (d_accepted s) || job_in j (d_rejected s) then DBlocked else
      dqdo (dadd (d_q s) j) (fun '(q, ok) =>
        if ok then DNext (mkD q (d_w s) (d_log s) (d_accepted s ++ [j]) (d_rejected s) (d_succeeded s))
        else DNext (mkD q (d_w s) (d_log s) (d_accepted s) (d_rejected s ++ [j]) (d_succeeded s)))
  | LDClose => DNext (setq s (dclose (d_q s)))
  | LWWake w =>
      match getw (d_w s) w with
      | Some WCondWait =>
          if dclosed (d_q s) || negb (dcnt (d_q s) =? 0) then DNext (setw s w WRemove) else DBlocked
      | _ => DBlocked
      end
  | LWFinish w ok =>
      match getw (d_w s) w with
      | Some (WRunning j) =>
          let s1 := addlog s (EFinish j ok) in
          if ok then DNext (setw (mkD (d_q s1) (d_w s1) (d_log s1) (d_accepted s1) (d_rejected s1)
                                      (d_succeeded s1 ++ [j])) w WIdle)
          else DNext (setw s1 w (WRequeue j))
      | _ => DBlocked
      end
  | LWStep w =>
      match getw (d_w s) w with
      | Some WIdle =>
          if dclosed (d_q s) then DNext (setw s w WCheckClosed)
          else if dcnt (d_q s) =? 0 then DNext (setw s w WCondWait)
          else DNext (setw s w WRemove)
      | Some WRemove =>
          dqdo (dremove (d_q s)) (fun '(q, r) =>
            match r with
            | Some j => DNext (setw (setq s q) w (WHold j))
            | None => DNext (setw (setq s q) w WCheckClosed)
            end)
      | Some WCheckClosed =>
          DNext (setw s w (if dclosed (d_q s) then WExit else WIdle))
      | Some (WHold j) =>
          DNext (setw (addlog s (EStart j (dclosed (d_q s)))) w (WRunning j))
      | Some (WRequeue j) =>
          dqdo (dadd (d_q s) j) (fun '(q, _) => DNext (setw (setq s q) w WIdle))
      | _ => DBlocked
      end
  end.

Fixpoint drun (s : dst) (sched : list dlabel) : dres :=
  match sched with
  | [] => DNext s
  | l :: sched' =>
      match dstep s l with
      | DNext s1 => drun s1 sched'
      | r => r
      end
  end.

(* jobs currently in the hands of workers *)
Definition job_of (p : wpc) : list job :=
  match p with WHold j | WRunning j | WRequeue j => [j] | _ => [] end.

Definition held (s : dst) : list job := flat_map job_of (d_w s).

(* jobs removed from the queue whose run has not started yet *)
Definition hold_of (p : wpc) : list job := match p with WHold j => [j] | _ => [] end.
Definition holding_jobs (s : dst) : list job := flat_map hold_of (d_w s).

(* runs that started after the queue was closed *)
Fixpoint late_starts (l : list dev) : list job :=
  match l with
  | [] => []
  | EStart j true :: l' => j :: late_starts l'
  | _ :: l' => late_starts l'
  end.

(* "no run of a job starts after that job succeeded": walk the log with the jobs done so far *)
Fixpoint ok_log (done : list job) (l : list dev) : bool :=
  match l with
  | [] => true
  | EStart j _ :: l' => negb (job_in j done) && ok_log done l'
  | EFinish j true :: l' => ok_log (done ++ [j]) l'
  | EFinish j false :: l' => ok_log done l'
  end.

(* jobs that returned nil, in order *)
Fixpoint done_of (l : list dev) : list job :=
  match l with
  | [] => []
  | EFinish j true :: l' => j :: done_of l'
  | _ :: l' => done_of l'
  end.

Definition count_starts (l : list dev) : nat :=
  length (filter (fun e => match e with EStart _ _ => true | _ => false end) l).
Definition count_failures (l : list dev) : nat :=
  length (filter (fun e => match e with EFinish _ false => true | _ => false end) l).
