(* Executable model of /repo/internal/queue/queue.go (ring buffer queue of Item).
   The backing array is a [list item] whose length is the Go slice length.
   Every Go operation that can panic at run time (index out of range, slice
   bounds out of range, integer modulo by zero) or loop forever (the capacity
   doubling loop of AddMany / the halving loop of the shrink search, which do
   not terminate when initCap = 0) is an explicit [None] outcome, so that
   "no panic is reachable" is a statement about the model.
   Items are abstracted to (id, len(Data)); nothing else of an Item is looked
   at by the queue.  No proofs in this file. *)
From Coq Require Import List NArith ZArith Bool Arith.
Import ListNotations.

Record item := mkItem { it_id : N; it_len : N }.
Definition zero_item := mkItem 0 0.

Definition item_eqb (a b : item) : bool :=
  N.eqb (it_id a) (it_id b) && N.eqb (it_len a) (it_len b).

Record rq := mkRq {
  nodes : list item;      (* q.nodes, length = len(q.nodes) *)
  head : nat; tail : nat; cnt : nat;
  qsize : Z;              (* q.size, a Go int: may in principle go negative *)
  qclosed : bool;
  initCap : nat;
  shrinkArmed : bool      (* q.shrinkTimer exists and is armed *)
}.

Definition bind {A B} (x : option A) (f : A -> option B) : option B :=
  match x with Some a => f a | None => None end.

(* ---- Go slice primitives; None = run-time panic ---- *)
Definition rd (l : list item) (i : nat) : option item := nth_error l i.
Definition wr (l : list item) (i : nat) (x : item) : option (list item) :=
  if i <? length l then Some (firstn i l ++ x :: skipn (S i) l) else None.
Definition modn (a b : nat) : option nat := if b =? 0 then None else Some (a mod b).
(* l[a:b] *)
Definition slice (l : list item) (a b : nat) : option (list item) :=
  if (a <=? b) && (b <=? length l) then Some (firstn (b - a) (skipn a l)) else None.
(* copy(dst[off:], src): result array and number of copied elements *)
Definition copy_at (dst : list item) (off : nat) (src : list item) : option (list item * nat) :=
  if off <=? length dst then
    let n := Nat.min (length dst - off) (length src) in
    Some (firstn off dst ++ firstn n src ++ skipn (off + n) dst, n)
  else None.

Definition new (ic : nat) : rq := mkRq (repeat zero_item ic) 0 0 0 0%Z false ic false.

Definition set_ring (q : rq) (ns : list item) (h t : nat) : rq :=
  mkRq ns h t (cnt q) (qsize q) (qclosed q) (initCap q) (shrinkArmed q).

(* func (q *Queue) resize(n int) *)
Definition resize (q : rq) (n : nat) : option rq :=
  let blank := repeat zero_item n in
  if cnt q =? 0 then Some (set_ring q blank 0 0)
  else
    bind (if head q <? tail q then
            bind (slice (nodes q) (head q) (tail q)) (fun s =>
            option_map fst (copy_at blank 0 s))
          else
            bind (slice (nodes q) (head q) (length (nodes q))) (fun s1 =>
            bind (slice (nodes q) 0 (tail q)) (fun s2 =>
            bind (copy_at blank 0 s1) (fun '(b1, copied) =>
            option_map fst (copy_at b1 copied s2)))))
         (fun ns => bind (modn (cnt q) n) (fun t => Some (set_ring q ns 0 t))).

(* body of the add loop: nodes[tail] = i; tail = (tail+1) % len; size += len(Data); cnt++ *)
Definition put (q : rq) (i : item) : option rq :=
  bind (wr (nodes q) (tail q) i) (fun ns =>
  bind (modn (tail q + 1) (length ns)) (fun t =>
  Some (mkRq ns (head q) t (S (cnt q)) (qsize q + Z.of_N (it_len i)) (qclosed q) (initCap q) (shrinkArmed q)))).

Definition add (q : rq) (i : item) : option (rq * bool) :=
  if qclosed q then Some (q, false) else
  bind (if cnt q =? length (nodes q) then resize q (cnt q * 2) else Some q) (fun q1 =>
  bind (put q1 i) (fun q2 => Some (q2, true))).

(* for newCap < spaceNeeded { newCap *= 2 } ; out of fuel = the loop does not terminate (newCap = 0) *)
Fixpoint grow (fuel newCap need : nat) : option nat :=
  if need <=? newCap then Some newCap
  else match fuel with 0 => None | S f => grow f (newCap * 2) need end.

Fixpoint put_all (q : rq) (is : list item) : option rq :=
  match is with
  | [] => Some q
  | i :: is' => bind (put q i) (fun q1 => put_all q1 is')
  end.

Definition add_many (q : rq) (is : list item) : option (rq * bool) :=
  if qclosed q then Some (q, false) else
  let need := cnt q + length is in
  bind (if length (nodes q) <? need then
          let c0 := if length (nodes q) =? 0 then initCap q else length (nodes q) in
          bind (grow need c0 need) (fun c => resize q c)
        else Some q) (fun q1 =>
  bind (put_all q1 is) (fun q2 => Some (q2, true))).

(* one iteration of the removal loops; [clear] = the slot is overwritten by Item{} *)
Definition take1 (clear : bool) (q : rq) : option (rq * item) :=
  bind (rd (nodes q) (head q)) (fun i =>
  bind (if clear then wr (nodes q) (head q) zero_item else Some (nodes q)) (fun ns =>
  bind (modn (head q + 1) (length ns)) (fun h =>
  Some (mkRq ns h (tail q) (cnt q - 1) (qsize q - Z.of_N (it_len i)) (qclosed q) (initCap q) (shrinkArmed q), i)))).

Fixpoint take_n (clear : bool) (n : nat) (q : rq) : option (rq * list item) :=
  match n with
  | 0 => Some (q, [])
  | S n' => bind (take1 clear q) (fun '(q1, i) =>
            bind (take_n clear n' q1) (fun '(q2, is) => Some (q2, i :: is)))
  end.

(* "Find n to resize to": k := len/2; for { if k >= initCap && cnt <= k { n = k } else break; k /= 2 } *)
Fixpoint shrink_target (fuel k ic c : nat) (n : option nat) : option (option nat) :=
  if (ic <=? k) && (c <=? k) then
    match fuel with 0 => None | S f => shrink_target f (k / 2) ic c (Some k) end
  else Some n.

Definition shrink_search (q : rq) : option rq :=
  bind (shrink_target (S (length (nodes q))) (length (nodes q) / 2) (initCap q) (cnt q) None) (fun n =>
  match n with Some n => resize q n | None => Some q end).

(* func (q *Queue) doShrinkLocked() *)
Definition do_shrink (q : rq) : option rq :=
  shrink_search (if cnt q =? 0 then set_ring q (nodes q) 0 0 else q).

(* count := cnt if maxItems == -1 || cnt < maxItems else maxItems ; [None] = -1 *)
Definition take_count (q : rq) (maxItems : option nat) : nat :=
  match maxItems with
  | None => cnt q
  | Some m => if cnt q <? m then cnt q else m
  end.

(* func (q *Queue) Remove() (Item, bool) *)
Definition remove (q : rq) : option (rq * option item) :=
  if cnt q =? 0 then Some (q, None) else
  bind (take1 false q) (fun '(q1, i) =>
  let n := length (nodes q1) / 2 in
  bind (if (initCap q1 <=? n) && (cnt q1 <=? n) then resize q1 n else Some q1) (fun q2 =>
  Some (q2, Some i))).

(* func (q *Queue) RemoveMany(maxItems int) ([]Item, bool) *)
Definition remove_many (q : rq) (maxItems : option nat) : option (rq * option (list item)) :=
  if cnt q =? 0 then Some (q, None) else
  bind (take_n true (take_count q maxItems) q) (fun '(q1, is) =>
  bind (shrink_search q1) (fun q2 => Some (q2, Some is))).

(* func (q *Queue) RemoveManyIntoShrink(buf []Item, maxItems int) (int, bool) ; buflen = len(buf) *)
Definition remove_many_into_shrink (q : rq) (buflen : nat) (maxItems : option nat) : option (rq * option (list item)) :=
  if cnt q =? 0 then Some (q, None) else
  bind (take_n true (Nat.min (take_count q maxItems) buflen) q) (fun '(q1, is) =>
  bind (do_shrink q1) (fun q2 => Some (q2, Some is))).

(* func (q *Queue) RemoveManyInto(buf []Item, maxItems int) (int, bool) *)
Definition remove_many_into (q : rq) (buflen : nat) (maxItems : option nat) : option (rq * option (list item)) :=
  if cnt q =? 0 then Some (q, None) else
  bind (take_n true (Nat.min (take_count q maxItems) buflen) q) (fun '(q1, is) =>
  Some (if cnt q1 =? 0 then set_ring q1 (nodes q1) 0 0 else q1, Some is)).

Definition closed_state (q : rq) : rq := mkRq [] (head q) (tail q) 0 0%Z true (initCap q) false.

(* func (q *Queue) Close() *)
Definition close (q : rq) : rq := closed_state q.

(* func (q *Queue) CloseRemaining() []Item : for q.cnt > 0 { ... } *)
Definition close_remaining (q : rq) : option (rq * list item) :=
  if qclosed q then Some (q, []) else
  bind (take_n false (cnt q) q) (fun '(q1, is) => Some (closed_state q1, is)).

(* func (q *Queue) FinishCollect(shrinkDelay) : delayed = shrinkDelay <> 0 *)
Definition finish_collect (q : rq) (delayed : bool) : option rq :=
  if qclosed q then Some q else
  if delayed then Some (mkRq (nodes q) (head q) (tail q) (cnt q) (qsize q) (qclosed q) (initCap q) true)
  else do_shrink q.

(* the AfterFunc callback of the shrink timer: lock; doShrinkLocked; unlock *)
Definition shrink_fire (q : rq) : option rq :=
  if shrinkArmed q then
    do_shrink (mkRq (nodes q) (head q) (tail q) (cnt q) (qsize q) (qclosed q) (initCap q) false)
  else Some q.

(* ---- sequential operation language (exported API of the package) ---- *)
Inductive qop :=
| OpAdd (i : item)
| OpAddMany (is : list item)
| OpRemove
| OpRemoveMany (maxItems : option nat)
| OpRemoveManyInto (buflen : nat) (maxItems : option nat)
| OpRemoveManyIntoShrink (buflen : nat) (maxItems : option nat)
| OpFinishCollect (delayed : bool)
| OpShrinkFire
| OpClose
| OpCloseRemaining.

Inductive qout :=
| OutBool (b : bool)                       (* Add / AddMany *)
| OutItem (i : option item)                (* Remove: None = (Item{}, false) *)
| OutItems (is : option (list item))       (* RemoveMany*: None = (_, false) *)
| OutRemaining (is : list item)            (* CloseRemaining *)
| OutUnit.

Definition qstep (q : rq) (o : qop) : option (rq * qout) :=
  match o with
  | OpAdd i => option_map (fun '(q', b) => (q', OutBool b)) (add q i)
  | OpAddMany is => option_map (fun '(q', b) => (q', OutBool b)) (add_many q is)
  | OpRemove => option_map (fun '(q', r) => (q', OutItem r)) (remove q)
  | OpRemoveMany m => option_map (fun '(q', r) => (q', OutItems r)) (remove_many q m)
  | OpRemoveManyInto b m => option_map (fun '(q', r) => (q', OutItems r)) (remove_many_into q b m)
  | OpRemoveManyIntoShrink b m => option_map (fun '(q', r) => (q', OutItems r)) (remove_many_into_shrink q b m)
  | OpFinishCollect d => option_map (fun q' => (q', OutUnit)) (finish_collect q d)
  | OpShrinkFire => option_map (fun q' => (q', OutUnit)) (shrink_fire q)
  | OpClose => Some (close q, OutUnit)
  | OpCloseRemaining => option_map (fun '(q', r) => (q', OutRemaining r)) (close_remaining q)
  end.

(* what the exported observers Len, Size, Closed, Cap return *)
Record qobs := mkObs { ob_len : nat; ob_size : Z; ob_closed : bool; ob_cap : nat }.
Definition observe (q : rq) : qobs := mkObs (cnt q) (qsize q) (qclosed q) (length (nodes q)).

Fixpoint qrun (q : rq) (ops : list qop) : option (rq * list (qout * qobs)) :=
  match ops with
  | [] => Some (q, [])
  | o :: ops' =>
      bind (qstep q o) (fun '(q1, r) =>
      bind (qrun q1 ops') (fun '(q2, rs) => Some (q2, (r, observe q1) :: rs)))
  end.
