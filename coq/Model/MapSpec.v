(* Reference map: the specification of C20 written from the property text.

   A channel is (epoch, key -> entry, log) where the log is the complete,
   never-trimmed history of accepted operations of a stream-backed channel.
   There is no expiry queue, no deadline index, no sorted-key cache and no
   sweep snapshot: expiry removes the keys whose deadline has passed, in
   (deadline, channel, key) order.  An operation is first *decided* by the list
   of checks [version; key mode; compare-and-swap] (the first failing check
   gives the suppress reason) and only an accepted operation is *applied*:
   one log entry (stream-backed channels), one state change, one broadcast
   carrying the log length as offset.  A suppressed operation returns the
   state it found (the documented keep-alive of RefreshTTLOnSuppress only
   moves the deadline of the existing entry).

   Reads are specified independently too (filter over the retained window of
   the log; sort + filter after the cursor position), see the "reads" section. *)
From Coq Require Import List NArith ZArith Bool.
From Cfg Require Import Model.MapHub.
Import ListNotations.
Open Scope N_scope.

(* [sc_keep] = number of log entries appended since the stream last expired
   (StreamTTL): only those can still be retained; [sc_sdead] / [sc_mdead] =
   the stream / metadata deadlines (0 = none). *)
Record schan := mkSC { sc_epoch : N; sc_map : list (key * entry); sc_log : list pub;
                       sc_keep : nat; sc_sdead : N; sc_mdead : N }.

Record sstate := mkSS {
  ss_chans : list (N * schan);
  ss_idem : list (N * list (N * (pos * N)));
  ss_now : N; ss_nep : N;
  ss_bcast : list bcast }.

Definition sstate0 : sstate := mkSS [] [] 0 1 [].

Definition s_get (s : sstate) (ch : N) : option schan := aget N.eqb (ss_chans s) ch.
Definition s_set (s : sstate) (ch : N) (c : schan) : sstate :=
  mkSS (aset N.eqb (ss_chans s) ch c) (ss_idem s) (ss_now s) (ss_nep s) (ss_bcast s).
Definition s_bcast (s : sstate) (b : bcast) : sstate :=
  mkSS (ss_chans s) (ss_idem s) (ss_now s) (ss_nep s) (ss_bcast s ++ [b]).
Definition s_pos (c : schan) : pos := (N.of_nat (length (sc_log c)), sc_epoch c).

Definition size_of (cfgs : list rawcfg) (ch : N) : N :=
  match cfg_of cfgs ch with
  | CfgOk cf => if has_stream (cf_mode cf) then cf_size cf else 0
  | CfgErr _ => 0
  end.
Definition ordered_of (cfgs : list rawcfg) (ch : N) : bool :=
  match cfg_of cfgs ch with CfgOk cf => cf_ordered cf | CfgErr _ => false end.

Definition window (size : N) (log : list pub) : list pub := skipn (length log - N.to_nat size) log.
Definition lastk (k : nat) (log : list pub) : list pub := skipn (length log - k) log.
(* what a stream read can still see: the last StreamSize of the entries appended since the last stream expiry *)
Definition retained (size : N) (c : schan) : list pub := window size (lastk (sc_keep c) (sc_log c)).

Definition sttl_of (cfgs : list rawcfg) (ch : N) : N :=
  match cfg_of cfgs ch with CfgOk cf => cf_sttl cf | CfgErr _ => 0 end.
(* every touch of a channel with MetaTTL pushes its metadata deadline to now + MetaTTL *)
Definition touch_mdead (mttl now : N) (c : schan) : schan :=
  if 0 <? mttl then mkSC (sc_epoch c) (sc_map c) (sc_log c) (sc_keep c) (sc_sdead c) (now + mttl) else c.

(* the channel comes into existence with a fresh epoch on first touch *)
Definition s_ensure (s : sstate) (ch : N) : sstate * schan :=
  match s_get s ch with
  | Some c => (s, c)
  | None => let c := mkSC (ss_nep s) [] [] 0 0 0 in
            (mkSS (aset N.eqb (ss_chans s) ch c) (ss_idem s) (ss_now s) (ss_nep s + 1) (ss_bcast s), c)
  end.

(* ------------------------------------------------------------ the checks *)
Definition chk_version (cf : chcfg) (k : key) (ver vep : N) (cur : option entry) : option reason :=
  if has_stream (cf_mode cf) && negb (is_empty k) && (0 <? ver) then
    match cur with
    | Some e => if ((vep =? 0) || (vep =? e_vep e)) && (ver <=? e_ver e) then Some RVersion else None
    | None => None
    end
  else None.

Definition chk_keymode (k : key) (m : kmode) (cur : option entry) : option reason :=
  if is_empty k then None else
  match m, cur with
  | KIfNew, Some _ => Some RKeyExists
  | KIfExists, None => Some RKeyNotFound
  | _, _ => None
  end.

Definition chk_cas (epoch : N) (k : key) (exp : option pos) (cur : option entry) : option reason :=
  if is_empty k then None else
  match exp with
  | None => None
  | Some (eo, ee) =>
      match cur with
      | None => Some RMismatch
      | Some e => if (p_off (e_pub e) =? eo) && (epoch =? ee) then None else Some RMismatch
      end
  end.

Fixpoint first_some {A} (l : list (option A)) : option A :=
  match l with
  | [] => None
  | Some a :: _ => Some a
  | None :: l' => first_some l'
  end.

(* canonical order: version, key mode, compare-and-swap *)
Definition decide_publish (cf : chcfg) (epoch : N) (k : key) (o : popts) (cur : option entry) : option reason :=
  first_some [chk_version cf k (po_ver o) (po_vep o) cur; chk_keymode k (po_mode o) cur; chk_cas epoch k (po_exp o) cur].

Definition cur_entry (r : reason) (cur : option entry) : option (N * N) :=
  match r, cur with
  | RMismatch, Some e => Some (p_off (e_pub e), p_data (e_pub e))
  | _, _ => None
  end.

Definition s_idem_get (s : sstate) (ch ik : N) : option pos :=
  if ik =? 0 then None else
  match aget N.eqb (ss_idem s) ch with
  | None => None
  | Some m => match aget N.eqb m ik with
              | Some (p, exp) => if exp <=? ss_now s then None else Some p
              | None => None
              end
  end.
Definition s_idem_save (s : sstate) (ch ik : N) (p : pos) (ttl : N) : sstate :=
  if ik =? 0 then s else
  let m := match aget N.eqb (ss_idem s) ch with Some m => m | None => [] end in
  let t := if ttl =? 0 then 5 else ttl in
  mkSS (ss_chans s) (aset N.eqb (ss_idem s) ch (aset N.eqb m ik (p, ss_now s + t))) (ss_now s) (ss_nep s) (ss_bcast s).

Definition deadline (cf : chcfg) (now : N) : N := if 0 <? cf_keyttl cf then now + cf_keyttl cf else 0.

(* ----------------------------------------------------------------- publish *)
Definition spec_publish (cfgs : list rawcfg) (s : sstate) (ch : N) (k : key) (o : popts) : sstate * ures :=
  match cfg_of cfgs ch with
  | CfgErr e => (s, UErr e)
  | CfgOk cf =>
    if is_ephemeral (cf_mode cf) && match po_exp o with Some _ => true | None => false end then (s, UErr 20) else
    if is_ephemeral (cf_mode cf) && (0 <? po_ver o) then (s, UErr 21) else
    match s_idem_get s ch (po_idem o) with
    | Some p => (s, URes p true RIdem None)
    | None =>
      let '(s1, c) := s_ensure s ch in
      let cur := aget key_eqb (sc_map c) k in
      match decide_publish cf (sc_epoch c) k o cur with
      | Some r =>
          (* suppressed: nothing changes, except the keep-alive of the existing entry's deadline *)
          let s2 :=
            match r, cur with
            | RKeyExists, Some e =>
                if po_refresh o && (0 <? cf_keyttl cf)
                then s_set s1 ch (touch_mdead (cf_mttl cf) (ss_now s)
                                    (mkSC (sc_epoch c)
                                       (aset key_eqb (sc_map c) k (mkEntry (e_pub e) (ss_now s + cf_keyttl cf) (e_ver e) (e_vep e)))
                                       (sc_log c) (sc_keep c) (sc_sdead c) (sc_mdead c)))
                else s1
            | _, _ => s1
            end in
          (s2, URes (s_pos c) true r (cur_entry r cur))
      | None =>
          let stream := has_stream (cf_mode cf) in
          let off := if stream then N.of_nat (length (sc_log c)) + 1 else if is_empty k then 0 else N.of_nat (length (sc_log c)) in
          let p := mkPub k off (po_data o) (po_tags o) false (po_score o) in
          let log' := if stream then sc_log c ++ [p] else sc_log c in
          let '(ver, vep) :=
            if po_ver o =? 0 then match cur with Some e => (e_ver e, e_vep e) | None => (0, po_vep o) end
            else (po_ver o, po_vep o) in
          let map' := if is_empty k then sc_map c
                      else aset key_eqb (sc_map c) k (mkEntry p (deadline cf (ss_now s)) ver vep) in
          let c' := if stream
                    then touch_mdead (cf_mttl cf) (ss_now s)
                           (mkSC (sc_epoch c) map' log' (S (sc_keep c)) (ss_now s + cf_sttl cf) (sc_mdead c))
                    else mkSC (sc_epoch c) map' log' (sc_keep c) (sc_sdead c) (sc_mdead c) in
          let prev := if po_delta o && negb (is_empty k)
                      then match cur with Some e => Some (e_pub e) | None => None end else None in
          let s2 := s_idem_save (s_set s1 ch c') ch (po_idem o) (s_pos c') (po_idemttl o) in
          (s_bcast s2 (mkBc ch p (s_pos c') (po_delta o) prev), URes (s_pos c') false RNone None)
      end
    end
  end.

(* ------------------------------------------------------------------ remove *)
Definition decide_remove (epoch : N) (o : ropts) (cur : option entry) : option reason :=
  first_some [match ro_exp o with
              | None => None
              | Some (eo, ee) =>
                  match cur with
                  | None => Some RMismatch
                  | Some e => if (p_off (e_pub e) =? eo) && (epoch =? ee) then None else Some RMismatch
                  end
              end;
              match cur with None => Some RKeyNotFound | Some _ => None end].

Definition spec_remove (cfgs : list rawcfg) (s : sstate) (ch : N) (k : key) (o : ropts) : sstate * ures :=
  match cfg_of cfgs ch with
  | CfgErr e => (s, UErr e)
  | CfgOk cf =>
    if is_ephemeral (cf_mode cf) && match ro_exp o with Some _ => true | None => false end then (s, UErr 20) else
    match s_idem_get s ch (ro_idem o) with
    | Some p => (s, URes p true RIdem None)
    | None =>
      match s_get s ch with
      | None => (s, URes (0, 0) true (match ro_exp o with Some _ => RMismatch | None => RKeyNotFound end) None)
      | Some c =>
        let cur := aget key_eqb (sc_map c) k in
        match decide_remove (sc_epoch c) o cur, cur with
        | Some r, _ => (s, URes (s_pos c) true r (cur_entry r cur))
        | None, None => (s, URes (s_pos c) true RKeyNotFound None)       (* unreachable: decide_remove *)
        | None, Some e =>
            let stream := has_stream (cf_mode cf) in
            let off := if stream then N.of_nat (length (sc_log c)) + 1 else 0 in
            let tags := match ro_tags o with Some t => Some t | None => p_tags (e_pub e) end in
            let p := mkPub k off 0 tags true 0%Z in
            let c' := if stream
                      then touch_mdead (cf_mttl cf) (ss_now s)
                             (mkSC (sc_epoch c) (adel key_eqb (sc_map c) k) (sc_log c ++ [p]) (S (sc_keep c)) (ss_now s + cf_sttl cf) (sc_mdead c))
                      else mkSC (sc_epoch c) (adel key_eqb (sc_map c) k) (sc_log c) (sc_keep c) (sc_sdead c) (sc_mdead c) in
            let s2 := s_idem_save (s_set s ch c') ch (ro_idem o) (s_pos c') (ro_idemttl o) in
            (s_bcast s2 (mkBc ch p (s_pos c') false None), URes (s_pos c') false RNone None)
        end
      end
    end
  end.

(* ------------------------------------------------------------------- clear *)
Definition spec_clear (s : sstate) (ch : N) : sstate :=
  mkSS (adel N.eqb (ss_chans s) ch) (adel N.eqb (ss_idem s) ch) (ss_now s) (ss_nep s) (ss_bcast s).

(* ------------------------------------------------------------------- reads *)
(* Reads are specified from the documentation of MapReadStreamOptions /
   MapReadStateOptions, independently of the broker's algorithms (no index
   lookup, no cursor search, no sorted-key cache):
   - the stream read returns, from the retained window of the log, the entries
     with an offset strictly greater than Since (oldest first) or strictly
     smaller (newest first when Reverse), at most Limit of them (negative =
     all, 0 = none);  [quirk kept from the code: a Reverse read from a
     position more than one past the top returns nothing]
   - the state read sorts the keys by the channel's order, keeps those
     strictly after the cursor position, returns at most Limit entries and the
     cursor of the last returned entry when more remain. *)
Definition spec_take {A} (limit : Z) (l : list A) : list A :=
  if (limit <? 0)%Z then l else firstn (Z.to_nat limit) l.

Definition spec_stream_read (w : list pub) (top : N) (since : option N) (limit : Z) (reverse : bool) : list pub :=
  match since with
  | None => spec_take limit (if reverse then rev w else w)
  | Some so =>
      if reverse
      then if so - 1 <=? top then spec_take limit (rev (filter (fun p => p_off p <? so) w)) else []
      else spec_take limit (filter (fun p => so <? p_off p) w)
  end.

Definition spec_read_stream (cfgs : list rawcfg) (s : sstate) (ch : N) (since : option pos) (limit : Z) (reverse : bool)
  : sstate * sres :=
  let '(s1, c0) := s_ensure s ch in
  let c := touch_mdead (mttl_of cfgs ch) (ss_now s) c0 in
  let s2 := s_set s1 ch c in
  match s_get s ch with
  | None => (s2, SOk [] (s_pos c))
  | Some _ =>
    let w := retained (size_of cfgs ch) c in
    let top := N.of_nat (length (sc_log c)) in
    match since with
    | Some (so, se) =>
        if negb (se =? 0) && negb (se =? sc_epoch c) then (s2, SUnrec)
        else (s2, SOk (spec_stream_read w top (Some so) limit reverse) (s_pos c))
    | None => (s2, SOk (spec_stream_read w top None limit reverse) (s_pos c))
    end
  end.

(* the channel's sort order on (score, key) *)
Definition spec_less (ordered asc : bool) (st : list (key * entry)) (a b : key) : bool :=
  let sa := score_of st a in let sb := score_of st b in
  if ordered then
    if asc then (sa <? sb)%Z || ((sa =? sb)%Z && key_ltb a b)
    else (sb <? sa)%Z || ((sa =? sb)%Z && key_ltb b a)
  else key_ltb a b.

(* strictly after the position a cursor denotes: the cursor of an unordered
   channel is a key, of an ordered channel "score NUL key" *)
Definition spec_after (ordered asc : bool) (st : list (key * entry)) (cursor : list N) (k : key) : bool :=
  if ordered then
    let '(cs, ckey) := parse_ordered_cursor cursor in
    let c := parse_int cs in let s := score_of st k in
    if asc then (c <? s)%Z || ((c =? s)%Z && key_ltb ckey k)
    else (s <? c)%Z || ((c =? s)%Z && key_ltb k ckey)
  else key_ltb cursor k.

Definition spec_cursor (ordered : bool) (st : list (key * entry)) (k : key) : list N :=
  if ordered then make_ordered_cursor (score_of st k) k else k.

Definition spec_state_read (ordered : bool) (st : list (key * entry)) (p : pos)
           (rev : option pos) (cursor : list N) (limit : Z) (k : key) (asc : bool) : stres :=
  let bad := match rev with
             | Some (_, re) => if negb (snd p =? re) then Some (StUnrec p) else None
             | None => None
             end in
  match bad with
  | Some r => r
  | None =>
    if negb (is_empty k) then
      StOk (match aget key_eqb st k with Some e => [e_pub e] | None => [] end) p []
    else if (limit =? 0)%Z then StOk [] p []
    else
      let sorted := sort_by (spec_less ordered asc st) (map fst st) in
      let rest := if is_empty cursor then sorted else filter (spec_after ordered asc st cursor) sorted in
      if (limit <? 0)%Z then StOk (pubs_of st rest) p []
      else
        let page := firstn (Z.to_nat limit) rest in
        StOk (pubs_of st page) p
             (if Nat.ltb (Z.to_nat limit) (length rest) then spec_cursor ordered st (last page []) else [])
  end.

Definition spec_read_state (cfgs : list rawcfg) (s : sstate) (ch : N)
           (rev : option pos) (cursor : list N) (limit : Z) (k : key) (asc : bool) : sstate * stres :=
  match cfg_of cfgs ch with
  | CfgErr e => (s, StErr e)
  | CfgOk cf =>
    let '(s1, c0) := s_ensure s ch in
    let c := touch_mdead (cf_mttl cf) (ss_now s) c0 in
    let s2 := s_set s1 ch c in
    match s_get s ch with
    | None =>
        match rev with
        | Some (_, re) => if negb (re =? 0) then (s2, StUnrec (s_pos c)) else (s2, StOk [] (s_pos c) [])
        | None => (s2, StOk [] (s_pos c) [])
        end
    | Some _ => (s2, spec_state_read (cf_ordered cf) (sc_map c) (s_pos c) rev cursor limit k asc)
    end
  end.

(* ------------------------------------------------------------------ expiry *)
Definition s_entries (s : sstate) : list (ck * N) :=
  flat_map (fun ic => map (fun ke => ((fst ic, fst ke), e_exp (snd ke))) (sc_map (snd ic))) (ss_chans s).
Definition is_expired (now : N) (it : ck * N) : bool := (0 <? snd it) && (snd it <=? now).
Definition s_expired (s : sstate) : list (ck * N) := filter (is_expired (ss_now s)) (s_entries s).

(* the key leaves the state; one removal entry and one broadcast *)
Definition expire_one (cfgs : list rawcfg) (s : sstate) (it : ck) : sstate :=
  let '(ch, k) := it in
  match s_get s ch with
  | None => s
  | Some c =>
    match aget key_eqb (sc_map c) k with
    | None => s
    | Some e =>
      let size := size_of cfgs ch in
      let off := if 0 <? size then N.of_nat (length (sc_log c)) + 1 else 0 in
      let p := mkPub k off 0 (p_tags (e_pub e)) true 0%Z in
      let c' := mkSC (sc_epoch c) (adel key_eqb (sc_map c) k) (if 0 <? size then sc_log c ++ [p] else sc_log c)
                     (if 0 <? size then S (sc_keep c) else sc_keep c) (sc_sdead c) (sc_mdead c) in
      s_bcast (s_set s ch c') (mkBc ch p (s_pos c') false None)
    end
  end.

(* expired keys leave in (deadline, channel, key) order *)
Fixpoint spec_sweep (cfgs : list rawcfg) (fuel : nat) (s : sstate) : sstate :=
  match fuel with
  | O => s
  | S f => match pop_min (s_expired s) with
           | None => s
           | Some (it, _) => spec_sweep cfgs f (expire_one cfgs s (fst it))
           end
  end.

(* StreamTTL elapsed: the stream's entries are dropped (offsets and epoch stay);
   MetaTTL elapsed: the channel is forgotten altogether (a later touch creates
   it afresh with a new epoch).  The idempotency cache is not part of the
   channel and survives, as in the broker. *)
Definition due (d now : N) : bool := (0 <? d) && (d <=? now).
Definition spec_expire_streams (s : sstate) : sstate :=
  mkSS (map (fun ic => (fst ic,
                        let c := snd ic in
                        if due (sc_sdead c) (ss_now s)
                        then mkSC (sc_epoch c) (sc_map c) (sc_log c) 0 0 (sc_mdead c) else c)) (ss_chans s))
       (ss_idem s) (ss_now s) (ss_nep s) (ss_bcast s).
Definition spec_remove_channels (s : sstate) : sstate :=
  mkSS (filter (fun ic => negb (due (sc_mdead (snd ic)) (ss_now s))) (ss_chans s))
       (ss_idem s) (ss_now s) (ss_nep s) (ss_bcast s).

(* ------------------------------------------------------------------- steps *)
Definition spec_step (cfgs : list rawcfg) (s : sstate) (o : op) : sstate * res :=
  match o with
  | OPublish ch k po => let '(s', u) := spec_publish cfgs s ch k po in (s', RUpd u)
  | ORemove ch k ro => let '(s', u) := spec_remove cfgs s ch k ro in (s', RUpd u)
  | OClear ch => (spec_clear s ch, RUnit)
  | OReadState ch rev cur lim k asc => let '(s', r) := spec_read_state cfgs s ch rev cur lim k asc in (s', RState r)
  | OReadStream ch since lim rv => let '(s', r) := spec_read_stream cfgs s ch since lim rv in (s', RStream r)
  | OAdvance n => (mkSS (ss_chans s) (ss_idem s) (ss_now s + n) (ss_nep s) (ss_bcast s), RUnit)
  | OSweep => (spec_sweep cfgs (length (s_expired s)) s, RUnit)
  | OPhase1 | OPhase2 => (s, RBlocked)       (* not operations of the reference map *)
  | OExpireStreams => (spec_expire_streams s, RUnit)
  | ORemoveChannels => (spec_remove_channels s, RUnit)
  end.

Definition obs := (res * list bcast)%type.

Fixpoint spec_obs (cfgs : list rawcfg) (s : sstate) (ops : list op) : list obs :=
  match ops with
  | [] => []
  | o :: ops' =>
      let '(s1, r) := spec_step cfgs s o in
      (r, skipn (length (ss_bcast s)) (ss_bcast s1)) :: spec_obs cfgs s1 ops'
  end.

(* per-operation observables of the model *)
Fixpoint run_obs (cfgs : list rawcfg) (h : hub) (ops : list op) : list obs :=
  match ops with
  | [] => []
  | o :: ops' =>
      let '(h1, r) := step cfgs h o in
      (r, skipn (length (h_bcast h)) (h_bcast h1)) :: run_obs cfgs h1 ops'
  end.

Definition seq_op (o : op) : bool := match o with OPhase1 | OPhase2 => false | _ => true end.
(* operations covered by the refinement proof so far (the StreamTTL / MetaTTL sweep iterations are compared
   differentially only) *)
Definition ref_op (o : op) : bool :=
  match o with OPhase1 | OPhase2 | OExpireStreams | ORemoveChannels => false | _ => true end.
