(* Model of presence_memory.go: presenceHub.add / remove / get / getStats.
   Executable, no proofs.  Channels, client ids and user ids are numbers (the
   driver canonicalises strings to first-seen indices).  ClientInfo is reduced to
   the user id, the only field getStats reads; the client id is the map key. *)
From Coq Require Import List NArith Bool.
Import ListNotations.
Open Scope N_scope.

Definition pmap (V : Type) := list (N * V).
Fixpoint plookup {V} (k : N) (m : pmap V) : option V :=
  match m with
  | [] => None
  | (k', v) :: m' => if k =? k' then Some v else plookup k m'
  end.
Fixpoint premove {V} (k : N) (m : pmap V) : pmap V :=
  match m with
  | [] => []
  | (k', v) :: m' => if k =? k' then premove k m' else (k', v) :: premove k m'
  end.
(* Go map assignment m[k] = v *)
Definition pset {V} (k : N) (v : V) (m : pmap V) : pmap V := (k, v) :: premove k m.

(* presence map[string]map[string]*ClientInfo *)
Definition phub := pmap (pmap N).

Inductive pop := PAdd (c uid user : N) | PRemove (c uid : N).

Definition padd (c uid user : N) (h : phub) : phub :=
  match plookup c h with
  | None => pset c (pset uid user []) h            (* make the inner map, then assign *)
  | Some inner => pset c (pset uid user inner) h
  end.

Definition prem (c uid : N) (h : phub) : phub :=
  match plookup c h with
  | None => h
  | Some inner =>
      match plookup uid inner with
      | None => h
      | Some _ =>
          let inner' := premove uid inner in
          match inner' with
          | [] => premove c h                      (* clean up the channel entry *)
          | _ => pset c inner' h
          end
      end
  end.

Definition papply (h : phub) (o : pop) : phub :=
  match o with PAdd c uid user => padd c uid user h | PRemove c uid => prem c uid h end.
Definition prun (ops : list pop) : phub := fold_left papply ops [].

(* get: the (copied) inner map, nil when the channel is absent *)
Definition pget (h : phub) (c : N) : pmap N := match plookup c h with Some m => m | None => [] end.

Fixpoint memN (x : N) (l : list N) : bool :=
  match l with [] => false | y :: l' => (x =? y) || memN x l' end.
(* getStats: numClients = len(presence), numUsers counted with a seen-set over the iteration *)
Fixpoint count_users (m : pmap N) (seen : list N) : N :=
  match m with
  | [] => 0
  | (_, u) :: m' => if memN u seen then count_users m' seen else 1 + count_users m' (u :: seen)
  end.
Definition pstats (h : phub) (c : N) : N * N :=
  match plookup c h with
  | None => (0, 0)
  | Some m => (N.of_nat (length m), count_users m [])
  end.
