(* Model of internal/recovery/helpers.go: MergePublications and
   uniqueNonFilteredPublications.  Executable, no proofs here.

   A publication is (offset, filtered?, id).  [id] is an opaque payload
   identity so that "which publication" is observable; filtered markers are
   the Go publications with Time == -1. *)
From Coq Require Import List NArith Bool.
Import ListNotations.
Open Scope N_scope.

Record pub := mkPub { p_off : N; p_filt : bool; p_id : N }.

(* sort.Slice by offset: modelled as the stable insertion sort (Go's sort is
   not stable; the property does not fix which of several equal-offset
   publications survives, see Harness/C39.v). *)
Fixpoint insert (p : pub) (l : list pub) : list pub :=
  match l with
  | [] => [p]
  | q :: l' => if p_off p <=? p_off q then p :: l else q :: insert p l'
  end.

Fixpoint isort (l : list pub) : list pub :=
  match l with
  | [] => []
  | p :: l' => insert p (isort l')
  end.

Definition memN (x : N) (l : list N) : bool := existsb (N.eqb x) l.

(* uniqueNonFilteredPublications: one left-to-right pass. *)
Fixpoint uniq_go (s : list pub) (keys : list N) (maxo : N) (skipped : list N)
  : list pub * N * list N :=
  match s with
  | [] => ([], maxo, skipped)
  | e :: s' =>
      let maxo' := if maxo <? p_off e then p_off e else maxo in
      if p_filt e then uniq_go s' keys maxo' (skipped ++ [p_off e])
      else if memN (p_off e) keys then uniq_go s' keys maxo' skipped
      else let '(l, m, sk) := uniq_go s' (p_off e :: keys) maxo' skipped in
           (e :: l, m, sk)
  end.

Definition uniq (s : list pub) := uniq_go s [] 0 [].

(* "for o := expected; o < pubOffset; o++ { if !contains(skipped,o) fail }".
   The Go loop walks the range; an equivalent finite formulation counts the
   distinct skipped offsets inside the open range (proved equivalent to the
   range formulation in Proofs/Merge.v: [range_covered_spec]). *)
Fixpoint nodupN (l : list N) : list N :=
  match l with
  | [] => []
  | x :: l' => if memN x l' then nodupN l' else x :: nodupN l'
  end.

Definition range_covered (lo hi : N) (skipped : list N) : bool :=
  (* all o with lo <= o < hi are in skipped *)
  if hi <=? lo then true
  else N.of_nat (length (nodupN (filter (fun o => (lo <=? o) && (o <? hi)) skipped)))
       =? hi - lo.

Fixpoint gaps_ok (prev : N) (l : list pub) (skipped : list N) : bool :=
  match l with
  | [] => true
  | p :: l' =>
      let expected := prev + 1 in
      if p_off p =? expected then gaps_ok (p_off p) l' skipped
      else
        match skipped with
        | [] => false
        | _ => if range_covered expected (p_off p) skipped
               then gaps_ok (p_off p) l' skipped else false
        end
  end.

Definition merge (rec buf : list pub) : list pub * N * bool :=
  let all := match buf with [] => rec | _ => rec ++ buf end in
  let '(l, maxo, skipped) := uniq (isort all) in
  match buf with
  | [] => (l, maxo, true)
  | _ =>
      match l with
      | p0 :: (_ :: _) as _ =>
          if gaps_ok (p_off p0) (tl l) skipped then (l, maxo, true) else ([], 0, false)
      | _ => (l, maxo, true)
      end
  end.
