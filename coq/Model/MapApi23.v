(* Operations and observables shared by the two MAP broker models of C23
   (Model/RedisMapBroker.v, Model/MemMap23.v): the part of centrifuge's MapBroker
   interface the property talks about (MapUpdateResult, ReadState, ReadStream).
   PUB/SUB deliveries are not part of C23. *)
From Coq Require Import List NArith ZArith Bool String.
Import ListNotations.
Open Scope string_scope.

(* resolved MapChannelOptions (after ResolveAndValidateMapChannelOptions), durations in ms *)
Record mcfg := mkMC {
  mc_mode : N;          (* 1 ephemeral, 2 recoverable, 3 persistent *)
  mc_keyttl : Z;
  mc_size : Z;          (* StreamSize *)
  mc_sttl : Z;          (* StreamTTL *)
  mc_mttl : Z;          (* MetaTTL *)
  mc_ordered : bool
}.
Definition has_stream (c : mcfg) : bool := ((mc_mode c =? 2) || (mc_mode c =? 3))%N.
Definition is_ephemeral (c : mcfg) : bool := (mc_mode c =? 1)%N.

Record mpopts := mkMP {
  mp_idem : string; mp_idemttl : Z;        (* IdempotencyKey, IdempotentResultTTL ms (0 = default 5 min) *)
  mp_data : string; mp_delta : bool;
  mp_ver : N; mp_vep : string;
  mp_score : Z;
  mp_mode : string;                        (* KeyMode: "", "if_new", "if_exists" *)
  mp_refresh : bool;                       (* RefreshTTLOnSuppress *)
  mp_exp : option (N * string)             (* ExpectedPosition *)
}.
Record mropts := mkMR { mr_idem : string; mr_idemttl : Z; mr_exp : option (N * string) }.

Inductive mop :=
| MPublish (ch key : string) (o : mpopts) (nonce : string) (now : N)
| MRemove (ch key : string) (o : mropts) (nonce : string) (now : N)
| MReadState (ch : string) (rev : option (N * string)) (limit : Z) (key : string) (asc : bool) (nonce_r nonce_m : string)
      (* whole state, following cursors page by page when limit > 0; nonce = the timestamp string the
         Redis script would use as epoch *)
| MReadStream (ch : string) (since : option (N * string)) (limit : Z) (reverse : bool) (nonce_r nonce_m : string)
      (* nonce_r: what the Redis broker passes as new epoch (its node id, the same on every call);
         nonce_m: what epoch.Generate() returns inside the memory broker *)
| MClear (ch : string)
| MTick (ms : N)
| MCleanup (now : N) (node : string)
| MStats (ch : string).
      (* one key-expiry sweep at time [now] (RedisMapBroker.runCleanupCycle / mapHub.expireKeysIteration);
         node: the Redis broker's node id (new_epoch_if_empty of the batch-remove script) *)

(* state entry: (Key, Offset, Data, Score); stream entry: (Offset, Key, Data, Removed) *)
Definition spub := (string * N * string * Z)%type.
Definition tpub := (N * string * string * bool)%type.

Inductive mres :=
| MErr                                             (* non-nil error other than ErrorUnrecoverablePosition *)
| MUnrec                                           (* ErrorUnrecoverablePosition *)
| MUpd (off : N) (epoch : string) (suppressed : bool) (reason : string) (cur : option (N * string))
| MState (pubs : list spub) (off : N) (epoch : string)
| MStream (pubs : list tpub) (off : N) (epoch : string)
| MUnit
| MCount (n : N).                                  (* MapStats.NumKeys *)

Definition default_idem_ms : Z := 300000.
