(* Specification of C10 written from the property text, over the decoded transport log of
   one connection / one channel only: "no publication, join or leave push reaches the
   connection before the subscription's subscribe reply / subscribe push, and none after
   the unsubscribe reply / unsubscribe push (or disconnect) that ended it". *)
From Coq Require Import List NArith Bool.
From Cfg Require Import Model.Merge Model.Positioned Model.PositionedSpec.
Import ListNotations.
Open Scope N_scope.

Definition is_push (f : frame) : bool :=
  match f with FPub _ | FJoin | FLeave => true | _ => false end.

(* Prop form *)
Definition AfterStart (l : list frame) : Prop :=
  forall a f b, l = a ++ f :: b -> is_push f = true -> exists g, In g a /\ is_start g = true.
Definition BeforeEnd (l : list frame) : Prop :=
  forall a f b g, l = a ++ f :: b -> is_end f = true -> In g b -> is_push g = false.
Definition C10Spec (l : list frame) : Prop := AfterStart l /\ BeforeEnd l.

(* decidable form (oracle) *)
Fixpoint no_push_before_start (l : list frame) : bool :=
  match l with
  | [] => true
  | f :: l' => if is_start f then true else negb (is_push f) && no_push_before_start l'
  end.
Fixpoint no_push_after_end (l : list frame) : bool :=
  match l with
  | [] => true
  | f :: l' => if is_end f then negb (existsb is_push l') else no_push_after_end l'
  end.
Definition c10_oracle (l : list frame) : bool := no_push_before_start l && no_push_after_end l.

(* the part of "after start" that concerns pushes other than offset-less publications *)
Definition is_real_push (f : frame) : bool :=
  match f with FPub p => negb (po p =? 0) | FJoin | FLeave => true | _ => false end.
Fixpoint no_real_push_before_start (l : list frame) : bool :=
  match l with
  | [] => true
  | f :: l' => if is_start f then true else negb (is_real_push f) && no_real_push_before_start l'
  end.
Definition is_pos_pub (f : frame) : bool :=
  match f with FPub p => negb (po p =? 0) | _ => false end.
Fixpoint no_pos_pub_before_start (l : list frame) : bool :=
  match l with
  | [] => true
  | f :: l' => if is_start f then true else negb (is_pos_pub f) && no_pos_pub_before_start l'
  end.
