(* Specification of the tags-filter language, written from the text of property
   C15 and the documentation of protocol.FilterNode -- NOT from the algorithm of
   filter.go:

   - a missing key equals no value and is in no set;
   - numeric comparisons are exact decimal comparisons for numerals the decimal
     engine accepts, false otherwise;
   - and / or / not are the boolean connectives;
   - well-formed trees ([WF]).

   The operator vocabulary ([decode_op], [decode_cmp]) is shared with the model. *)
From Coq Require Import List NArith ZArith Bool.
From Cfg Require Export Model.Filter.
Import ListNotations.
Open Scope N_scope.

(* ---------- numerals: which strings denote a decimal number, and which ---------- *)

Definition nonempty {A} (l : list A) : bool := match l with [] => false | _ => true end.

(* D+ [ '.' D{1,19} ]   as (coefficient, number of fraction digits) *)
Definition unsigned_num (u : bytes) : option (N * nat) :=
  match split_dot u with
  | (i, None) =>
      if nonempty i && all_digits i then Some (digits_val i, O) else None
  | (i, Some f) =>
      if nonempty i && all_digits i && nonempty f && all_digits f && Nat.leb (length f) 19
      then Some (digits_val (i ++ f), length f) else None
  end.

Definition neg_num (r : option (N * nat)) : option (Z * nat) :=
  match r with Some (c, p) => Some ((- Z.of_N c)%Z, p) | None => None end.
Definition pos_num (r : option (N * nat)) : option (Z * nat) :=
  match r with Some (c, p) => Some (Z.of_N c, p) | None => None end.

(* the documented grammar  [+-]? D+ ( '.' D{1,19} )?  *)
Definition std_num (s : bytes) : option (Z * nat) :=
  match s with
  | [] => None
  | c :: u => if c =? 45 then neg_num (unsigned_num u)
              else if c =? 43 then pos_num (unsigned_num u)
              else pos_num (unsigned_num s)
  end.

(* two further forms udecimal 1.10.1 accepts, only for inputs longer than 41
   bytes (they are produced by its big.Int fallback):  "-+" numeral  (negative)
   and  "--" numeral-of-value-zero. *)
Definition long_num (s : bytes) : option (Z * nat) :=
  match s with
  | c0 :: c1 :: u =>
      if (c0 =? 45) && (c1 =? 43) then neg_num (unsigned_num u)
      else if (c0 =? 45) && (c1 =? 45) then
        match unsigned_num u with
        | Some (c, p) => if c =? 0 then Some (0%Z, p) else None
        | None => None
        end
      else None
  | _ => None
  end.

(* the numerals the engine accepts (1..200 bytes) and the number  z / 10^p  each denotes *)
Definition numeral (s : bytes) : option (Z * nat) :=
  match s with
  | [] => None
  | _ => if Nat.ltb 200 (length s) then None
         else match std_num s with
              | Some v => Some v
              | None => if Nat.ltb 41 (length s) then long_num s else None
              end
  end.

(* exact comparison of  z1/10^p1  with  z2/10^p2  *)
Definition num_cmp (a b : Z * nat) : comparison :=
  (fst a * Z.of_N (pow10 (snd b)) ?= fst b * Z.of_N (pow10 (snd a)))%Z.

(* ---------- string relations ---------- *)

Definition is_prefix (p s : bytes) : bool := bytes_eqb (firstn (length p) s) p.
Definition is_suffix (p s : bytes) : bool :=
  Nat.leb (length p) (length s) && bytes_eqb (skipn (length s - length p) s) p.
Definition is_infix (p s : bytes) : bool :=
  existsb (fun k => is_prefix p (skipn k s)) (seq 0 (S (length s))).

(* ---------- denotation ---------- *)

(* [acc]: which strings the decimal engine accepts (the property is relative to it) *)
Definition num_rel (acc : bytes -> bool) (c : cmpop) (s t : bytes) : bool :=
  if acc s && acc t then
    match numeral s, numeral t with
    | Some a, Some b =>
        match c, num_cmp a b with
        | CGt, Gt => true
        | CGte, Gt | CGte, Eq => true
        | CLt, Lt => true
        | CLte, Lt | CLte, Eq => true
        | _, _ => false
        end
    | _, _ => false
    end
  else false.

Definition leaf_denote (acc : bytes -> bool) (c : cmpop) (key val : bytes)
           (vals : list bytes) (tags : tagmap) : bool :=
  match lookup key tags with
  | None =>                         (* missing key: equals no value, is in no set *)
      match c with
      | CNeq | CNin | CNex => true
      | _ => false
      end
  | Some v =>
      match c with
      | CEq => bytes_eqb v val
      | CNeq => negb (bytes_eqb v val)
      | CIn => existsb (bytes_eqb v) vals
      | CNin => negb (existsb (bytes_eqb v) vals)
      | CEx => true
      | CNex => false
      | CSw => is_prefix val v
      | CEw => is_suffix val v
      | CCt => is_infix val v
      | _ => num_rel acc c v val
      end
  end.

Fixpoint denote_g (acc : bytes -> bool) (f : node) (tags : tagmap) : bool :=
  match f with
  | Node op key cmp val vals nodes =>
      match decode_op op with
      | Some OLeaf =>
          match decode_cmp cmp with
          | Some c => leaf_denote acc c key val vals tags
          | None => false
          end
      | Some OAnd => forallb (fun c => denote_g acc c tags) nodes
      | Some OOr => existsb (fun c => denote_g acc c tags) nodes
      | Some ONot => match nodes with
                     | [c] => negb (denote_g acc c tags)
                     | _ => false
                     end
      | None => false
      end
  end.

Definition numeral_ok (s : bytes) : bool :=
  match numeral s with Some _ => true | None => false end.

Definition denote : node -> tagmap -> bool := denote_g numeral_ok.

(* ---------- well-formed trees ---------- *)

Definition value_cmp (c : cmpop) : Prop :=
  match c with
  | CEq | CNeq | CSw | CEw | CCt | CGt | CGte | CLt | CLte => True
  | _ => False
  end.
Definition set_cmp (c : cmpop) : Prop := match c with CIn | CNin => True | _ => False end.
Definition exist_cmp (c : cmpop) : Prop := match c with CEx | CNex => True | _ => False end.

Inductive WF : node -> Prop :=
| WF_value : forall op key cmp val vals nodes c,
    decode_op op = Some OLeaf -> decode_cmp cmp = Some c -> value_cmp c ->
    key <> [] -> val <> [] -> vals = [] ->
    WF (Node op key cmp val vals nodes)
| WF_set : forall op key cmp val vals nodes c,
    decode_op op = Some OLeaf -> decode_cmp cmp = Some c -> set_cmp c ->
    key <> [] -> val = [] -> vals <> [] ->
    WF (Node op key cmp val vals nodes)
| WF_exist : forall op key cmp val vals nodes c,
    decode_op op = Some OLeaf -> decode_cmp cmp = Some c -> exist_cmp c ->
    val = [] -> vals = [] ->
    WF (Node op key cmp val vals nodes)
| WF_and : forall op key cmp val vals nodes,
    decode_op op = Some OAnd -> nodes <> [] -> Forall WF nodes ->
    WF (Node op key cmp val vals nodes)
| WF_or : forall op key cmp val vals nodes,
    decode_op op = Some OOr -> nodes <> [] -> Forall WF nodes ->
    WF (Node op key cmp val vals nodes)
| WF_not : forall op key cmp val vals c,
    decode_op op = Some ONot -> WF c ->
    WF (Node op key cmp val vals [c]).

(* decidable version, used by the oracle *)
Definition wf_leaf_b (key cmp val : bytes) (vals : list bytes) : bool :=
  match decode_cmp cmp with
  | None => false
  | Some c =>
      match c with
      | CIn | CNin => nonempty key && negb (nonempty val) && nonempty vals
      | CEx | CNex => negb (nonempty val) && negb (nonempty vals)
      | _ => nonempty key && nonempty val && negb (nonempty vals)
      end
  end.

Fixpoint wf_b (f : node) : bool :=
  match f with
  | Node op key cmp val vals nodes =>
      match decode_op op with
      | Some OLeaf => wf_leaf_b key cmp val vals
      | Some OAnd | Some OOr => nonempty nodes && forallb wf_b nodes
      | Some ONot => match nodes with [c] => wf_b c | _ => false end
      | None => false
      end
  end.

(* structural equality of trees, decidable (for the hash clause of the oracle) *)
Fixpoint list_eqb {A} (e : A -> A -> bool) (a b : list A) : bool :=
  match a, b with
  | [], [] => true
  | x :: a', y :: b' => e x y && list_eqb e a' b'
  | _, _ => false
  end.

Fixpoint node_eqb (f g : node) : bool :=
  match f, g with
  | Node o1 k1 c1 v1 vs1 n1, Node o2 k2 c2 v2 vs2 n2 =>
      bytes_eqb o1 o2 && bytes_eqb k1 k2 && bytes_eqb c1 c2 && bytes_eqb v1 v2 &&
      list_eqb bytes_eqb vs1 vs2 &&
      (fix go (a b : list node) : bool :=
         match a, b with
         | [], [] => true
         | x :: a', y :: b' => node_eqb x y && go a' b'
         | _, _ => false
         end) n1 n2
  end.
