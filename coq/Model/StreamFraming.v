(* C32.  Server side: the write loops of /repo/handler_sse.go and
   /repo/handler_http_stream.go (what bytes go to the response body for a sequence of
   already encoded server messages).  Client side: parsers written from the
   standards -- WHATWG HTML "server-sent events" (event stream interpretation),
   newline-delimited JSON (records end at LF), protobuf length-delimited streams
   (base-128 varint length, then that many bytes).  Executable, no proofs here.

   [sse_frame true] is the SSE handler AFTER fixes/C32-sse-strip-cr.patch (raw CR
   bytes are removed from a message before it is written); [sse_frame false] is the
   handler before the fix. *)
From Coq Require Import List NArith Bool.
From Cfg Require Export Model.Decimal.
Import ListNotations.
Open Scope N_scope.

(* ---------- server side ---------- *)

Definition strip_cr (m : bytes) : bytes := filter (fun c => negb (c =? 13)) m.

Definition sse_data_prefix : bytes := [100; 97; 116; 97; 58; 32].      (* "data: " *)

(* w.Write("\r\n") once, then per message w.Write("data: " + msg + "\n\n") *)
Definition sse_msg (fixed : bool) (m : bytes) : bytes :=
  sse_data_prefix ++ (if fixed then strip_cr m else m) ++ [10; 10].
Definition sse_frame (fixed : bool) (msgs : list bytes) : bytes :=
  [13; 10] ++ flat_map (sse_msg fixed) msgs.

(* JSON over HTTP streaming: w.Write(message); w.Write("\n") *)
Definition json_frame (msgs : list bytes) : bytes := flat_map (fun m => m ++ [10]) msgs.

(* binary.PutUvarint *)
Fixpoint uvarint (fuel : nat) (n : N) : bytes :=
  match fuel with
  | O => []
  | S k => if n <? 128 then [n] else (n mod 128 + 128) :: uvarint k (n / 128)
  end.

(* Protobuf over HTTP streaming: protocol.ProtobufDataEncoder.Encode per message *)
Definition pb_msg (m : bytes) : bytes := uvarint 10 (N.of_nat (length m)) ++ m.
Definition pb_frame (msgs : list bytes) : bytes := flat_map pb_msg msgs.

(* The handlers receive the messages in batches (one transport.WriteMany call each) and
   write batch after batch, flushing after each; a Protobuf batch is a single w.Write of
   all its length-prefixed messages. *)
Definition sse_body (fixed : bool) (batches : list (list bytes)) : bytes :=
  [13; 10] ++ flat_map (fun b => flat_map (sse_msg fixed) b) batches.
Definition json_body (batches : list (list bytes)) : bytes := flat_map json_frame batches.
Definition pb_body (batches : list (list bytes)) : bytes := flat_map pb_frame batches.

(* ---------- client side: EventSource ---------- *)

(* lines end at CRLF, LF or CR; an unterminated tail is never processed *)
Fixpoint sse_lines (s : bytes) (cur : bytes) (after_cr : bool) : list bytes :=
  match s with
  | [] => []
  | c :: s' =>
      if c =? 10 then
        (if after_cr then sse_lines s' cur false            (* the LF of a CRLF pair *)
         else rev cur :: sse_lines s' [] false)
      else if c =? 13 then rev cur :: sse_lines s' [] true
      else sse_lines s' (c :: cur) false
  end.

(* split a line at its first ':' *)
Fixpoint split_colon (l : bytes) : bytes * option bytes :=
  match l with
  | [] => ([], None)
  | c :: l' => if c =? 58 then ([], Some l')
               else let '(a, b) := split_colon l' in (c :: a, b)
  end.

Definition f_data : bytes := [100; 97; 116; 97].          (* "data" *)
Definition f_event : bytes := [101; 118; 101; 110; 116]. (* "event" *)
Definition f_id : bytes := [105; 100].                   (* "id" *)
Definition f_retry : bytes := [114; 101; 116; 114; 121]. (* "retry" *)

(* a dispatched event: type ("" = the default "message"), data, the last event ID string
   and the reconnection time in effect (None = the user agent's default) *)
Record sse_event := mkEv { ev_type : bytes; ev_data : bytes; ev_id : bytes; ev_retry : option N }.

(* state: data buffer, event type buffer, last event ID buffer, reconnection time *)
Fixpoint sse_process (ls : list bytes) (data etype lastid : bytes) (retry : option N)
  : list sse_event :=
  match ls with
  | [] => []                                   (* end of stream: pending data is discarded *)
  | l :: ls' =>
      match l with
      | [] =>                                  (* blank line: dispatch *)
          match data with
          | [] => sse_process ls' [] [] lastid retry
          | _ => mkEv etype (removelast data) lastid retry :: sse_process ls' [] [] lastid retry
          end
      | _ =>
          let '(field, v) := split_colon l in
          match field with
          | [] => sse_process ls' data etype lastid retry   (* line starts with ':' -> comment *)
          | _ =>
              let value := match v with
                           | None => []
                           | Some [] => []
                           | Some (c :: r) => if c =? 32 then r else c :: r   (* one leading space is dropped *)
                           end in
              if bytes_eqb field f_data then sse_process ls' (data ++ value ++ [10]) etype lastid retry
              else if bytes_eqb field f_event then sse_process ls' data value lastid retry
              else if bytes_eqb field f_id then
                (if existsb (N.eqb 0) value then sse_process ls' data etype lastid retry   (* NUL: ignored *)
                 else sse_process ls' data etype value retry)
              else if bytes_eqb field f_retry then
                (match value with
                 | [] => sse_process ls' data etype lastid retry
                 | _ => if all_digits value
                        then sse_process ls' data etype lastid (Some (digits_val value))
                        else sse_process ls' data etype lastid retry
                 end)
              else sse_process ls' data etype lastid retry    (* unknown field: ignored *)
          end
      end
  end.

(* the stream is UTF-8 decoded first, which drops one leading byte order mark *)
Definition strip_bom (s : bytes) : bytes :=
  match s with
  | 239 :: 187 :: 191 :: r => r
  | _ => s
  end.

Definition sse_parse (body : bytes) : list sse_event :=
  sse_process (sse_lines (strip_bom body) [] false) [] [] [] None.

(* ---------- client side: NDJSON ---------- *)

Fixpoint nd_lines (s : bytes) (cur : bytes) : list bytes :=
  match s with
  | [] => []                                   (* unterminated tail: not a record yet *)
  | c :: s' => if c =? 10 then rev cur :: nd_lines s' [] else nd_lines s' (c :: cur)
  end.
Definition ndjson_parse (body : bytes) : list bytes := nd_lines body [].

(* ---------- client side: length-delimited protobuf ---------- *)

(* base-128 varint, at most 10 bytes: (value, rest) *)
Fixpoint read_uvarint (fuel : nat) (s : bytes) (shift acc : N) : option (N * bytes) :=
  match fuel with
  | O => None
  | S k =>
      match s with
      | [] => None
      | c :: s' =>
          if c <? 128 then Some (acc + c * 2 ^ shift, s')
          else read_uvarint k s' (shift + 7) (acc + (c - 128) * 2 ^ shift)
      end
  end.

Fixpoint pb_parse (fuel : nat) (s : bytes) : option (list bytes) :=
  match s with
  | [] => Some []
  | _ =>
      match fuel with
      | O => None
      | S k =>
          match read_uvarint 10 s 0 0 with
          | None => None
          | Some (n, rest) =>
              if Nat.ltb (length rest) (N.to_nat n) then None
              else match pb_parse k (skipn (N.to_nat n) rest) with
                   | Some ms => Some (firstn (N.to_nat n) rest :: ms)
                   | None => None
                   end
          end
      end
  end.

(* ---------- JSON insignificant whitespace ---------- *)

Definition is_ws (c : N) : bool := (c =? 32) || (c =? 9) || (c =? 10) || (c =? 13).

(* remove whitespace outside string literals; [in_str], [esc]: lexer state *)
Fixpoint json_norm (s : bytes) (in_str esc : bool) : bytes :=
  match s with
  | [] => []
  | c :: s' =>
      if in_str then
        if esc then c :: json_norm s' true false
        else if c =? 92 then c :: json_norm s' true true          (* backslash *)
        else if c =? 34 then c :: json_norm s' false false        (* closing quote *)
        else c :: json_norm s' true false
      else if c =? 34 then c :: json_norm s' true false
      else if is_ws c then json_norm s' false false
      else c :: json_norm s' false false
  end.
Definition normalise (m : bytes) : bytes := json_norm m false false.

(* JSON forbids raw control characters inside string literals *)
Fixpoint json_str_clean (s : bytes) (in_str esc : bool) : bool :=
  match s with
  | [] => true
  | c :: s' =>
      if in_str then
        negb (c <? 32) &&
        (if esc then json_str_clean s' true false
         else if c =? 92 then json_str_clean s' true true
         else if c =? 34 then json_str_clean s' false false
         else json_str_clean s' true false)
      else if c =? 34 then json_str_clean s' true false
      else json_str_clean s' false false
  end.
Definition json_clean (m : bytes) : bool := json_str_clean m false false.

Definition lf_free (m : bytes) : bool := forallb (fun c => negb (c =? 10)) m.
Definition crlf_free (m : bytes) : bool := forallb (fun c => negb (c =? 10) && negb (c =? 13)) m.
