(* C11: the connect reply versus pushes, and the life cycle of the dictionary-compression
   encoder, as a labelled transition system of ONE connection.

   Code mirrored:
     client.go  connectCmd: SetDictionaryCompression (before addClient), startWriter (before
                addClient), addClient under c.mu, the WINDOW (connect-time server-side
                subscribes, shutdown check, result assembly -- c.mu is NOT held), enqueue of
                the connect reply (writeEncodedCommandReply: queue, or direct write with
                ReplyWithoutQueue);
                Client.Send / Client.Subscribe push / offset-less publications: enqueue of a
                push, possible as soon as the client is in the hub;
                close(): status flip, messageWriter.close (takes the writer mutex, flushes the
                remaining queue), CloseDictionaryCompression, transport.Close
     writer.go  waitSendMessage holds writer.mu around WriteFn; close takes writer.mu
     client.go  startWriter: WriteFn/WriteManyFn serialise transport writes with writeMu
     handler_websocket.go  writeData: Encode when the active encoder is set, otherwise the
                frame goes out raw and a pending encoder is promoted; CloseDictionaryCompression
                swaps the pointers and calls Close (no lock shared with writeData)

   One frame = one message (the driver lets the writer drain between its steps; batching of
   several messages into one frame is C12's subject). *)
From Coq Require Import List NArith Bool.
Import ListNotations.

Inductive item := IConn | IPush.            (* connect reply | any push or later reply *)
Inductive wire := WRaw (i : item) | WEnc (i : item).
Inductive eev := EBegin | EEnd | EClose.    (* calls observed by the DictionaryConnection *)
Inductive encst := ENone | EPending | EActive | EGone.
Inductive cpc := CStart | CAdded | CReplied.
Inductive clo := KOpen | KFlag | KWriter | KDict | KDone.

Record ccfg := mkCC {
  cc_rwq : bool;        (* ReplyWithoutQueue *)
  cc_dict : bool;       (* the engine returns a codec for this connection *)
  cc_fix_hub : bool;    (* PATCH: the client is registered in the hub only once the connect reply is
                           enqueued (and offset-less publications check flagSubscribed, C10 patch a):
                           nothing can address the connection inside the window.  Read with the
                           code as it stands, flag = true restricts the schedules to those in which
                           no push reaches the client during the window. *)
  cc_fix_lock : bool    (* PATCH: CloseDictionaryCompression runs under the write mutex *)
}.

Record cst := mkCS {
  pcC : cpc;
  enc : encst;
  queue : list item;
  wbusy : option (item * bool);    (* writer goroutine inside transport.Write (item, encoding?) *)
  dbusy : option (item * bool);    (* a direct (ReplyWithoutQueue) write in progress *)
  kl : clo;
  wlog : list wire;                (* frames on the wire, oldest first *)
  elog : list eev                  (* encoder call log *)
}.

Definition cinit : cst := mkCS CStart ENone [] None None KOpen [] [].

Inductive clabel :=
  | AConnAdd                 (* SetDictionaryCompression; startWriter; addClient *)
  | AConnReply               (* the connect reply is enqueued / written directly *)
  | APush                    (* Send / subscribe push / offset-less publication reaches the client *)
  | ADirect                  (* a later command reply written without the queue *)
  | AWBegin | AWEnd          (* writer goroutine: one frame *)
  | ADEnd                    (* end of a direct write *)
  | AKFlag | AKWriter | AKDict | AKDone.   (* close() *)

Definition writer_open (k : clo) : bool := match k with KOpen | KFlag => true | _ => false end.
Definition transport_open (k : clo) : bool := match k with KDone => false | _ => true end.

(* websocketTransport.writeData, first half: decide raw/encoded, promote a pending codec *)
Definition write_begin (s : cst) (i : item) : encst * bool * list eev :=
  match enc s with
  | EActive => (EActive, true, elog s ++ [EBegin])
  | EPending => (EActive, false, elog s)
  | e => (e, false, elog s)
  end.

(* second half: the frame reaches the wire unless the transport was closed meanwhile *)
Definition write_end (s : cst) (b : item * bool) : list wire * list eev :=
  let '(i, e) := b in
  let wl := if transport_open (kl s) then wlog s ++ [if e then WEnc i else WRaw i] else wlog s in
  (wl, if e then elog s ++ [EEnd] else elog s).

(* flushing the remaining queue at writer close: each message as its own frame *)
Fixpoint flush (e : encst) (q : list item) (wl : list wire) (el : list eev) : encst * list wire * list eev :=
  match q with
  | [] => (e, wl, el)
  | i :: q' =>
      match e with
      | EActive => flush EActive q' (wl ++ [WEnc i]) (el ++ [EBegin; EEnd])
      | EPending => flush EActive q' (wl ++ [WRaw i]) el
      | _ => flush e q' (wl ++ [WRaw i]) el
      end
  end.

Definition cstep (c : ccfg) (s : cst) (l : clabel) : option cst :=
  match l with
  | AConnAdd =>
      match pcC s, kl s with
      | CStart, KOpen =>
          Some (mkCS CAdded (if cc_dict c then EPending else ENone) (queue s) (wbusy s) (dbusy s) (kl s) (wlog s) (elog s))
      | _, _ => None
      end
  | AConnReply =>
      match pcC s with
      | CAdded =>
          if cc_rwq c then
            (* direct write: WriteFn under writeMu *)
            if transport_open (kl s) then
              match wbusy s, dbusy s with
              | None, None =>
                  let '(e, encd, el) := write_begin s IConn in
                  Some (mkCS CReplied e (queue s) (wbusy s) (Some (IConn, encd)) (kl s) (wlog s) el)
              | _, _ => None
              end
            else Some (mkCS CReplied (enc s) (queue s) (wbusy s) (dbusy s) (kl s) (wlog s) (elog s))
          else
            if writer_open (kl s)
            then Some (mkCS CReplied (enc s) (queue s ++ [IConn]) (wbusy s) (dbusy s) (kl s) (wlog s) (elog s))
            else Some (mkCS CReplied (enc s) (queue s) (wbusy s) (dbusy s) (kl s) (wlog s) (elog s))
      | _ => None
      end
  | APush =>
      match pcC s with
      | CStart => None                      (* not in the hub yet: nothing can address the client *)
      | CAdded =>
          if cc_fix_hub c then None else
          if writer_open (kl s)
          then Some (mkCS (pcC s) (enc s) (queue s ++ [IPush]) (wbusy s) (dbusy s) (kl s) (wlog s) (elog s))
          else Some (mkCS (pcC s) (enc s) (queue s) (wbusy s) (dbusy s) (kl s) (wlog s) (elog s))
      | _ =>
          if writer_open (kl s)
          then Some (mkCS (pcC s) (enc s) (queue s ++ [IPush]) (wbusy s) (dbusy s) (kl s) (wlog s) (elog s))
          else Some (mkCS (pcC s) (enc s) (queue s) (wbusy s) (dbusy s) (kl s) (wlog s) (elog s))
      end
  | ADirect =>
      if cc_rwq c then
        match pcC s, wbusy s, dbusy s with
        | CReplied, None, None =>
            if transport_open (kl s) then
              let '(e, encd, el) := write_begin s IPush in
              Some (mkCS (pcC s) e (queue s) (wbusy s) (Some (IPush, encd)) (kl s) (wlog s) el)
            else None
        | _, _, _ => None
        end
      else None
  | AWBegin =>
      match queue s, wbusy s, dbusy s with
      | i :: q, None, None =>
          if writer_open (kl s) then
            let '(e, encd, el) := write_begin s i in
            Some (mkCS (pcC s) e q (Some (i, encd)) (dbusy s) (kl s) (wlog s) el)
          else None
      | _, _, _ => None
      end
  | AWEnd =>
      match wbusy s with
      | Some b => let '(wl, el) := write_end s b in
                  Some (mkCS (pcC s) (enc s) (queue s) None (dbusy s) (kl s) wl el)
      | None => None
      end
  | ADEnd =>
      match dbusy s with
      | Some b => let '(wl, el) := write_end s b in
                  Some (mkCS (pcC s) (enc s) (queue s) (wbusy s) None (kl s) wl el)
      | None => None
      end
  | AKFlag =>
      match kl s with
      | KOpen => Some (mkCS (pcC s) (enc s) (queue s) (wbusy s) (dbusy s) KFlag (wlog s) (elog s))
      | _ => None
      end
  | AKWriter =>
      (* messageWriter.close: takes writer.mu (no frame of the writer goroutine in progress);
         a non-empty remaining queue is flushed through WriteManyFn, which takes writeMu
         (no direct write in progress) *)
      match kl s, wbusy s with
      | KFlag, None =>
          match queue s, dbusy s with
          | [], _ => Some (mkCS (pcC s) (enc s) [] None (dbusy s) KWriter (wlog s) (elog s))
          | _ :: _, None =>
              let '(e, wl, el) := flush (enc s) (queue s) (wlog s) (elog s) in
              Some (mkCS (pcC s) e [] None None KWriter wl el)
          | _, _ => None
          end
      | _, _ => None
      end
  | AKDict =>
      (* CloseDictionaryCompression: no lock shared with the write path *)
      match kl s with
      | KWriter =>
          if cc_fix_lock c && (match wbusy s, dbusy s with None, None => false | _, _ => true end) then None else
          match enc s with
          | EActive | EPending => Some (mkCS (pcC s) EGone (queue s) (wbusy s) (dbusy s) KDict (wlog s) (elog s ++ [EClose]))
          | _ => Some (mkCS (pcC s) (enc s) (queue s) (wbusy s) (dbusy s) KDict (wlog s) (elog s))
          end
      | _ => None
      end
  | AKDone =>
      match kl s with
      | KDict => Some (mkCS (pcC s) (enc s) (queue s) (wbusy s) (dbusy s) KDone (wlog s) (elog s))
      | _ => None
      end
  end.

Fixpoint crun (c : ccfg) (s : cst) (ls : list clabel) : option cst :=
  match ls with
  | [] => Some s
  | l :: ls' => match cstep c s l with Some s' => crun c s' ls' | None => None end
  end.

(* ---- specification over the two observables (wire, encoder call log) ---- *)

(* connect reply first *)
Definition conn_first (wl : list wire) : bool :=
  match wl with
  | [] => true
  | WRaw IConn :: _ | WEnc IConn :: _ => true
  | _ => false
  end.
(* the connect reply, whenever it is on the wire, is uncompressed *)
Definition conn_raw (wl : list wire) : bool :=
  forallb (fun w => match w with WEnc IConn => false | _ => true end) wl.
(* with a negotiated codec every frame after the first is encoded *)
Definition rest_encoded (wl : list wire) : bool :=
  match wl with
  | [] => true
  | _ :: r => forallb (fun w => match w with WEnc _ => true | WRaw _ => false end) r
  end.
(* encoder call log: Close at most once, after the last Encode and never during one *)
Fixpoint elog_ok (active : nat) (closed : bool) (l : list eev) : bool :=
  match l with
  | [] => true
  | EBegin :: l' => negb closed && elog_ok (S active) closed l'
  | EEnd :: l' => match active with O => false | S a => elog_ok a closed l' end
  | EClose :: l' => negb closed && Nat.eqb active 0 && elog_ok active true l'
  end.

Definition count_close (l : list eev) : nat :=
  length (filter (fun e => match e with EClose => true | _ => false end) l).
