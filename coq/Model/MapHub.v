(* Model of the in-memory map broker: /repo/map_broker_memory.go
   (MemoryMapBroker.Publish/Remove/Clear/ReadState/ReadStream, mapHub.add /
   remove / clear / getState / getStream / expireKeysIteration, the
   idempotency result cache), /repo/map_broker.go
   (ResolveAndValidateMapChannelOptions, MakeOrderedCursor / parseOrderedCursor,
   findUnorderedCursorPosition / findOrderedCursorPosition) and
   /repo/internal/memstream/stream.go (Add / Get).
   Shared by C20, C21 and C24.  Executable, no proofs here.

   Conventions
   * channels are indices into a list of raw channel configurations (the
     resolver is a fixed function of the channel name);
   * keys, cursors are byte strings ([list N], [] = "");
   * strings that are only compared (epochs, idempotency keys, version
     epochs) are [N] with 0 = "" ; channel epochs are allocated from a counter
     in creation order (= first-seen order of the real random epochs);
   * payloads and tag maps are opaque ids ([p_data], [option N], None = nil);
   * time is a virtual clock [h_now] in ticks (1 tick = 1 minute of
     time.Now()); durations are ticks;
   * third-party code is modelled by meaning: Go map = association list,
     sort.Slice / sort.Strings = sort by the comparison given, sort.Search =
     first index satisfying the predicate, container/heap over priority.Queue
     = extract a minimal element (ties broken by (channel,key); the
     correspondence never exercises ties between different keys);
   * channel.stream is never nil (both creation sites use memstream.New()), the
     nil branches are omitted; channel.scores[k] coincides with the entry's
     score under a per-channel constant configuration and is not duplicated;
     the StreamTTL / MetaTTL sweeps (expireStreams, removeChannels) and the
     idempotency cache garbage collector are outside this model. *)
From Coq Require Import List NArith ZArith Bool.
Import ListNotations.
Open Scope N_scope.

(* ------------------------------------------------------------------ keys *)
Definition key := list N.

Fixpoint key_eqb (a b : key) : bool :=
  match a, b with
  | [], [] => true
  | x :: a', y :: b' => (x =? y) && key_eqb a' b'
  | _, _ => false
  end.

(* Go string "<": bytewise lexicographic, a proper prefix is smaller. *)
Fixpoint key_ltb (a b : key) : bool :=
  match a, b with
  | _, [] => false
  | [], _ :: _ => true
  | x :: a', y :: b' => if x <? y then true else if y <? x then false else key_ltb a' b'
  end.

Definition is_empty (k : key) : bool := match k with [] => true | _ => false end.

(* ------------------------------------------------- association lists *)
Fixpoint aget {K V} (eqb : K -> K -> bool) (m : list (K * V)) (k : K) : option V :=
  match m with
  | [] => None
  | (k', v) :: m' => if eqb k k' then Some v else aget eqb m' k
  end.
Fixpoint adel {K V} (eqb : K -> K -> bool) (m : list (K * V)) (k : K) : list (K * V) :=
  match m with
  | [] => []
  | (k', v) :: m' => if eqb k k' then adel eqb m' k else (k', v) :: adel eqb m' k
  end.
(* in-place update, append when absent: the key sequence is stable *)
Fixpoint aset {K V} (eqb : K -> K -> bool) (m : list (K * V)) (k : K) (v : V) : list (K * V) :=
  match m with
  | [] => [(k, v)]
  | (k', v') :: m' => if eqb k k' then (k, v) :: m' else (k', v') :: aset eqb m' k v
  end.

Definition ck := (N * key)%type.          (* "channel\x00key" *)
Definition ck_eqb (a b : ck) : bool := (fst a =? fst b) && key_eqb (snd a) (snd b).

(* ------------------------------------------------------- configuration *)
Record rawcfg := mkRaw {
  rc_mode : N;        (* MapMode as int: 0 unset, 1 ephemeral, 2 recoverable, 3 persistent *)
  rc_keyttl : Z; rc_size : Z; rc_sttl : Z; rc_mttl : Z;   (* ticks / entries *)
  rc_ordered : bool }.

Record chcfg := mkCfg { cf_mode : N; cf_keyttl : N; cf_size : N; cf_ordered : bool;
                        cf_sttl : N; cf_mttl : N }.   (* resolved StreamTTL / MetaTTL in ticks (0 = none) *)

Definition has_stream (m : N) : bool := (m =? 2) || (m =? 3).
Definition has_expiry (m : N) : bool := (m =? 1) || (m =? 2).
Definition is_ephemeral (m : N) : bool := m =? 1.

Inductive cfgres := CfgOk (c : chcfg) | CfgErr (code : N).

(* ResolveAndValidateMapChannelOptions; error codes number the error returns
   in source order (1 = "set Mode" ... 14 = "MetaTTL must be >= KeyTTL"). *)
Definition resolve (r : rawcfg) : cfgres :=
  let m := rc_mode r in
  if m =? 0 then CfgErr 1 else
  if negb ((m =? 1) || (m =? 2) || (m =? 3)) then CfgErr 2 else
  if has_expiry m && (rc_keyttl r =? 0)%Z then CfgErr 3 else
  if has_expiry m && (rc_keyttl r <? 0)%Z then CfgErr 4 else
  if negb (has_expiry m) && negb (rc_keyttl r =? 0)%Z then CfgErr 5 else
  if is_ephemeral m && (0 <? rc_size r)%Z then CfgErr 6 else
  if is_ephemeral m && (0 <? rc_sttl r)%Z then CfgErr 7 else
  if is_ephemeral m && (0 <? rc_mttl r)%Z then CfgErr 8 else
  if has_stream m then
    if (rc_size r <? 0)%Z then CfgErr 9 else
    if (rc_sttl r <? 0)%Z then CfgErr 10 else
    if (rc_mttl r <? 0)%Z then CfgErr 11 else
    let size := if (rc_size r =? 0)%Z then 100%Z else rc_size r in
    let sttl := if (rc_sttl r =? 0)%Z then 1%Z else rc_sttl r in
    let mttl :=
      if (rc_mttl r =? 0)%Z then
        if has_expiry m then
          let d := (sttl * 10)%Z in
          if (0 <? rc_keyttl r)%Z && (d <? rc_keyttl r)%Z then rc_keyttl r else d
        else 0%Z
      else rc_mttl r in
    if (0 <? mttl)%Z && (mttl <? sttl)%Z then CfgErr 12 else
    if (0 <? mttl)%Z && (rc_keyttl r =? 0)%Z then CfgErr 13 else
    if (0 <? mttl)%Z && (0 <? rc_keyttl r)%Z && (mttl <? rc_keyttl r)%Z then CfgErr 14 else
    CfgOk (mkCfg m (Z.to_N (rc_keyttl r)) (Z.to_N size) (rc_ordered r) (Z.to_N sttl) (Z.to_N mttl))
  else CfgOk (mkCfg m (Z.to_N (rc_keyttl r)) 0 (rc_ordered r) 0 (Z.to_N (rc_mttl r))).

Definition unset_cfg := mkRaw 0 0 0 0 0 false.
Definition cfg_of (cfgs : list rawcfg) (ch : N) : cfgres := resolve (nth (N.to_nat ch) cfgs unset_cfg).

(* ------------------------------------------------------- publications *)
Record pub := mkPub {
  p_key : key; p_off : N; p_data : N; p_tags : option N; p_removed : bool; p_score : Z }.

Record entry := mkEntry { e_pub : pub; e_exp : N; e_ver : N; e_vep : N }.

Definition pos := (N * N)%type.            (* StreamPosition: offset, epoch *)

(* ---------------------------------------------------------- memstream *)
Record stream := mkStream { s_top : N; s_epoch : N; s_items : list pub }.  (* oldest first *)

Definition stream_add (s : stream) (mk : N -> pub) (size : N) : stream * N :=
  let off := s_top s + 1 in
  let items := s_items s ++ [mk off] in
  (mkStream off (s_epoch s) (skipn (length items - N.to_nat size) items), off).

Fixpoint from_off (o : N) (l : list pub) : option (list pub) :=
  match l with
  | [] => None
  | p :: l' => if p_off p =? o then Some l else from_off o l'
  end.
Fixpoint upto_off (o : N) (l : list pub) : option (list pub) :=
  match l with
  | [] => None
  | p :: l' => if p_off p =? o then Some [p]
               else match upto_off o l' with Some r => Some (p :: r) | None => None end
  end.

Definition take_limit {A} (limit : Z) (l : list A) : list A :=
  if (limit =? 0)%Z then [] else if (limit <? 0)%Z then l else firstn (Z.to_nat limit) l.

(* Stream.Get *)
Definition stream_get (s : stream) (offset : N) (use_offset : bool) (limit : Z) (reverse : bool) : list pub :=
  if use_offset && (s_top s + 1 <=? offset) then [] else
  let start :=
    if use_offset then
      if reverse then match upto_off offset (s_items s) with Some r => rev r | None => [] end
      else match from_off offset (s_items s) with Some r => r | None => s_items s end
    else if reverse then rev (s_items s) else s_items s in
  take_limit limit start.

(* ------------------------------------------------------------- the hub *)
Record mchan := mkChan {
  c_stream : stream;
  c_state : list (key * entry);
  c_ordered : bool;
  c_sorted : list key; c_dirty : bool; c_lastord : bool; c_lastasc : bool }.

Record event := mkEv { ev_ch : N; ev_key : key; ev_exp : N; ev_tags : option N; ev_size : N }.

Record bcast := mkBc { b_ch : N; b_pub : pub; b_pos : pos; b_delta : bool; b_prev : option pub }.

(* StreamTTL / MetaTTL bookkeeping: expires / expireQueue / nextExpireCheck and
   removes / removeQueue / nextRemoveCheck *)
Record retention := mkRet {
  r_sexp : list (N * N); r_squeue : list (N * N); r_snext : N;
  r_rexp : list (N * N); r_rqueue : list (N * N); r_rnext : N }.
Definition ret0 : retention := mkRet [] [] 0 [] [] 0.

Record hub := mkHub {
  h_chans : list (N * mchan);
  h_kexp : list (ck * N);                 (* keyExpires *)
  h_queue : list (ck * N);                (* keyExpireQueue (heap, by meaning) *)
  h_next : N;                             (* nextKeyExpireCheck *)
  h_idem : list (N * list (N * (pos * N)));  (* resultCache: ch -> key -> (position, expireAt) *)
  h_now : N;                              (* virtual clock *)
  h_nep : N;                              (* next fresh epoch *)
  h_pend : list event;                    (* sweep in flight: Phase-1 snapshot not yet re-validated *)
  h_pnow : N;                             (* the sweep's captured [now] *)
  h_bcast : list bcast;                   (* HandlePublication calls, chronological *)
  h_ret : retention }.

Definition hub0 : hub := mkHub [] [] [] 0 [] 0 1 [] 0 [] ret0.

Definition get_chan (h : hub) (ch : N) : option mchan := aget N.eqb (h_chans h) ch.
Definition set_chans (h : hub) (cs : list (N * mchan)) : hub :=
  mkHub cs (h_kexp h) (h_queue h) (h_next h) (h_idem h) (h_now h) (h_nep h) (h_pend h) (h_pnow h) (h_bcast h) (h_ret h).
Definition set_chan (h : hub) (ch : N) (c : mchan) : hub := set_chans h (aset N.eqb (h_chans h) ch c).
Definition set_exp (h : hub) (kexp queue : list (ck * N)) (next : N) : hub :=
  mkHub (h_chans h) kexp queue next (h_idem h) (h_now h) (h_nep h) (h_pend h) (h_pnow h) (h_bcast h) (h_ret h).
Definition set_idem (h : hub) (i : list (N * list (N * (pos * N)))) : hub :=
  mkHub (h_chans h) (h_kexp h) (h_queue h) (h_next h) i (h_now h) (h_nep h) (h_pend h) (h_pnow h) (h_bcast h) (h_ret h).
Definition set_now (h : hub) (t : N) : hub :=
  mkHub (h_chans h) (h_kexp h) (h_queue h) (h_next h) (h_idem h) t (h_nep h) (h_pend h) (h_pnow h) (h_bcast h) (h_ret h).
Definition set_nep (h : hub) (e : N) : hub :=
  mkHub (h_chans h) (h_kexp h) (h_queue h) (h_next h) (h_idem h) (h_now h) e (h_pend h) (h_pnow h) (h_bcast h) (h_ret h).
Definition set_pend (h : hub) (p : list event) (t : N) : hub :=
  mkHub (h_chans h) (h_kexp h) (h_queue h) (h_next h) (h_idem h) (h_now h) (h_nep h) p t (h_bcast h) (h_ret h).
Definition set_ret (h : hub) (r : retention) : hub :=
  mkHub (h_chans h) (h_kexp h) (h_queue h) (h_next h) (h_idem h) (h_now h) (h_nep h) (h_pend h) (h_pnow h) (h_bcast h) r.
Definition add_bcast (h : hub) (b : bcast) : hub :=
  mkHub (h_chans h) (h_kexp h) (h_queue h) (h_next h) (h_idem h) (h_now h) (h_nep h) (h_pend h) (h_pnow h) (h_bcast h ++ [b]) (h_ret h).

Definition new_chan (epoch : N) (ordered : bool) : mchan :=
  mkChan (mkStream 0 epoch []) [] ordered [] false false false.
Definition set_stream (c : mchan) (s : stream) : mchan :=
  mkChan s (c_state c) (c_ordered c) (c_sorted c) (c_dirty c) (c_lastord c) (c_lastasc c).
Definition set_state (c : mchan) (st : list (key * entry)) : mchan :=       (* + sortedKeysDirty = true *)
  mkChan (c_stream c) st (c_ordered c) (c_sorted c) true (c_lastord c) (c_lastasc c).
Definition set_entry_nodirty (c : mchan) (st : list (key * entry)) : mchan :=
  mkChan (c_stream c) st (c_ordered c) (c_sorted c) (c_dirty c) (c_lastord c) (c_lastasc c).
Definition chan_pos (c : mchan) : pos := (s_top (c_stream c), s_epoch (c_stream c)).

(* push on keyExpireQueue + keyExpires[chKey] = d + nextKeyExpireCheck update *)
Definition track (h : hub) (k : ck) (d : N) : hub :=
  set_exp h (aset ck_eqb (h_kexp h) k d) ((k, d) :: h_queue h)
          (if (h_next h =? 0) || (d <? h_next h) then d else h_next h).

(* expires[ch] = now + StreamTTL (queue item pushed only when the channel had none) *)
Definition ttl_touch (m q : list (N * N)) (next : N) (ch d : N) : list (N * N) * list (N * N) * N :=
  (aset N.eqb m ch d,
   match aget N.eqb m ch with Some _ => q | None => (ch, d) :: q end,
   if (next =? 0) || (d <? next) then d else next).

Definition touch_stream (h : hub) (ch sttl : N) : hub :=
  let r := h_ret h in
  let '(m, q, nx) := ttl_touch (r_sexp r) (r_squeue r) (r_snext r) ch (h_now h + sttl) in
  set_ret h (mkRet m q nx (r_rexp r) (r_rqueue r) (r_rnext r)).
(* removes[ch] = now + MetaTTL, only when MetaTTL > 0 (also updateMetaTTL of the read paths) *)
Definition touch_meta (h : hub) (ch mttl : N) : hub :=
  if 0 <? mttl then
    let r := h_ret h in
    let '(m, q, nx) := ttl_touch (r_rexp r) (r_rqueue r) (r_rnext r) ch (h_now h + mttl) in
    set_ret h (mkRet (r_sexp r) (r_squeue r) (r_snext r) m q nx)
  else h.
(* the TTL bookkeeping of a stream append in add / remove *)
Definition ret_touch (cf : chcfg) (h : hub) (ch : N) : hub :=
  if has_stream (cf_mode cf) then touch_meta (touch_stream h ch (cf_sttl cf)) ch (cf_mttl cf) else h.

(* ------------------------------------------------------------ publish *)
Inductive kmode := KReplace | KIfNew | KIfExists.
Record popts := mkPO {
  po_idem : N; po_idemttl : N;       (* IdempotencyKey (0 = ""), IdempotentResultTTL in ticks (0 = default 5) *)
  po_data : N; po_tags : option N; po_delta : bool;
  po_ver : N; po_vep : N; po_score : Z;
  po_mode : kmode; po_refresh : bool;
  po_exp : option pos }.
Record ropts := mkRO { ro_idem : N; ro_idemttl : N; ro_exp : option pos; ro_tags : option N }.

Inductive reason := RNone | RIdem | RVersion | RKeyExists | RKeyNotFound | RMismatch.

(* mapHub.add, in source order.  [add] returns the hub, position, the
   *Publication second result, the suppress reason and (when not suppressed)
   the publication stored / appended / to be broadcast. *)

(* prevPub for delta, read before the channel is created *)
Definition add_prev (h : hub) (ch : N) (k : key) (o : popts) : option pub :=
  if po_delta o && negb (is_empty k) then
    match get_chan h ch with
    | Some c => match aget key_eqb (c_state c) k with Some e => Some (e_pub e) | None => None end
    | None => None
    end
  else None.

(* get or create the channel; an ordered configuration flips channel.ordered *)
Definition add_ensure (cf : chcfg) (h : hub) (ch : N) : hub * mchan :=
  match get_chan h ch with
  | None => let c := new_chan (h_nep h) (cf_ordered cf) in
            (set_nep (set_chan h ch c) (h_nep h + 1), c)
  | Some c =>
      if cf_ordered cf && negb (c_ordered c)
      then let c' := mkChan (c_stream c) (c_state c) true (c_sorted c) true (c_lastord c) (c_lastasc c) in
           (set_chan h ch c', c')
      else (h, c)
  end.

(* 1. version *)
Definition add_stale (cf : chcfg) (k : key) (o : popts) (cur : option entry) : bool :=
  has_stream (cf_mode cf) && negb (is_empty k) && (0 <? po_ver o) &&
  match cur with
  | Some e => ((po_vep o =? 0) || (po_vep o =? e_vep e)) && (po_ver o <=? e_ver e)
  | None => false
  end.

(* 2. key mode (with the RefreshTTLOnSuppress keep-alive) *)
Definition add_keymode (cf : chcfg) (h1 : hub) (ch : N) (c : mchan) (k : key) (o : popts) (cur : option entry)
  : option (hub * reason) :=
  if is_empty k then None else
  match po_mode o, cur with
  | KIfNew, Some e =>
      if po_refresh o && (0 <? cf_keyttl cf) then
        let d := h_now h1 + cf_keyttl cf in
        let c' := set_entry_nodirty c (aset key_eqb (c_state c) k (mkEntry (e_pub e) d (e_ver e) (e_vep e))) in
        Some (touch_meta (track (set_chan h1 ch c') (ch, k) d) ch (cf_mttl cf), RKeyExists)
      else Some (h1, RKeyExists)
  | KIfExists, None => Some (h1, RKeyNotFound)
  | _, _ => None
  end.

(* 3. compare-and-swap against the entry's offset and the channel epoch *)
Definition cas_check (epoch : N) (exp : option pos) (cur : option entry) : option (option pub) :=
  match exp with
  | None => None
  | Some (eo, ee) =>
      match cur with
      | None => Some None
      | Some e => if negb (p_off (e_pub e) =? eo) || negb (epoch =? ee) then Some (Some (e_pub e)) else None
      end
  end.

(* stream append, state entry, TTL tracking *)
Definition add_commit (cf : chcfg) (h1 : hub) (ch : N) (c : mchan) (k : key) (o : popts)
           (cur : option entry) (prev : option pub) : hub * pos * option pub * reason * option pub :=
  let mk := fun off => mkPub k off (po_data o) (po_tags o) false (po_score o) in
  let '(c1, p) :=
    if has_stream (cf_mode cf) then
      let '(s', off) := stream_add (c_stream c) mk (cf_size cf) in
      (set_stream c s', (off, s_epoch s'))
    else (c, chan_pos c) in
  (* statePub.Offset is assigned only on the stream path or together with the state entry *)
  let thepub := mk (if has_stream (cf_mode cf) || negb (is_empty k) then fst p else 0) in
  if is_empty k then (ret_touch cf (set_chan h1 ch c1) ch, p, prev, RNone, Some thepub) else
  let d := if 0 <? cf_keyttl cf then h_now h1 + cf_keyttl cf else 0 in
  let '(ver, vep) :=
    if po_ver o =? 0 then match cur with Some e => (e_ver e, e_vep e) | None => (0, po_vep o) end
    else (po_ver o, po_vep o) in
  let c2 := set_state c1 (aset key_eqb (c_state c1) k (mkEntry thepub d ver vep)) in
  let h2 := set_chan h1 ch c2 in
  let h3 := if 0 <? cf_keyttl cf then track h2 (ch, k) d else h2 in
  (ret_touch cf h3 ch, p, prev, RNone, Some thepub).

Definition add (cf : chcfg) (h : hub) (ch : N) (k : key) (o : popts)
  : hub * pos * option pub * reason * option pub :=
  let prev := add_prev h ch k o in
  let '(h1, c) := add_ensure cf h ch in
  let cur := aget key_eqb (c_state c) k in
  let pos0 := chan_pos c in
  if add_stale cf k o cur then (h1, pos0, None, RVersion, None) else
  match add_keymode cf h1 ch c k o cur with
  | Some (h2, r) => (h2, pos0, None, r, None)
  | None =>
    match (if is_empty k then None else cas_check (snd pos0) (po_exp o) cur) with
    | Some cp => (h1, pos0, cp, RMismatch, None)
    | None => add_commit cf h1 ch c k o cur prev
    end
  end.

Inductive ures :=
| UErr (code : N)
| URes (p : pos) (suppressed : bool) (r : reason) (cur : option (N * N)).  (* CurrentEntry: offset, data *)

Definition idem_get (h : hub) (ch ik : N) : option pos :=
  match aget N.eqb (h_idem h) ch with
  | None => None
  | Some m => match aget N.eqb m ik with
              | Some (p, exp) => if exp <=? h_now h then None else Some p
              | None => None
              end
  end.
Definition idem_save (h : hub) (ch ik : N) (p : pos) (ttl : N) : hub :=
  let m := match aget N.eqb (h_idem h) ch with Some m => m | None => [] end in
  let t := if ttl =? 0 then 5 else ttl in
  set_idem h (aset N.eqb (h_idem h) ch (aset N.eqb m ik (p, h_now h + t))).

Definition cur_of (r : reason) (p : option pub) : option (N * N) :=
  match r, p with
  | RMismatch, Some q => Some (p_off q, p_data q)
  | _, _ => None
  end.

(* MemoryMapBroker.Publish.  Error codes: resolve's, 20 = CAS in ephemeral
   mode, 21 = version in ephemeral mode. *)
Definition publish (cfgs : list rawcfg) (h : hub) (ch : N) (k : key) (o : popts) : hub * ures :=
  match cfg_of cfgs ch with
  | CfgErr e => (h, UErr e)
  | CfgOk cf =>
    if is_ephemeral (cf_mode cf) && match po_exp o with Some _ => true | None => false end then (h, UErr 20) else
    if is_ephemeral (cf_mode cf) && (0 <? po_ver o) then (h, UErr 21) else
    match (if po_idem o =? 0 then None else idem_get h ch (po_idem o)) with
    | Some p => (h, URes p true RIdem None)
    | None =>
      let '(h1, p, pp, r, thepub) := add cf h ch k o in
      match r, thepub with
      | RNone, Some q =>
          let h2 := if po_idem o =? 0 then h1 else idem_save h1 ch (po_idem o) p (po_idemttl o) in
          (add_bcast h2 (mkBc ch q p (po_delta o) pp), URes p false RNone None)
      | _, _ => (h1, URes p true r (cur_of r pp))
      end
    end
  end.

(* ------------------------------------------------------------- remove *)
Definition hremove (cf : chcfg) (h : hub) (ch : N) (k : key) (o : ropts)
  : hub * pos * option pub * reason :=
  match get_chan h ch with
  | None => match ro_exp o with Some _ => (h, (0, 0), None, RMismatch) | None => (h, (0, 0), None, RKeyNotFound) end
  | Some c =>
    let cur := aget key_eqb (c_state c) k in
    let pos0 := chan_pos c in
    let cas := cas_check (snd pos0) (ro_exp o) cur in
    match cas with
    | Some cp => (h, pos0, cp, RMismatch)
    | None =>
      match cur with
      | None => (h, pos0, None, RKeyNotFound)
      | Some e =>
        let tags := match ro_tags o with Some t => Some t | None => p_tags (e_pub e) end in
        let mk := fun off => mkPub k off 0 tags true 0%Z in
        let c1 := set_state c (adel key_eqb (c_state c) k) in
        let h1 := set_exp h (adel ck_eqb (h_kexp h) (ch, k)) (h_queue h) (h_next h) in
        if has_stream (cf_mode cf) then
          let '(s', off) := stream_add (c_stream c1) mk (cf_size cf) in
          (ret_touch cf (set_chan h1 ch (set_stream c1 s')) ch, (off, s_epoch s'), Some (mk off), RNone)
        else (set_chan h1 ch c1, pos0, Some (mk 0), RNone)
      end
    end
  end.

Definition remove (cfgs : list rawcfg) (h : hub) (ch : N) (k : key) (o : ropts) : hub * ures :=
  match cfg_of cfgs ch with
  | CfgErr e => (h, UErr e)
  | CfgOk cf =>
    if is_ephemeral (cf_mode cf) && match ro_exp o with Some _ => true | None => false end then (h, UErr 20) else
    match (if ro_idem o =? 0 then None else idem_get h ch (ro_idem o)) with
    | Some p => (h, URes p true RIdem None)
    | None =>
      let '(h1, p, pp, r) := hremove cf h ch k o in
      match r, pp with
      | RNone, Some q =>
          let h2 := if ro_idem o =? 0 then h1 else idem_save h1 ch (ro_idem o) p (ro_idemttl o) in
          (add_bcast h2 (mkBc ch q p false None), URes p false RNone None)
      | _, _ => (h1, URes p true r (cur_of r pp))
      end
    end
  end.

(* -------------------------------------------------------------- clear *)
Definition clear (h : hub) (ch : N) : hub :=
  let h1 :=
    match get_chan h ch with
    | None => h
    | Some c =>
        let kexp := fold_left (fun m kv => adel ck_eqb m (ch, fst kv)) (c_state c) (h_kexp h) in
        let r := h_ret h in
        set_ret (set_chans (set_exp h kexp (h_queue h) (h_next h)) (adel N.eqb (h_chans h) ch))
                (mkRet (adel N.eqb (r_sexp r) ch) (r_squeue r) (r_snext r)
                       (adel N.eqb (r_rexp r) ch) (r_rqueue r) (r_rnext r))
    end in
  set_idem h1 (adel N.eqb (h_idem h1) ch).

(* --------------------------------------------------------- read stream *)
Inductive sres := SUnrec | SOk (pubs : list pub) (p : pos).

(* createStreamPosition on a missing channel *)
Definition create_chan (h : hub) (ch : N) : hub * pos :=
  (set_nep (set_chan h ch (new_chan (h_nep h) false)) (h_nep h + 1), (0, h_nep h)).

Definition mttl_of (cfgs : list rawcfg) (ch : N) : N :=
  match cfg_of cfgs ch with CfgOk cf => cf_mttl cf | CfgErr _ => 0 end.

Definition read_stream (cfgs : list rawcfg) (h0 : hub) (ch : N) (since : option pos) (limit : Z) (reverse : bool) : hub * sres :=
  let h := touch_meta h0 ch (mttl_of cfgs ch) in          (* updateMetaTTL, before anything else *)
  match get_chan h ch with
  | None => let '(h1, p) := create_chan h ch in (h1, SOk [] p)
  | Some c =>
    let s := c_stream c in
    let p := chan_pos c in
    match since with
    | None => if (limit =? 0)%Z then (h, SOk [] p) else (h, SOk (stream_get s 0 false limit reverse) p)
    | Some (so, se) =>
        if negb (se =? 0) && negb (se =? s_epoch s) then (h, SUnrec) else
        if negb reverse && (s_top s =? so) then (h, SOk [] p) else
        let off := if reverse then so - 1 else so + 1 in
        (h, SOk (stream_get s off true limit reverse) p)
    end
  end.

(* ---------------------------------------------------------- read state *)
(* strconv.FormatInt(_, 10) and strconv.ParseInt(_, 10, 64) (error ignored) *)
Fixpoint digits_fuel (fuel : nat) (n : N) (acc : list N) : list N :=
  match fuel with
  | O => acc
  | S f => let acc' := (48 + n mod 10) :: acc in
           if n / 10 =? 0 then acc' else digits_fuel f (n / 10) acc'
  end.
Definition digits (n : N) : list N := digits_fuel (S (N.to_nat (N.log2 n))) n [].
Definition format_int (z : Z) : list N :=
  if (z <? 0)%Z then 45 :: digits (Z.to_N (- z)) else digits (Z.to_N z).

Fixpoint parse_digits (l : list N) (acc : N) : option N :=
  match l with
  | [] => Some acc
  | c :: l' => if (48 <=? c) && (c <=? 57) then parse_digits l' (acc * 10 + (c - 48)) else None
  end.
Definition parse_uint (l : list N) : option N :=      (* None = syntax error *)
  match l with
  | [] => None
  | _ => match parse_digits l 0 with
         | Some n => Some (N.min n 18446744073709551615)
         | None => None
         end
  end.
Definition parse_int (l : list N) : Z :=
  match l with
  | [] => 0%Z
  | c :: l' =>
      let '(neg, body) := if c =? 43 then (false, l') else if c =? 45 then (true, l') else (false, l) in
      match parse_uint body with
      | None => 0%Z
      | Some un =>
          if negb neg && (9223372036854775808 <=? un) then 9223372036854775807%Z
          else if neg && (9223372036854775808 <? un) then (-9223372036854775808)%Z
          else if neg then (- Z.of_N un)%Z else Z.of_N un
      end
  end.

Definition make_ordered_cursor (score : Z) (k : key) : list N := format_int score ++ 0 :: k.
Fixpoint split_nul (c : list N) : option (list N * list N) :=
  match c with
  | [] => None
  | x :: c' => if x =? 0 then Some ([], c')
               else match split_nul c' with Some (a, b) => Some (x :: a, b) | None => None end
  end.
(* parseOrderedCursor: split at the first NUL; no NUL at all gives ("", "") *)
Definition parse_ordered_cursor (c : list N) : list N * list N :=
  match split_nul c with Some r => r | None => ([], []) end.

Definition score_of (st : list (key * entry)) (k : key) : Z :=
  match aget key_eqb st k with Some e => p_score (e_pub e) | None => 0%Z end.

(* the "less" of the sort.Slice call / sort.Strings *)
Definition key_less (ordered asc : bool) (st : list (key * entry)) (a b : key) : bool :=
  if ordered then
    let sa := score_of st a in let sb := score_of st b in
    if negb (sa =? sb)%Z then (if asc then (sa <? sb)%Z else (sb <? sa)%Z)
    else if asc then key_ltb a b else key_ltb b a
  else key_ltb a b.

Fixpoint insert_by (less : key -> key -> bool) (x : key) (l : list key) : list key :=
  match l with
  | [] => [x]
  | y :: l' => if less y x then y :: insert_by less x l' else x :: l
  end.
Fixpoint sort_by (less : key -> key -> bool) (l : list key) : list key :=
  match l with
  | [] => []
  | x :: l' => insert_by less x (sort_by less l')
  end.

(* sort.Search: first index whose element satisfies the predicate *)
Fixpoint search {A} (f : A -> bool) (l : list A) : nat :=
  match l with
  | [] => O
  | x :: l' => if f x then O else S (search f l')
  end.

Definition after_cursor (ordered asc : bool) (st : list (key * entry)) (cursor : list N) (k : key) : bool :=
  if ordered then
    let '(cs, ckey) := parse_ordered_cursor cursor in
    let cscore := parse_int cs in
    let s := score_of st k in
    if negb (s =? cscore)%Z then (if asc then (cscore <? s)%Z else (s <? cscore)%Z)
    else if asc then key_ltb ckey k else key_ltb k ckey
  else key_ltb cursor k.

Inductive stres :=
| StErr (code : N)                       (* configuration error *)
| StUnrec (p : pos)                      (* ErrorUnrecoverablePosition (+ position) *)
| StOk (pubs : list pub) (p : pos) (cursor : list N).

Definition pubs_of (st : list (key * entry)) (ks : list key) : list pub :=
  flat_map (fun k => match aget key_eqb st k with Some e => [e_pub e] | None => [] end) ks.

(* mapHub.getState on an existing channel, part 1: answers that do not need the
   sorted key list (revision check, single-key lookup, Limit = 0). *)
Definition state_pre (st : list (key * entry)) (p : pos) (rev : option pos) (limit : Z) (k : key) : option stres :=
  let bad_rev := match rev with Some (_, re) => negb (snd p =? re) | None => false end in
  if bad_rev then Some (StUnrec p) else
  if negb (is_empty k) then
    match aget key_eqb st k with
    | Some e => Some (StOk [e_pub e] p [])
    | None => Some (StOk [] p [])
    end
  else if (limit =? 0)%Z then Some (StOk [] p []) else None.

(* part 3: cursor search and page cut over the sorted keys *)
Definition state_page (ordered : bool) (st : list (key * entry)) (sorted : list key) (p : pos)
           (cursor : list N) (limit : Z) (asc : bool) : stres :=
  let total := length sorted in
  if Nat.eqb total 0 then StOk [] p [] else
  let start := if is_empty cursor then O
               else search (after_cursor ordered asc st cursor) sorted in
  if Nat.leb total start then StOk [] p [] else
  if (0 <? limit)%Z then
    let stop := Nat.min (start + Z.to_nat limit) total in
    let page := firstn (stop - start) (skipn start sorted) in
    let cur :=
      if Nat.ltb stop total then
        let lastk := last page [] in
        if ordered then make_ordered_cursor (score_of st lastk) lastk else lastk
      else [] in
    StOk (pubs_of st page) p cur
  else StOk (pubs_of st (skipn start sorted)) p [].

Definition sorted_keys (ordered asc : bool) (st : list (key * entry)) : list key :=
  sort_by (key_less ordered asc st) (map fst st).

(* part 2: the sortedKeys cache *)
Definition refresh_cache (c : mchan) (asc : bool) : mchan :=
  let want_ord := c_ordered c in
  let rebuild :=
    c_dirty c || negb (Nat.eqb (length (c_sorted c)) (length (c_state c))) ||
    negb (Bool.eqb (c_lastord c) want_ord) || (want_ord && negb (Bool.eqb (c_lastasc c) asc)) in
  if rebuild
  then mkChan (c_stream c) (c_state c) (c_ordered c) (sorted_keys want_ord asc (c_state c)) false want_ord asc
  else c.

Definition get_state_chan (c : mchan) (rev : option pos) (cursor : list N) (limit : Z) (k : key) (asc : bool)
  : mchan * stres :=
  match state_pre (c_state c) (chan_pos c) rev limit k with
  | Some r => (c, r)
  | None =>
      let c1 := refresh_cache c asc in
      (c1, state_page (c_ordered c) (c_state c) (c_sorted c1) (chan_pos c) cursor limit asc)
  end.

Definition read_state (cfgs : list rawcfg) (h : hub) (ch : N)
           (rev : option pos) (cursor : list N) (limit : Z) (k : key) (asc : bool) : hub * stres :=
  match cfg_of cfgs ch with
  | CfgErr e => (h, StErr e)
  | CfgOk cf0 =>
    let h := touch_meta h ch (cf_mttl cf0) in             (* updateMetaTTL *)
    match get_chan h ch with
    | None =>
        let '(h1, p) := create_chan h ch in
        match rev with
        | Some (_, re) => if negb (re =? 0) then (h1, StUnrec p) else (h1, StOk [] p [])
        | None => (h1, StOk [] p [])
        end
    | Some c =>
        let '(c1, r) := get_state_chan c rev cursor limit k asc in
        (set_chan h ch c1, r)
    end
  end.

(* ------------------------------------------------------- expiry sweep *)
Definition ck_ltb (a b : ck) : bool :=
  if fst a <? fst b then true else if fst b <? fst a then false else key_ltb (snd a) (snd b).
Definition item_ltb (a b : ck * N) : bool :=
  if snd a <? snd b then true else if snd b <? snd a then false else ck_ltb (fst a) (fst b).

(* heap.Pop by meaning: a minimal item and the rest *)
Fixpoint pop_min (q : list (ck * N)) : option ((ck * N) * list (ck * N)) :=
  match q with
  | [] => None
  | x :: q' =>
      match pop_min q' with
      | None => Some (x, [])
      | Some (m, r) => if item_ltb m x then Some (m, x :: r) else Some (x, q')
      end
  end.

Definition set_queue (h : hub) (q : list (ck * N)) : hub := set_exp h (h_kexp h) q (h_next h).
Definition set_kexp (h : hub) (m : list (ck * N)) : hub := set_exp h m (h_queue h) (h_next h).

(* the Phase-1 loop.  Result: hub, collected events, *nextKeyExpireCheck, and
   whether the loop ended by itself (false = the model's fuel ran out, which
   Proofs/MapExpiry.v excludes). *)
Fixpoint p1_loop (cfgs : list rawcfg) (fuel : nat) (h : hub) (now : N) (acc : list event)
  : hub * list event * N * bool :=
  match fuel with
  | O => (h, acc, 0, false)
  | S f =>
    match pop_min (h_queue h) with
    | None => (h, acc, 0, true)
    | Some ((k, d), q') =>
      if now <? d then (h, acc, d, true) else
      let h1 := set_queue h q' in
      match aget ck_eqb (h_kexp h1) k with
      | None => p1_loop cfgs f h1 now acc
      | Some stored =>
        if d <? stored then p1_loop cfgs f (set_queue h1 ((k, stored) :: q')) now acc else
        if is_empty (snd k) then p1_loop cfgs f (set_kexp h1 (adel ck_eqb (h_kexp h1) k)) now acc else
        match get_chan h1 (fst k) with
        | None => p1_loop cfgs f (set_kexp h1 (adel ck_eqb (h_kexp h1) k)) now acc
        | Some c =>
          match aget key_eqb (c_state c) (snd k) with
          | None => p1_loop cfgs f (set_kexp h1 (adel ck_eqb (h_kexp h1) k)) now acc
          | Some e =>
            if negb (e_exp e =? d) then
              if now <? e_exp e
              then p1_loop cfgs f (set_exp h1 (aset ck_eqb (h_kexp h1) k (e_exp e)) ((k, e_exp e) :: q') (h_next h1)) now acc
              else p1_loop cfgs f h1 now acc
            else
              let size := match cfg_of cfgs (fst k) with
                          | CfgOk cf => if has_stream (cf_mode cf) then cf_size cf else 0
                          | CfgErr _ => 0
                          end in
              p1_loop cfgs f h1 now (acc ++ [mkEv (fst k) (snd k) d (p_tags (e_pub e)) size])
          end
        end
      end
    end
  end.

Fixpoint min_prio (q : list (ck * N)) : N :=
  match q with
  | [] => 0
  | [x] => snd x
  | x :: q' => N.min (snd x) (min_prio q')
  end.

(* Phase 1 of expireKeysIteration (one hub-lock section). *)
Definition phase1 (cfgs : list rawcfg) (h : hub) : hub * bool :=
  if (h_next h =? 0) || (h_now h <? h_next h) then (h, true) else
  let now := h_now h in
  let '(h1, evs, next, ok) := p1_loop cfgs (2 * length (h_queue h) + 1) h now [] in
  let '(q2, next2) :=
    if Nat.ltb (2 * length (h_kexp h1) + 100) (length (h_queue h1))
    then (h_kexp h1, match h_kexp h1 with [] => next | _ => min_prio (h_kexp h1) end)
    else (h_queue h1, next) in
  (set_pend (set_exp h1 (h_kexp h1) q2 next2) evs now, ok).

(* Phase 2 for one candidate (one pubLock(ch) -> hub-lock section + dispatch). *)
Definition phase2_one (h : hub) (ev : event) : hub :=
  match get_chan h (ev_ch ev) with
  | None => h
  | Some c =>
    match aget key_eqb (c_state c) (ev_key ev) with
    | None => h
    | Some e =>
      let k := (ev_ch ev, ev_key ev) in
      if e_exp e =? ev_exp ev then
        let c1 := set_state c (adel key_eqb (c_state c) (ev_key ev)) in
        let h1 := set_kexp h (adel ck_eqb (h_kexp h) k) in
        let mk := fun off => mkPub (ev_key ev) off 0 (ev_tags ev) true 0%Z in
        if 0 <? ev_size ev then
          let '(s', off) := stream_add (c_stream c1) mk (ev_size ev) in
          add_bcast (set_chan h1 (ev_ch ev) (set_stream c1 s'))
                    (mkBc (ev_ch ev) (mk off) (off, s_epoch s') false None)
        else
          add_bcast (set_chan h1 (ev_ch ev) c1) (mkBc (ev_ch ev) (mk 0) (chan_pos c1) false None)
      else if h_pnow h <? e_exp e then
        set_exp h (aset ck_eqb (h_kexp h) k (e_exp e)) ((k, e_exp e) :: h_queue h)
                (if (h_next h =? 0) || (e_exp e <? h_next h) then e_exp e else h_next h)
      else h
    end
  end.

Definition phase2 (h : hub) : option hub :=
  match h_pend h with
  | [] => None
  | ev :: rest => Some (phase2_one (set_pend h rest (h_pnow h)) ev)
  end.

Fixpoint phase2_all (fuel : nat) (h : hub) : hub :=
  match fuel with
  | O => h
  | S f => match phase2 h with Some h' => phase2_all f h' | None => h end
  end.

(* ------------------------------------------ StreamTTL / MetaTTL sweeps *)
Definition item2_ltb (a b : N * N) : bool :=
  if snd a <? snd b then true else if snd b <? snd a then false else fst a <? fst b.
Fixpoint pop_min2 (q : list (N * N)) : option ((N * N) * list (N * N)) :=
  match q with
  | [] => None
  | x :: q' =>
      match pop_min2 q' with
      | None => Some (x, [])
      | Some (m, r) => if item2_ltb m x then Some (m, x :: r) else Some (x, q')
      end
  end.

(* the loop shared by expireStreams and removeChannels: pops due items,
   re-queues channels whose recorded deadline is later, and returns the
   channels whose deadline has passed ("fired"), the remaining map / queue and
   the next check time.  The last component is false iff the model's fuel ran
   out (never, see Proofs/MapRetention.v). *)
Fixpoint ttl_loop (fuel : nat) (m q : list (N * N)) (now : N) (fired : list N)
  : list (N * N) * list (N * N) * list N * N * bool :=
  match fuel with
  | O => (m, q, fired, 0, false)
  | S f =>
    match pop_min2 q with
    | None => (m, q, fired, 0, true)
    | Some ((ch, e), q') =>
      if now <? e then (m, q, fired, e, true) else
      match aget N.eqb m ch with
      | None => ttl_loop f m q' now fired
      | Some exp => if exp <=? e then ttl_loop f (adel N.eqb m ch) q' now (fired ++ [ch])
                    else ttl_loop f m ((ch, exp) :: q') now fired
      end
    end
  end.

Definition clear_stream (h : hub) (ch : N) : hub :=          (* Stream.Clear: top and epoch stay *)
  match get_chan h ch with
  | Some c => set_chan h ch (set_stream c (mkStream (s_top (c_stream c)) (s_epoch (c_stream c)) []))
  | None => h
  end.

(* one iteration of mapHub.expireStreams (one hub-lock section) *)
Definition expire_streams (h : hub) : hub * bool :=
  let r := h_ret h in
  if (r_snext r =? 0) || (h_now h <? r_snext r) then (h, true) else
  let '(m, q, fired, next, ok) := ttl_loop (2 * length (r_squeue r) + 1) (r_sexp r) (r_squeue r) (h_now h) [] in
  (fold_left clear_stream fired (set_ret h (mkRet m q next (r_rexp r) (r_rqueue r) (r_rnext r))), ok).

(* one iteration of mapHub.removeChannels: the channel object is discarded
   (its keyExpires / expires / idempotency entries are left behind) *)
Definition remove_channels (h : hub) : hub * bool :=
  let r := h_ret h in
  if (r_rnext r =? 0) || (h_now h <? r_rnext r) then (h, true) else
  let '(m, q, fired, next, ok) := ttl_loop (2 * length (r_rqueue r) + 1) (r_rexp r) (r_rqueue r) (h_now h) [] in
  let h1 := set_ret h (mkRet (r_sexp r) (r_squeue r) (r_snext r) m q next) in
  (set_chans h1 (fold_left (fun cs ch => adel N.eqb cs ch) fired (h_chans h1)), ok).

(* -------------------------------------------------- operations / labels *)
Inductive op :=
| OPublish (ch : N) (k : key) (o : popts)
| ORemove (ch : N) (k : key) (o : ropts)
| OClear (ch : N)
| OReadState (ch : N) (rev : option pos) (cursor : list N) (limit : Z) (k : key) (asc : bool)
| OReadStream (ch : N) (since : option pos) (limit : Z) (reverse : bool)
| OAdvance (n : N)
| OPhase1            (* enabled when no sweep is in flight *)
| OPhase2            (* enabled when a candidate is pending *)
| OSweep             (* a whole uninterrupted expireKeysIteration *)
| OExpireStreams     (* one iteration of the StreamTTL sweeper *)
| ORemoveChannels.   (* one iteration of the MetaTTL sweeper *)

Inductive res :=
| RUpd (u : ures) | RState (r : stres) | RStream (r : sres) | RUnit
| RBlocked           (* label not enabled *)
| RFuel.             (* model fuel exhausted (never, see Proofs) *)

Definition step (cfgs : list rawcfg) (h : hub) (o : op) : hub * res :=
  match o with
  | OPublish ch k po => let '(h', u) := publish cfgs h ch k po in (h', RUpd u)
  | ORemove ch k ro => let '(h', u) := remove cfgs h ch k ro in (h', RUpd u)
  | OClear ch => (clear h ch, RUnit)
  | OReadState ch rev cur lim k asc => let '(h', r) := read_state cfgs h ch rev cur lim k asc in (h', RState r)
  | OReadStream ch since lim rv => let '(h', r) := read_stream cfgs h ch since lim rv in (h', RStream r)
  | OAdvance n => (set_now h (h_now h + n), RUnit)
  | OPhase1 =>
      match h_pend h with
      | [] => let '(h', ok) := phase1 cfgs h in (h', if ok then RUnit else RFuel)
      | _ => (h, RBlocked)
      end
  | OPhase2 => match phase2 h with Some h' => (h', RUnit) | None => (h, RBlocked) end
  | OSweep =>
      match h_pend h with
      | [] => let '(h', ok) := phase1 cfgs h in
              (phase2_all (length (h_pend h')) h', if ok then RUnit else RFuel)
      | _ => (h, RBlocked)
      end
  | OExpireStreams => let '(h', ok) := expire_streams h in (h', if ok then RUnit else RFuel)
  | ORemoveChannels => let '(h', ok) := remove_channels h in (h', if ok then RUnit else RFuel)
  end.

Fixpoint run (cfgs : list rawcfg) (h : hub) (ops : list op) : hub * list res :=
  match ops with
  | [] => (h, [])
  | o :: ops' => let '(h1, r) := step cfgs h o in
                 let '(h2, rs) := run cfgs h1 ops' in (h2, r :: rs)
  end.
