(* Shallow (hand-written Gallina) versions of the five Lua scripts of the stream
   broker, over the same Redis model (Model/Redis.v) and the same number /
   string conversion functions (Model/LuaNum.v) as the interpreter.  These are
   what the C18 theorems are proved about; their agreement with the interpreted
   AST of the real scripts (Gen/LuaScripts.v through Model/Lua.v) is CHECKED BY
   EVALUATION on every run (Harness/C18.v: every script call of every explored
   case is executed both ways from the same state and compared: reply and
   resulting state) -- that tie is testing, not proof.
   Branches that cannot be reached from well-formed KEYS/ARGV built by
   broker_redis.go (e.g. a non-numeric "v" field) answer an explicit
   "SHALLOW-UNREACHABLE" error so that a disagreement is visible. *)
From Coq Require Import List NArith ZArith Bool String Ascii.
From Cfg Require Import Model.RStr Model.LuaNum Model.Redis.
Import ListNotations.
Open Scope string_scope.

(* script monad: state + early exit (return or error) *)
Definition M (A : Type) := rstate -> rstate * (A + reply).
Definition ret {A} (a : A) : M A := fun st => (st, inl a).
Definition finish {A} (r : reply) : M A := fun st => (st, inr r).
Definition bindM {A B} (m : M A) (f : A -> M B) : M B :=
  fun st => match m st with
            | (st', inl a) => f a st'
            | (st', inr r) => (st', inr r)
            end.
Notation "'dom' x <- m ;; f" := (bindM m (fun x => f)) (at level 200, x pattern, m at level 100, f at level 200).

(* redis.call: an error reply aborts the script *)
Definition rc (args : list string) : M reply :=
  fun st => let '(st', r) := redis_call st args in
            match r with RErr m => (st', inr (RErr m)) | _ => (st', inl r) end.

Definition runM (m : M reply) (st : rstate) : rstate * reply :=
  match m st with (st', inl r) => (st', r) | (st', inr r) => (st', r) end.

Definition unreachable {A} : M A := finish (RErr "SHALLOW-UNREACHABLE").
Definition arg (l : list string) (i : nat) : string := nth i l "".
Definition when_ (b : bool) (m : M reply) : M unit := if b then (dom _ <- m ;; ret tt) else ret tt.
Definition num_arg (z : Z) : M string :=
  match redis_arg_of_num z with Some s => ret s | None => unreachable end.

(* value of field "d" in a flat field/value list (the scripts' for-loop) *)
Fixpoint find_d (fv : list reply) : option string :=
  match fv with
  | RBulk f :: RBulk v :: r => if String.eqb f "d" then Some v else find_d r
  | _ => None
  end.

(* the idempotency pre-check shared by three scripts: Some (offset reply, epoch) on a hit *)
Definition cached_result (result_key rexp : string) : M (option (reply * string)) :=
  if String.eqb rexp "" then ret None else
  dom r <- rc ["hmget"; result_key; "e"; "s"] ;;
  match r with
  | RArr [RBulk re; ro] => ret (Some (ro, re))
  | RArr [RNil; _] => ret None
  | _ => unreachable
  end.

(* hget meta e, creating it from the nonce when missing *)
Definition current_epoch (meta_key nonce : string) : M string :=
  dom ce <- rc ["hget"; meta_key; "e"] ;;
  match ce with
  | RBulk s => ret s
  | RNil => dom _ <- rc ["hset"; meta_key; "e"; nonce] ;; ret nonce
  | _ => unreachable
  end.

Definition p1_payload (top : Z) (epoch msg : string) : string :=
  "__" ++ "p1:" ++ lua_num2str top ++ ":" ++ epoch ++ "__" ++ msg.
Definition d1_payload (top : Z) (epoch prev msg : string) : string :=
  "__" ++ "d1:" ++ lua_num2str top ++ ":" ++ epoch ++ ":" ++ lua_num2str (Z.of_N (slen prev)) ++ ":" ++ prev
       ++ ":" ++ lua_num2str (Z.of_N (slen msg)) ++ ":" ++ msg.

Definition save_result (result_key rexp epoch : string) (top : Z) : M unit :=
  if String.eqb rexp "" then ret tt else
  dom tops <- num_arg top ;;
  dom _ <- rc ["hset"; result_key; "e"; epoch; "s"; tops] ;;
  dom _ <- rc ["expire"; result_key; rexp] ;;
  ret tt.

(* ---------------- broker_history_add_stream.lua ---------------- *)
Definition sh_add_stream (K A : list string) : M reply :=
  let stream_key := arg K 0 in let meta_key := arg K 1 in let result_key := arg K 2 in
  let msg := arg A 0 in let size := arg A 1 in let ttl := arg A 2 in let channel := arg A 3 in
  let meta_expire := arg A 4 in let nonce := arg A 5 in let pubcmd := arg A 6 in let rexp := arg A 7 in
  let use_delta := arg A 8 in let version := arg A 9 in let vepoch := arg A 10 in
  dom c <- cached_result result_key rexp ;;
  match c with
  | Some (ro, re) => finish (RArr [ro; RBulk re; RBulk "1"; RBulk "0"])
  | None =>
  dom epoch <- current_epoch meta_key nonce ;;
  dom _ <- (if String.eqb version "0" then ret tt else
        dom pv <- rc ["hmget"; meta_key; "v"; "ve"; "s"] ;;
        match pv with
        | RArr [pver; pve; cur] =>
            dom _ <- match pver with
                 | RBulk pvs =>
                     let epoch_ok := (String.eqb vepoch "" ||
                                      match pve with RBulk s => String.eqb vepoch s | _ => false end)%bool in
                     if epoch_ok then
                       match str2number pvs, str2number version with
                       | TNum a, TNum b =>
                           if (b <=? a)%Z then
                             match cur with
                             | RBulk cs => match str2number cs with
                                           | TNum o => finish (RArr [RInt o; RBulk epoch; RBulk "0"; RBulk "1"])
                                           | _ => unreachable
                                           end
                             | _ => finish (RArr [RInt 0; RBulk epoch; RBulk "0"; RBulk "1"])
                             end
                           else ret tt
                       | _, _ => unreachable
                       end
                     else ret tt
                 | _ => ret tt
                 end ;;
            dom _ <- rc ["hset"; meta_key; "v"; version; "ve"; vepoch] ;; ret tt
        | _ => unreachable
        end) ;;
  dom topr <- rc ["hincrby"; meta_key; "s"; "1"] ;;
  match topr with
  | RInt topz =>
      let top := round53 topz in
      dom _ <- when_ (negb (String.eqb meta_expire "0")) (rc ["expire"; meta_key; meta_expire]) ;;
      dom prev <- (if (String.eqb use_delta "1" && negb (top =? 1)%Z)%bool then
                 dom pe <- rc ["xrevrange"; stream_key; "+"; "-"; "COUNT"; "1"] ;;
                 match pe with
                 | RArr [] => ret ""
                 | RArr (RArr [_; RArr fv] :: _) =>
                     match find_d fv with Some v => ret v | None => unreachable end
                 | _ => unreachable
                 end
               else ret "") ;;
      dom prev <- (if (top =? 1)%Z then dom _ <- rc ["del"; stream_key] ;; ret "" else ret prev) ;;
      dom tops <- num_arg top ;;
      dom _ <- rc ["xadd"; stream_key; "MAXLEN"; size; tops; "d"; msg] ;;
      dom _ <- rc ["expire"; stream_key; ttl] ;;
      dom _ <- when_ (negb (String.eqb channel ""))
             (rc [pubcmd; channel;
                  if String.eqb use_delta "1" then d1_payload top epoch prev msg else p1_payload top epoch msg]) ;;
      dom _ <- save_result result_key rexp epoch top ;;
      finish (RArr [RInt top; RBulk epoch; RBulk "0"; RBulk "0"])
  | _ => unreachable
  end
  end.

(* ---------------- broker_history_add_list.lua ---------------- *)
Definition sh_add_list (K A : list string) : M reply :=
  let list_key := arg K 0 in let meta_key := arg K 1 in let result_key := arg K 2 in
  let msg := arg A 0 in let rbound := arg A 1 in let ttl := arg A 2 in let channel := arg A 3 in
  let meta_expire := arg A 4 in let nonce := arg A 5 in let pubcmd := arg A 6 in let rexp := arg A 7 in
  let use_delta := arg A 8 in
  dom c <- cached_result result_key rexp ;;
  match c with
  | Some (ro, re) => finish (RArr [ro; RBulk re; RBulk "1"])
  | None =>
  dom epoch <- current_epoch meta_key nonce ;;
  dom topr <- rc ["hincrby"; meta_key; "s"; "1"] ;;
  match topr with
  | RInt topz =>
      let top := round53 topz in
      dom _ <- when_ (negb (String.eqb meta_expire "0")) (rc ["expire"; meta_key; meta_expire]) ;;
      dom prev <- (if String.eqb use_delta "1" then
                 dom p <- rc ["lindex"; list_key; "0"] ;;
                 match p with RBulk s => ret s | RNil => ret "" | _ => unreachable end
               else ret "") ;;
      let payload := p1_payload top epoch msg in
      dom _ <- rc ["lpush"; list_key; payload] ;;
      dom _ <- rc ["ltrim"; list_key; "0"; rbound] ;;
      dom _ <- rc ["expire"; list_key; ttl] ;;
      dom _ <- when_ (negb (String.eqb channel ""))
             (rc [pubcmd; channel;
                  if String.eqb use_delta "1" then d1_payload top epoch prev msg else payload]) ;;
      dom _ <- save_result result_key rexp epoch top ;;
      finish (RArr [RInt top; RBulk epoch; RBulk "0"])
  | _ => unreachable
  end
  end.

(* meta part shared by the two history scripts: (top_offset reply, epoch) *)
Definition history_meta (meta_key meta_expire nonce : string) : M (reply * string) :=
  dom m <- rc ["hmget"; meta_key; "e"; "s"] ;;
  match m with
  | RArr [me; ms] =>
      dom r <- match me with
           | RBulk e => ret (match ms with RNil => RInt 0 | _ => ms end, e)
           | RNil => dom _ <- rc ["hset"; meta_key; "e"; nonce] ;; ret (RInt 0, nonce)
           | _ => unreachable
           end ;;
      dom _ <- when_ (negb (String.eqb meta_expire "0")) (rc ["expire"; meta_key; meta_expire]) ;;
      ret r
  | _ => unreachable
  end.

(* a value used as a redis.call argument: string as is, number through ll2string *)
Definition arg_of_reply (r : reply) : M string :=
  match r with RBulk s => ret s | RInt z => num_arg (round53 z) | _ => unreachable end.

(* ---------------- broker_history_stream.lua ---------------- *)
Definition sh_history_stream (K A : list string) : M reply :=
  let stream_key := arg K 0 in let meta_key := arg K 1 in
  let include := arg A 0 in let since := arg A 1 in let limit := arg A 2 in let reverse := arg A 3 in
  let meta_expire := arg A 4 in let nonce := arg A 5 in
  dom tm <- history_meta meta_key meta_expire nonce ;;
  let '(top, epoch) := tm in
  if String.eqb include "0" then finish (RArr [top; RBulk epoch]) else
  let cnt := if String.eqb limit "0" then [] else ["COUNT"; limit] in
  dom pubs <- (if String.eqb reverse "0" then rc (["xrange"; stream_key; since; "+"] ++ cnt)%list
           else
             dom from <- (if String.eqb since "0" then arg_of_reply top else ret since) ;;
             rc (["xrevrange"; stream_key; from; "-"] ++ cnt)%list) ;;
  finish (RArr [top; RBulk epoch; pubs]).

(* ---------------- broker_history_list.lua ---------------- *)
Definition sh_history_list (K A : list string) : M reply :=
  let list_key := arg K 0 in let meta_key := arg K 1 in
  let include := arg A 0 in let rbound := arg A 1 in let meta_expire := arg A 2 in let nonce := arg A 3 in
  dom tm <- history_meta meta_key meta_expire nonce ;;
  let '(top, epoch) := tm in
  if String.eqb include "0" then finish (RArr [top; RBulk epoch]) else
  dom pubs <- rc ["lrange"; list_key; "0"; rbound] ;;
  finish (RArr [top; RBulk epoch; pubs]).

(* ---------------- broker_publish_idempotent.lua ---------------- *)
Definition sh_publish_idempotent (K A : list string) : M reply :=
  let result_key := arg K 0 in
  let payload := arg A 0 in let channel := arg A 1 in let pubcmd := arg A 2 in let rexp := arg A 3 in
  dom c <- cached_result result_key rexp ;;
  match c with
  | Some (ro, re) => finish (RArr [ro; RBulk re])
  | None =>
      dom res <- (if String.eqb channel "" then ret RNil else rc [pubcmd; channel; payload]) ;;
      dom _ <- (if String.eqb rexp "" then ret tt else
            dom _ <- rc ["hset"; result_key; "e"; ""] ;;
            dom _ <- rc ["expire"; result_key; rexp] ;; ret tt) ;;
      finish (match res with RInt z => RInt (round53 z) | _ => RNil end)
  end.

(* the five scripts as one record, so that the broker model can be run with the
   shallow versions (theorems) or with the interpreted real scripts (tie) *)
Record scripts := mkScripts {
  s_add_stream : list string -> list string -> rstate -> rstate * reply;
  s_add_list : list string -> list string -> rstate -> rstate * reply;
  s_history_stream : list string -> list string -> rstate -> rstate * reply;
  s_history_list : list string -> list string -> rstate -> rstate * reply;
  s_publish_idempotent : list string -> list string -> rstate -> rstate * reply
}.

Definition shallow : scripts :=
  mkScripts (fun K A => runM (sh_add_stream K A)) (fun K A => runM (sh_add_list K A))
            (fun K A => runM (sh_history_stream K A)) (fun K A => runM (sh_history_list K A))
            (fun K A => runM (sh_publish_idempotent K A)).
