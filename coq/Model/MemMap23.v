(* Compact model of /repo/map_broker_memory.go for C23 (MemoryMapBroker.Publish /
   Remove / ReadState / ReadStream / Clear, mapHub.add / remove / getState /
   getStream / clear, the idempotency result cache) in the string-based vocabulary
   of Model/MapApi23.v, so that it can be related to the Redis-side model directly.
   Branch by branch from the Go code (cross-read against Model/MapHub.v, the C20/21/24
   model of the same code).  Key TTL: per-key deadlines (keyExpires) and the sweep
   expireKeysIteration (MCleanup) are modelled; StreamTTL / MetaTTL sweeps are not (runs use
   TTLs far beyond their length);
   epoch.Generate() = the nonce carried by the operation. *)
From Coq Require Import List NArith ZArith Bool String.
From Cfg Require Import Model.RStr Model.Redis Model.MapApi23.
Import ListNotations.
Open Scope string_scope.
Open Scope N_scope.

Record mentry := mkME { me_off : N; me_data : string; me_score : Z; me_ver : N; me_vep : string }.

Record mchan := mkMCh {
  ch_top : N; ch_epoch : string;
  ch_items : list tpub;                       (* stream, oldest first *)
  ch_state : list (string * mentry)
}.

Record mmstate := mkMM {
  mm_chans : list (string * mchan);
  mm_idem : list (string * (N * string * N));  (* "ch\000key" -> (offset, epoch, expireAt ms) *)
  mm_now : N;
  mm_exp : list (string * N)                   (* keyExpires: "ch\000key" -> expireAt ms *)
}.
Definition mm_init : mmstate := mkMM [] [] 0 [].

Definition new_chan (epoch : string) : mchan := mkMCh 0 epoch [] [].
Definition set_chan (m : mmstate) (ch : string) (c : mchan) : mmstate :=
  mkMM (sput ch c (mm_chans m)) (mm_idem m) (mm_now m) (mm_exp m).
Definition chan_pos (c : mchan) : N * string := (ch_top c, ch_epoch c).

(* ---------- memstream ---------- *)
Definition off_of (p : tpub) : N := fst (fst (fst p)).

Definition stream_add (c : mchan) (mk : N -> tpub) (size : Z) : mchan * N :=
  let off := ch_top c + 1 in
  let items := (ch_items c ++ [mk off])%list in
  (mkMCh off (ch_epoch c) (skipn (List.length items - Z.to_nat size) items) (ch_state c), off).

Fixpoint index_of (off : N) (l : list tpub) (i : nat) : option nat :=
  match l with
  | [] => None
  | p :: r => if off_of p =? off then Some i else index_of off r (S i)
  end.

Definition take_lim {A} (limit : Z) (l : list A) : list A :=
  if (limit <? 0)%Z then l else firstn (Z.to_nat limit) l.

Definition stream_get (c : mchan) (offset : N) (use_offset : bool) (limit : Z) (reverse : bool) : list tpub :=
  if (use_offset && (ch_top c + 1 <=? offset))%bool then [] else
  let items := ch_items c in
  let el : option nat :=
    if use_offset then
      match index_of offset items 0 with
      | Some i => Some i
      | None => if reverse then None else match items with [] => None | _ => Some O end
      end
    else match items with
         | [] => None
         | _ => Some (if reverse then (List.length items - 1)%nat else O)
         end in
  match el with
  | None => []
  | Some i =>
      if (limit =? 0)%Z then []
      else if reverse then take_lim limit (rev (firstn (S i) items))
      else take_lim limit (skipn i items)
  end.

(* ---------- idempotency cache ---------- *)
Definition idem_key (ch k : string) : string := ch ++ String (Ascii.ascii_of_nat 0) k.
Definition idem_get (m : mmstate) (ch k : string) : option (N * string) :=
  match sfind (idem_key ch k) (mm_idem m) with
  | Some (off, ep, exp) => if exp <=? mm_now m then None else Some (off, ep)
  | None => None
  end.
Definition idem_save (m : mmstate) (ch k : string) (pos : N * string) (ttl : Z) : mmstate :=
  if String.eqb k "" then m else
  let t := if (ttl =? 0)%Z then default_idem_ms else ttl in
  mkMM (mm_chans m) (sput (idem_key ch k) (fst pos, snd pos, Z.to_N (Z.of_N (mm_now m) + t)) (mm_idem m)) (mm_now m) (mm_exp m).

(* ---------- mapHub.add ---------- *)
Definition cas_check (epoch : string) (exp : option (N * string)) (cur : option mentry) : option (option (N * string)) :=
  match exp with
  | None => None
  | Some (eo, ee) =>
      match cur with
      | None => Some None
      | Some e => if (negb (me_off e =? eo) || negb (String.eqb epoch ee))%bool
                  then Some (Some (me_off e, me_data e)) else None
      end
  end.

Definition hub_add (cf : mcfg) (m : mmstate) (ch key : string) (o : mpopts) (nonce : string) : mmstate * mres :=
  let '(m1, c) := match sfind ch (mm_chans m) with
                  | Some c => (m, c)
                  | None => let c := new_chan nonce in (set_chan m ch c, c)
                  end in
  let cur := sfind key (ch_state c) in
  let pos0 := chan_pos c in
  let keyed := negb (String.eqb key "") in
  (* 1. version *)
  if (has_stream cf && keyed && (0 <? mp_ver o) &&
      match cur with
      | Some e => (String.eqb (mp_vep o) "" || String.eqb (mp_vep o) (me_vep e)) && (mp_ver o <=? me_ver e)
      | None => false
      end)%bool
  then (m1, MUpd (fst pos0) (snd pos0) true "version" None) else
  (* 2. key mode (the RefreshTTLOnSuppress keep-alive only touches expiry bookkeeping) *)
  match (if keyed then
           match cur with
           | Some _ => if String.eqb (mp_mode o) "if_new" then Some "key_exists" else None
           | None => if String.eqb (mp_mode o) "if_exists" then Some "key_not_found" else None
           end
         else None) with
  | Some r => (m1, MUpd (fst pos0) (snd pos0) true r None)
  | None =>
  (* 3. CAS *)
  match (if keyed then cas_check (snd pos0) (mp_exp o) cur else None) with
  | Some cp => (m1, MUpd (fst pos0) (snd pos0) true "position_mismatch" cp)
  | None =>
      let '(c1, p) :=
        if has_stream cf then
          let '(c', off) := stream_add c (fun off => (off, key, mp_data o, false)) (mc_size cf) in (c', (off, ch_epoch c'))
        else (c, pos0) in
      if negb keyed then (set_chan m1 ch c1, MUpd (fst p) (snd p) false "" None) else
      let '(ver, vep) :=
        if mp_ver o =? 0 then match cur with Some e => (me_ver e, me_vep e) | None => (0, mp_vep o) end
        else (mp_ver o, mp_vep o) in
      let c2 := mkMCh (ch_top c1) (ch_epoch c1) (ch_items c1)
                      (sput key (mkME (fst p) (mp_data o) (mp_score o) ver vep) (ch_state c1)) in
      (set_chan m1 ch c2, MUpd (fst p) (snd p) false "" None)
  end end.

(* keyExpires bookkeeping of mapHub.add: a stored key gets the deadline now + KeyTTL, and so does an
   existing key whose KeyModeIfNew publish was suppressed with RefreshTTLOnSuppress *)
Definition set_exp (m : mmstate) (ch key : string) (at_ : N) : mmstate :=
  mkMM (mm_chans m) (mm_idem m) (mm_now m) (sput (idem_key ch key) at_ (mm_exp m)).
Definition del_exp (m : mmstate) (ch key : string) : mmstate :=
  mkMM (mm_chans m) (mm_idem m) (mm_now m) (sdel (idem_key ch key) (mm_exp m)).
Definition touch_exp (cf : mcfg) (m : mmstate) (ch key : string) (o : mpopts) (now : N) (r : mres) : mmstate :=
  if ((0 <? mc_keyttl cf)%Z && negb (String.eqb key ""))%bool then
    match r with
    | MUpd _ _ false _ _ => set_exp m ch key (now + Z.to_N (mc_keyttl cf))
    | MUpd _ _ true reason _ =>
        if (String.eqb reason "key_exists" && mp_refresh o)%bool then set_exp m ch key (now + Z.to_N (mc_keyttl cf)) else m
    | _ => m
    end
  else m.

Definition mm_publish (cf : mcfg) (m : mmstate) (ch key : string) (o : mpopts) (nonce : string) (now : N) : mmstate * mres :=
  if (is_ephemeral cf && (match mp_exp o with Some _ => true | None => false end || (0 <? mp_ver o)))%bool then (m, MErr) else
  match (if String.eqb (mp_idem o) "" then None else idem_get m ch (mp_idem o)) with
  | Some (off, ep) => (m, MUpd off ep true "idempotency" None)
  | None =>
      let '(m1, r) := hub_add cf m ch key o nonce in
      let m2 := touch_exp cf m1 ch key o now r in
      match r with
      | MUpd off ep false _ _ => (idem_save m2 ch (mp_idem o) (off, ep) (mp_idemttl o), r)
      | _ => (m2, r)
      end
  end.

(* ---------- mapHub.remove ---------- *)
Definition hub_remove (cf : mcfg) (m : mmstate) (ch key : string) (o : mropts) : mmstate * mres :=
  match sfind ch (mm_chans m) with
  | None => (m, MUpd 0 "" true (match mr_exp o with Some _ => "position_mismatch" | None => "key_not_found" end) None)
  | Some c =>
      let cur := sfind key (ch_state c) in
      let pos0 := chan_pos c in
      match cas_check (snd pos0) (mr_exp o) cur with
      | Some cp => (m, MUpd (fst pos0) (snd pos0) true "position_mismatch" cp)
      | None =>
          match cur with
          | None => (m, MUpd (fst pos0) (snd pos0) true "key_not_found" None)
          | Some _ =>
              let c1 := mkMCh (ch_top c) (ch_epoch c) (ch_items c) (sdel key (ch_state c)) in
              if has_stream cf then
                let '(c2, off) := stream_add c1 (fun off => (off, key, "", true)) (mc_size cf) in
                (set_chan m ch c2, MUpd off (ch_epoch c2) false "" None)
              else (set_chan m ch c1, MUpd (fst pos0) (snd pos0) false "" None)
          end
      end
  end.

Definition mm_remove (cf : mcfg) (m : mmstate) (ch key : string) (o : mropts) : mmstate * mres :=
  if (is_ephemeral cf && match mr_exp o with Some _ => true | None => false end)%bool then (m, MErr) else
  match (if String.eqb (mr_idem o) "" then None else idem_get m ch (mr_idem o)) with
  | Some (off, ep) => (m, MUpd off ep true "idempotency" None)
  | None =>
      let '(m1, r) := hub_remove cf m ch key o in
      match r with
      | MUpd off ep false _ _ => (idem_save (del_exp m1 ch key) ch (mr_idem o) (off, ep) (mr_idemttl o), r)
      | _ => (m1, r)
      end
  end.

(* ---------- reads ---------- *)
Definition create_chan (m : mmstate) (ch nonce : string) : mmstate := set_chan m ch (new_chan nonce).

Definition wrap_pred (so : N) : N := if so =? 0 then 18446744073709551615 else so - 1.

Definition mm_read_stream (m : mmstate) (ch : string) (since : option (N * string)) (limit : Z) (reverse : bool)
           (nonce : string) : mmstate * mres :=
  match sfind ch (mm_chans m) with
  | None => (create_chan m ch nonce, MStream [] 0 nonce)
  | Some c =>
      let p := chan_pos c in
      match since with
      | None => if (limit =? 0)%Z then (m, MStream [] (fst p) (snd p))
                else (m, MStream (stream_get c 0 false limit reverse) (fst p) (snd p))
      | Some (so, se) =>
          if (negb (String.eqb se "") && negb (String.eqb se (ch_epoch c)))%bool then (m, MUnrec) else
          if (negb reverse && (ch_top c =? so))%bool then (m, MStream [] (fst p) (snd p)) else
          let off := if reverse then wrap_pred so else (so + 1) mod 18446744073709551616 in
          (m, MStream (stream_get c off true limit reverse) (fst p) (snd p))
      end
  end.

(* Go string "<" *)
Definition key_ltb := str_ltb.
Fixpoint kinsert (x : string * mentry) (l : list (string * mentry)) : list (string * mentry) :=
  match l with
  | [] => [x]
  | y :: r => if key_ltb (fst y) (fst x) then y :: kinsert x r else x :: l
  end.
Definition sort_state (st : list (string * mentry)) : list (string * mentry) := fold_right kinsert [] st.
Definition spub_of (kv : string * mentry) : spub := (fst kv, me_off (snd kv), me_data (snd kv), me_score (snd kv)).

(* mapHub.getState for an unordered channel; with limit > 0 the caller follows the cursor to the
   end, so the union of the pages (= the whole state in key order) is what is observed *)
Definition mm_read_state (m : mmstate) (ch : string) (rev_ : option (N * string)) (limit : Z) (key : string)
           (nonce : string) : mmstate * mres :=
  match sfind ch (mm_chans m) with
  | None =>
      let m1 := create_chan m ch nonce in
      match rev_ with
      | Some (_, re) => if negb (String.eqb re "") then (m1, MUnrec) else (m1, MState [] 0 nonce)
      | None => (m1, MState [] 0 nonce)
      end
  | Some c =>
      let p := chan_pos c in
      if match rev_ with Some (_, re) => negb (String.eqb (snd p) re) | None => false end then (m, MUnrec) else
      if negb (String.eqb key "") then
        match sfind key (ch_state c) with
        | Some e => (m, MState [spub_of (key, e)] (fst p) (snd p))
        | None => (m, MState [] (fst p) (snd p))
        end
      else if (limit =? 0)%Z then (m, MState [] (fst p) (snd p))
      else (m, MState (map spub_of (sort_state (ch_state c))) (fst p) (snd p))
  end.

(* ordered channels: entries by (score, key), ascending or both descending *)
Definition ord_le (asc : bool) (a b : string * mentry) : bool :=
  let '(x, y) := if asc then (a, b) else (b, a) in
  ((me_score (snd x) <? me_score (snd y))%Z
   || ((me_score (snd x) =? me_score (snd y))%Z && negb (str_ltb (fst y) (fst x))))%bool.
Fixpoint oinsert (asc : bool) (x : string * mentry) (l : list (string * mentry)) : list (string * mentry) :=
  match l with
  | [] => [x]
  | y :: r => if ord_le asc x y then x :: l else y :: oinsert asc x r
  end.
Definition sort_ordered (asc : bool) (st : list (string * mentry)) : list (string * mentry) := fold_right (oinsert asc) [] st.

Definition mm_read_state_ord (m : mmstate) (ch : string) (rev_ : option (N * string)) (asc : bool) (nonce : string)
  : mmstate * mres :=
  match sfind ch (mm_chans m) with
  | None =>
      let m1 := create_chan m ch nonce in
      match rev_ with
      | Some (_, re) => if negb (String.eqb re "") then (m1, MUnrec) else (m1, MState [] 0 nonce)
      | None => (m1, MState [] 0 nonce)
      end
  | Some c =>
      let p := chan_pos c in
      if match rev_ with Some (_, re) => negb (String.eqb (snd p) re) | None => false end then (m, MUnrec) else
      (m, MState (map spub_of (sort_ordered asc (ch_state c))) (fst p) (snd p))
  end.

Definition mm_stats (m : mmstate) (ch : string) : mres :=
  match sfind ch (mm_chans m) with
  | None => MCount 0
  | Some c => MCount (N.of_nat (List.length (ch_state c)))
  end.

Definition mm_clear (m : mmstate) (ch : string) : mmstate :=
  mkMM (sdel ch (mm_chans m))
       (filter (fun kv => negb (is_prefix (idem_key ch "") (fst kv))) (mm_idem m)) (mm_now m)
       (filter (fun kv => negb (is_prefix (idem_key ch "") (fst kv))) (mm_exp m)).

(* ---------- mapHub.expireKeysIteration at time [now] ---------- *)
Fixpoint einsert (x : string * N) (l : list (string * N)) : list (string * N) :=
  match l with
  | [] => [x]
  | y :: r => if (snd x <? snd y)%N then x :: l else y :: einsert x r        (* stable: ties keep insertion order *)
  end.
Definition split_chkey (s : string) : string * string :=
  match sindex_char (Ascii.ascii_of_nat 0) s with
  | Some i => (stake i s, sdrop (S i) s)
  | None => (s, "")
  end.
Definition expire_one (cf : mcfg) (m : mmstate) (chkey : string) : mmstate :=
  let '(ch, key) := split_chkey chkey in
  let m0 := mkMM (mm_chans m) (mm_idem m) (mm_now m) (sdel chkey (mm_exp m)) in
  match sfind ch (mm_chans m) with
  | None => m0
  | Some c =>
      match sfind key (ch_state c) with
      | None => m0
      | Some _ =>
          let c1 := mkMCh (ch_top c) (ch_epoch c) (ch_items c) (sdel key (ch_state c)) in
          if (has_stream cf && (0 <? mc_size cf)%Z)%bool then
            let '(c2, _) := stream_add c1 (fun off => (off, key, "", true)) (mc_size cf) in set_chan m0 ch c2
          else set_chan m0 ch c1
      end
  end.
Definition mm_cleanup (cf : mcfg) (m : mmstate) (now : N) : mmstate :=
  let due := fold_right einsert [] (rev (filter (fun kv => (snd kv <=? now)%N) (mm_exp m))) in
  fold_left (fun acc kv => expire_one cf acc (fst kv)) due m.

Definition mm_step (cf : mcfg) (m : mmstate) (o : mop) : mmstate * mres :=
  match o with
  | MPublish ch key po nonce now => mm_publish cf m ch key po nonce now
  | MRemove ch key ro _ _ => mm_remove cf m ch key ro
  | MReadState ch rev_ limit key asc _ nonce =>
      if (mc_ordered cf && String.eqb key "" && negb (limit =? 0)%Z)%bool then mm_read_state_ord m ch rev_ asc nonce
      else mm_read_state m ch rev_ limit key nonce
  | MReadStream ch since limit reverse _ nonce => mm_read_stream m ch since limit reverse nonce
  | MClear ch => (mm_clear m ch, MUnit)
  | MTick ms => (mkMM (mm_chans m) (mm_idem m) (mm_now m + ms) (mm_exp m), MUnit)
  | MCleanup now _ => (mm_cleanup cf m now, MUnit)
  | MStats ch => (m, mm_stats m ch)
  end.

Fixpoint mm_run (cf : mcfg) (m : mmstate) (ops : list mop) : list mres :=
  match ops with
  | [] => []
  | o :: r => let '(m', ob) := mm_step cf m o in ob :: mm_run cf m' r
  end.
Definition mem_map_run (cf : mcfg) (ops : list mop) : list mres := mm_run cf mm_init ops.
