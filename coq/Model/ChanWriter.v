(* Executable model of per-channel batching: channelWriter / perChannelWriter in
   /repo/client_experimental.go.
   An item is (id, key, is-publication); a channel is a number; the batch configuration of a channel
   (MaxSize, MaxDelay > 0, FlushLatestPublication) is a fixed function of the channel.
   Timers are untimed: Add may arm a timer (a fresh identity = the timerStop channel of the code), the
   waitTimer goroutine of a timer may run its "timer fired" branch at any later moment.
   perChannelWriter.Add is two atomic actions (getWriter, then channelWriter.Add), as in the code.
   No proofs in this file. *)
From Coq Require Import List NArith ZArith Bool Arith.
Import ListNotations.

Record citem := mkCI { ci_id : N; ci_key : N; ci_pub : bool }.

Record bcfg := mkBcfg { b_max : Z; b_delay : bool; b_latest : bool }.

(* ---------------------------------------------------------------- channelWriter *)
Record cw := mkCw {
  cw_buf : list citem;        (* w.buffer *)
  cw_lat : list citem;        (* w.latestPubs *)
  cw_timer : option nat;      (* identity of the active timer (w.timer / w.timerStop), if any *)
  cw_latestOnly : bool;
  cw_closed : bool            (* w.closed: set by close; Add on a closed writer drops the item *)
}.

Definition cw_new : cw := mkCw [] [] None false false.

(* for i, existing := range latestPubs { if existing.Key == item.Key { delete i; break } } *)
Fixpoint remove_key (k : N) (l : list citem) : list citem :=
  match l with
  | [] => []
  | x :: l' => if N.eqb (ci_key x) k then l' else x :: remove_key k l'
  end.

(* func (w *channelWriter) flushLocked(): new state and the batch handed to flushFn (if any) *)
Definition cw_flush (w : cw) : cw * option (list citem) :=
  match cw_buf w, cw_lat w with
  | [], [] => (w, None)
  | _, _ =>
      let batch := if cw_latestOnly w && negb (match cw_lat w with [] => true | _ => false end)
                   then cw_buf w ++ cw_lat w else cw_buf w in
      (mkCw [] [] (cw_timer w) (cw_latestOnly w) (cw_closed w), Some batch)
  end.

Definition cw_stop (w : cw) : cw := mkCw (cw_buf w) (cw_lat w) None (cw_latestOnly w) (cw_closed w).

(* func (w *channelWriter) Add(item, config); [tm] = identity for a timer armed by this call.
   Result: new state, batch flushed (if any), whether a waitTimer goroutine was started.
   [guard] = the `if w.closed { return }` at the top of Add (true = the code; false = the code before
   the fix "channelWriter drops items added after it was closed", kept only to state what it fixed). *)
Definition cw_add_gen (guard : bool) (c : bcfg) (tm : nat) (w : cw) (x : citem) : cw * option (list citem) * bool :=
  if guard && cw_closed w then (w, None, false) else
  let '(buf, lat) :=
    if b_latest c && ci_pub x then (cw_buf w, remove_key (ci_key x) (cw_lat w) ++ [x])
    else (cw_buf w ++ [x], cw_lat w) in
  let total := length buf + length lat in
  let arm := b_delay c && (total =? 1) && (match cw_timer w with None => true | Some _ => false end) in
  let w1 := mkCw buf lat (if arm then Some tm else cw_timer w) (b_latest c) (cw_closed w) in
  if (0 <? b_max c)%Z && (b_max c <=? Z.of_nat total)%Z then
    let '(w2, b) := cw_flush (cw_stop w1) in (w2, b, arm)
  else (w1, None, arm).

Definition cw_add := cw_add_gen true.

(* waitTimer, "case <-tm.C" branch *)
Definition cw_fire (tm : nat) (w : cw) : cw * option (list citem) :=
  match cw_timer w with
  | Some t => if t =? tm then
                let '(w1, b) := cw_flush w in (mkCw (cw_buf w1) (cw_lat w1) None (cw_latestOnly w1) (cw_closed w1), b)
              else (w, None)
  | None => (w, None)
  end.

(* func (w *channelWriter) close(flushRemaining bool) *)
Definition cw_close (flush : bool) (w : cw) : cw * option (list citem) :=
  let w1 := cw_stop w in
  let '(w2, b) := if flush then cw_flush w1 else (w1, None) in
  (mkCw [] [] (cw_timer w2) (cw_latestOnly w2) true, b).

(* one channelWriter on its own: every operation is one critical section of w.mu *)
Inductive cwop := CAdd (x : citem) | CFire (tm : nat) | CClose (flush : bool).

(* state: the writer and the next fresh timer identity *)
Definition cwop_step (c : bcfg) (st : cw * nat) (o : cwop) : (cw * nat) * option (list citem) :=
  let '(w, n) := st in
  match o with
  | CAdd x => let '(w1, b, armed) := cw_add c n w x in ((w1, if armed then S n else n), b)
  | CFire tm => let '(w1, b) := cw_fire tm w in ((w1, n), b)
  | CClose f => let '(w1, b) := cw_close f w in ((w1, n), b)
  end.

(* ---------------------------------------------------------------- perChannelWriter *)
Record pst := mkP {
  p_map : list (N * nat);           (* pcw.writers: channel -> instance, newest binding first; removed = absent *)
  p_inst : list (nat * cw);         (* every channelWriter ever created (incl. deleted ones), newest first *)
  p_ich : list (nat * N);           (* the channel each instance was created for *)
  p_refs : list (nat * (N * nat));  (* in-flight Add calls: thread -> (channel, instance returned by getWriter) *)
  p_timers : list (nat * nat);      (* live waitTimer goroutines: timer identity -> instance *)
  p_next : nat;                     (* next fresh instance / timer identity *)
  p_out : list (N * nat * list citem)  (* flushFn calls in order: channel, instance, batch *)
}.

Definition p_init : pst := mkP [] [] [] [] [] 0 [].

Fixpoint lookupN {A} (l : list (N * A)) (k : N) : option A :=
  match l with [] => None | (k', v) :: l' => if N.eqb k' k then Some v else lookupN l' k end.
Fixpoint lookup {A} (l : list (nat * A)) (k : nat) : option A :=
  match l with [] => None | (k', v) :: l' => if k' =? k then Some v else lookup l' k end.
Definition removeN {A} (l : list (N * A)) (k : N) : list (N * A) := filter (fun kv => negb (N.eqb (fst kv) k)) l.
Definition remove_k {A} (l : list (nat * A)) (k : nat) : list (nat * A) := filter (fun kv => negb (fst kv =? k)) l.

Definition emit (out : list (N * nat * list citem)) (ch : N) (i : nat) (b : option (list citem)) :=
  match b with Some items => out ++ [(ch, i, items)] | None => out end.

(* the channel an instance was created for *)
Definition chan_of (s : pst) (i : nat) : N :=
  match lookup (p_ich s) i with Some ch => ch | None => 0%N end.

Inductive plabel :=
| PGet (t : nat) (ch : N)          (* thread t: getWriter(ch) (creates the writer if absent) *)
| PAdd (t : nat) (x : citem)       (* thread t: channelWriter.Add on the instance it got *)
| PFire (tm : nat)                 (* waitTimer goroutine of timer tm: timer fired branch *)
| PCancelled (tm : nat)            (* waitTimer goroutine of timer tm: stop branch (timer cancelled) *)
| PDel (ch : N) (flush : bool)     (* delWriter(ch, flush) *)
| PClose (flush : bool).           (* perChannelWriter.Close(flush) *)

Definition close_mapped (flush : bool) (s : pst) : list (nat * cw) * list (N * nat * list citem) :=
  fold_left (fun '(insts, out) '(ch, i) =>
               match lookup insts i with
               | Some w => let '(w1, b) := cw_close flush w in ((i, w1) :: insts, emit out ch i b)
               | None => (insts, out)
               end) (p_map s) (p_inst s, p_out s).

(* None = the label is not enabled *)
Definition pstep_gen (guard : bool) (cf : N -> bcfg) (s : pst) (l : plabel) : option pst :=
  match l with
  | PGet t ch =>
      match lookup (p_refs s) t with
      | Some _ => None
      | None =>
          match lookupN (p_map s) ch with
          | Some i => Some (mkP (p_map s) (p_inst s) (p_ich s) ((t, (ch, i)) :: p_refs s) (p_timers s) (p_next s) (p_out s))
          | None => let i := p_next s in
                    Some (mkP ((ch, i) :: p_map s) ((i, cw_new) :: p_inst s) ((i, ch) :: p_ich s)
                              ((t, (ch, i)) :: p_refs s) (p_timers s) (S i) (p_out s))
          end
      end
  | PAdd t x =>
      match lookup (p_refs s) t with
      | Some (ch, i) =>
          match lookup (p_inst s) i with
          | Some w =>
              let tm := p_next s in
              let '(w1, b, armed) := cw_add_gen guard (cf ch) tm w x in
              Some (mkP (p_map s) ((i, w1) :: p_inst s) (p_ich s) (remove_k (p_refs s) t)
                        (if armed then (tm, i) :: p_timers s else p_timers s)
                        (if armed then S tm else tm) (emit (p_out s) ch i b))
          | None => None
          end
      | None => None
      end
  | PFire tm =>
      match lookup (p_timers s) tm with
      | Some i =>
          match lookup (p_inst s) i with
          | Some w =>
              let '(w1, b) := cw_fire tm w in
              Some (mkP (p_map s) ((i, w1) :: p_inst s) (p_ich s) (p_refs s) (remove_k (p_timers s) tm) (p_next s)
                        (emit (p_out s) (chan_of s i) i b))
          | None => None
          end
      | None => None
      end
  | PCancelled tm =>
      match lookup (p_timers s) tm with
      | Some i =>
          match lookup (p_inst s) i with
          | Some w => match cw_timer w with
                      | Some t => if t =? tm then None   (* not cancelled: the stop channel is open *)
                                  else Some (mkP (p_map s) (p_inst s) (p_ich s) (p_refs s) (remove_k (p_timers s) tm) (p_next s) (p_out s))
                      | None => Some (mkP (p_map s) (p_inst s) (p_ich s) (p_refs s) (remove_k (p_timers s) tm) (p_next s) (p_out s))
                      end
          | None => None
          end
      | None => None
      end
  | PDel ch flush =>
      match lookupN (p_map s) ch with
      | Some i =>
          match lookup (p_inst s) i with
          | Some w => let '(w1, b) := cw_close flush w in
                      Some (mkP (removeN (p_map s) ch) ((i, w1) :: p_inst s) (p_ich s) (p_refs s) (p_timers s) (p_next s)
                                (emit (p_out s) ch i b))
          | None => None
          end
      | None => Some s
      end
  | PClose flush =>
      let '(insts, out) := close_mapped flush s in
      Some (mkP (p_map s) insts (p_ich s) (p_refs s) (p_timers s) (p_next s) out)
  end.

Definition pstep := pstep_gen true.

Fixpoint prun_gen (guard : bool) (cf : N -> bcfg) (s : pst) (sched : list plabel) : option pst :=
  match sched with
  | [] => Some s
  | l :: sched' => match pstep_gen guard cf s l with Some s1 => prun_gen guard cf s1 sched' | None => None end
  end.

Definition prun := prun_gen true.
