(* Model of the Redis PUB/SUB payload framing of /repo/broker_redis.go:
   extractPushData + parseDeltaPush (the receiving side) and the builders of the
   framed payloads (Go: plain / "__j__" / "__l__" prefixes; Lua scripts
   broker_history_add_stream.lua / broker_history_add_list.lua: "__p1:..." and
   "__d1:..." concatenations, as token templates evaluated by [eval_tpl]; the
   templates themselves are regenerated from the Lua sources into Gen/C33Lua.v).

   Every Go slice expression is written with [sl_from] / [sl_to], which answer
   None exactly when Go panics (index negative or beyond the length); a None
   becomes the explicit outcome [Panic].

   [extract true] models the code AFTER fixes/C33-parse-bounds.patch (three added
   guards); [extract false] is the code before the fix. Executable, no proofs. *)
From Coq Require Import List NArith ZArith Bool.
From Cfg Require Export Model.Decimal.
Import ListNotations.
Open Scope N_scope.

(* ---------- Go slicing, strconv ---------- *)

(* s[n:]  and  s[:n]  for a Go int n *)
Definition sl_from (s : bytes) (n : Z) : option bytes :=
  if (n <? 0)%Z || (Z.of_nat (length s) <? n)%Z then None
  else Some (skipn (Z.to_nat n) s).
Definition sl_to (s : bytes) (n : Z) : option bytes :=
  if (n <? 0)%Z || (Z.of_nat (length s) <? n)%Z then None
  else Some (firstn (Z.to_nat n) s).

Definition zlen (s : bytes) : Z := Z.of_nat (length s).

(* bytes.HasPrefix *)
Fixpoint has_pfx (s p : bytes) : bool :=
  match p, s with
  | [], _ => true
  | x :: p', y :: s' => (x =? y) && has_pfx s' p'
  | _ :: _, [] => false
  end.

(* strings.IndexByte(s, c), -1 = None *)
Fixpoint index_byte (c : N) (s : bytes) : option nat :=
  match s with
  | [] => None
  | x :: s' => if x =? c then Some O else option_map S (index_byte c s')
  end.

(* bytes.Index(s, "__") *)
Fixpoint index_sep (s : bytes) : option nat :=
  match s with
  | [] => None
  | x :: s' =>
      if (x =? 95) && (match s' with y :: _ => y =? 95 | [] => false end) then Some O
      else option_map S (index_sep s')
  end.

Definition U64 : N := 2 ^ 64.

(* strconv.ParseUint(s, 10, 64): (value, err == nil).  One left-to-right scan that
   returns at the first problem: a byte that is not a digit -> (0, syntax error),
   the value leaving the uint64 range -> (MaxUint64, range error).  (The 'p' branch
   stores the value even when err != nil.) *)
Fixpoint parse_uint_loop (s : bytes) (n : N) : N * bool :=
  match s with
  | [] => (n, true)
  | c :: s' =>
      if is_digit c then
        let n1 := n * 10 + (c - 48) in
        if U64 <=? n1 then (U64 - 1, false) else parse_uint_loop s' n1
      else (0, false)
  end.

Definition parse_uint (s : bytes) : N * bool :=
  match s with
  | [] => (0, false)
  | _ => parse_uint_loop s 0
  end.

(* strconv.Atoi: optional sign, one or more digits, int64 range; None = error *)
Definition atoi (s : bytes) : option Z :=
  let '(neg, ds) :=
    match s with
    | [] => (false, s)
    | c :: r => if c =? 43 then (false, r) else if c =? 45 then (true, r) else (false, s)
    end in
  match ds with
  | [] => None
  | _ => if all_digits ds then
           let v := Z.of_N (digits_val ds) in
           if neg then (if (v <=? 2 ^ 63)%Z then Some (- v)%Z else None)
           else (if (v <? 2 ^ 63)%Z then Some v else None)
         else None
  end.

(* ---------- results ---------- *)

Inductive ptype := PPub | PJoin | PLeave.

(* the six values extractPushData returns (nil and empty slices identified) *)
Record push := mkPush {
  p_data : bytes; p_type : ptype; p_off : N; p_epoch : bytes;
  p_delta : bool; p_prev : bytes; p_ok : bool }.

Inductive outcome := Ret (r : push) | Panic.

Definition fail_with (d : bytes) : outcome := Ret (mkPush d PPub 0 [] false [] false).

(* parseDeltaPush *)
Inductive dres := DOk (off : N) (epoch prev payload : bytes) | DErr | DPanic.

Definition d1_prefix : bytes := [100; 49; 58].      (* "d1:" *)
Definition meta_sep : bytes := [95; 95].            (* "__" *)

Definition parse_delta (fixed : bool) (input0 : bytes) : dres :=
  if negb (has_pfx input0 d1_prefix) then DErr else
  match sl_from input0 3 with None => DPanic | Some input =>
  match index_byte 58 input with None => DErr | Some idx =>
  match sl_to input (Z.of_nat idx) with None => DPanic | Some offs =>
  match parse_uint offs with
  | (_, false) => DErr
  | (off, true) =>
  match sl_from input (Z.of_nat idx + 1) with None => DPanic | Some input =>
  match index_byte 58 input with None => DErr | Some idx =>
  match sl_to input (Z.of_nat idx) with None => DPanic | Some epoch =>
  match sl_from input (Z.of_nat idx + 1) with None => DPanic | Some input =>
  match index_byte 58 input with None => DErr | Some idx =>
  match sl_to input (Z.of_nat idx) with None => DPanic | Some pls =>
  match atoi pls with None => DErr | Some plen =>
  match sl_from input (Z.of_nat idx + 1) with None => DPanic | Some input =>
  (* before the fix: [if len(input) < prevPayloadLength];
     after:          [if prevPayloadLength < 0 || len(input) <= prevPayloadLength] *)
  if (if fixed then (plen <? 0)%Z || (zlen input <=? plen)%Z else (zlen input <? plen)%Z)
  then DErr else
  match sl_to input plen with None => DPanic | Some prev =>
  match sl_from input (plen + 1) with None => DPanic | Some input =>
  match index_byte 58 input with None => DErr | Some idx =>
  match sl_to input (Z.of_nat idx) with None => DPanic | Some ls =>
  match atoi ls with None => DErr | Some len =>
  match sl_from input (Z.of_nat idx + 1) with None => DPanic | Some input =>
  (* before: [if len(input) < payloadLength]; after: [payloadLength < 0 || ...] *)
  if (if fixed then (len <? 0)%Z || (zlen input <? len)%Z else (zlen input <? len)%Z)
  then DErr else
  match sl_to input len with None => DPanic | Some payload =>
  DOk off epoch prev payload
  end end end end end end end end end end end end end end end end end end end.

(* the 'p' branch once header and rest are cut out *)
Definition p_header (fixed : bool) (header rest : bytes) : outcome :=
  (* after the fix: [if len(stringHeader) < 3 { return rest, ..., false }] *)
  if fixed && (length header <? 3)%nat then fail_with rest else
  match sl_from header 3 with None => Panic | Some sh =>          (* stringHeader[3:] *)
  match index_byte 58 sh with
  | None | Some O => fail_with rest                              (* epochDelimiterPos <= 0 *)
  | Some k =>
      match sl_to sh (Z.of_nat k) with None => Panic | Some offs =>
      match sl_from sh (Z.of_nat k + 1) with None => Panic | Some epoch =>
      let '(off, ok) := parse_uint offs in
      Ret (mkPush rest PPub off epoch false [] ok)
      end end
  end end.

(* extractPushData *)
Definition extract (fixed : bool) (data : bytes) : outcome :=
  if negb (has_pfx data meta_sep) then Ret (mkPush data PPub 0 [] false [] true) else
  match sl_from data 2 with None => Panic | Some content =>
  match content with
  | [] => fail_with data
  | ct :: _ =>
      if (ct =? 106) || (ct =? 108) then                      (* 'j', 'l' *)
        match index_sep content with
        | None | Some O => fail_with data                      (* nextMetaSepPos <= 0 *)
        | Some n =>
            match sl_from data (2 + Z.of_nat n + 2) with
            | None => Panic
            | Some rest =>
                Ret (mkPush rest (if ct =? 106 then PJoin else PLeave) 0 [] false [] true)
            end
        end
      else if ct =? 112 then                                   (* 'p' *)
        match index_sep content with
        | None | Some O => fail_with data
        | Some n =>
            (* header := data[2 : 2+n] *)
            match sl_to content (Z.of_nat n) with None => Panic | Some header =>
            match sl_from data (2 + Z.of_nat n + 2) with None => Panic | Some rest =>
            p_header fixed header rest
            end end
        end
      else if ct =? 100 then                                   (* 'd' *)
        match parse_delta fixed content with
        | DPanic => Panic
        | DErr => fail_with []
        | DOk off epoch prev payload => Ret (mkPush payload PPub off epoch true prev true)
        end
      else fail_with []
  end end.

(* ---------- builders ---------- *)

(* decimal rendering of a natural number *)
Fixpoint dec_fuel (fuel : nat) (n : N) (acc : bytes) : bytes :=
  match fuel with
  | O => acc
  | S k => let acc' := (48 + n mod 10) :: acc in
           if n <? 10 then acc' else dec_fuel k (n / 10) acc'
  end.
Definition dec (n : N) : bytes := dec_fuel 40 n [].

(* Lua 5.1 numbers are IEEE doubles; an integer coming from Redis (HINCRBY reply,
   string length) is first converted to the nearest double (ties to even) ... *)
Definition round53 (n : N) : N :=
  let b := N.size n in
  if b <=? 53 then n
  else
    let sh := b - 53 in
    let q := N.shiftr n sh in
    let r := n - N.shiftl q sh in
    let half := N.shiftl 1 (sh - 1) in
    let q' := if half <? r then q + 1
              else if (r =? half) && N.odd q then q + 1 else q in
    N.shiftl q' sh.

(* ... and number -> string inside [..] is sprintf("%.14g"): an integer-valued number
   below 10^14 prints as its plain decimal digits; from 10^14 on, as a mantissa of 14
   significant digits (correctly rounded, ties to even, trailing zeros and a then
   useless '.' removed) followed by e+XX. *)
Definition LUA_PLAIN : N := 10 ^ 14.

Fixpoint drop_zeros (s : bytes) : bytes :=      (* leading '0's *)
  match s with
  | c :: s' => if c =? 48 then drop_zeros s' else s
  | [] => []
  end.
Definition strip_trailing_zeros (s : bytes) : bytes := rev (drop_zeros (rev s)).

Definition dec2 (e : nat) : bytes :=            (* exponent: at least two digits *)
  if Nat.ltb e 10 then 48 :: dec (N.of_nat e) else dec (N.of_nat e).

Definition lua_fmt (n0 : N) : bytes :=
  let n := round53 n0 in
  if n <? LUA_PLAIN then dec n
  else
    let d := length (dec n) in                      (* number of digits, >= 15 *)
    let p := pow10 (d - 14) in
    let q := n / p in
    let r := n mod p in
    let half := p / 2 in
    let m := if (half <? r) || ((r =? half) && N.odd q) then q + 1 else q in
    let '(m, e) := if m =? 10 ^ 14 then (10 ^ 13, d) else (m, (d - 1)%nat) in
    match dec m with
    | [] => []
    | d0 :: ds =>
        let frac := strip_trailing_zeros ds in
        d0 :: (match frac with [] => [] | _ => 46 :: frac end) ++ [101; 43] ++ dec2 e
    end.

Definition lua_num (n : N) : option bytes := Some (lua_fmt n).

Inductive var := Voffset | Vepoch | Vprev | Vpayload.
Inductive tok := TLit (b : bytes) | TVar (v : var) | TLen (v : var).

Record env := mkEnv { e_off : N; e_epoch : bytes; e_prev : bytes; e_payload : bytes }.

Definition eval_tok (e : env) (t : tok) : option bytes :=
  match t with
  | TLit b => Some b
  | TVar Voffset => lua_num (e_off e)             (* top_offset is a Lua number *)
  | TVar Vepoch => Some (e_epoch e)
  | TVar Vprev => Some (e_prev e)
  | TVar Vpayload => Some (e_payload e)
  | TLen Voffset => None
  | TLen Vepoch => lua_num (N.of_nat (length (e_epoch e)))
  | TLen Vprev => lua_num (N.of_nat (length (e_prev e)))
  | TLen Vpayload => lua_num (N.of_nat (length (e_payload e)))
  end.

(* a [..] chain *)
Fixpoint eval_tpl (e : env) (tpl : list tok) : option bytes :=
  match tpl with
  | [] => Some []
  | t :: tpl' => match eval_tok e t, eval_tpl e tpl' with
                 | Some a, Some b => Some (a ++ b)
                 | _, _ => None
                 end
  end.

(* Go side: PublishJoin / PublishLeave do append(joinTypePrefix, byteMessage...),
   Publish without history sends byteMessage itself *)
Definition join_prefix : bytes := [95; 95; 106; 95; 95].
Definition leave_prefix : bytes := [95; 95; 108; 95; 95].
Definition build_join (payload : bytes) : bytes := join_prefix ++ payload.
Definition build_leave (payload : bytes) : bytes := leave_prefix ++ payload.
Definition build_plain (payload : bytes) : bytes := payload.
