(* Executable model of the server side WebSocket opening handshake:
   /repo/internal/websocket/server.go  Upgrader.Upgrade, selectSubprotocol, checkSameOrigin
   /repo/internal/websocket/util.go    skipSpace, nextToken, nextTokenOrQuoted, equalASCIIFold,
                                       tokenListContainsValue, parseExtensions, isValidChallengeKey,
                                       computeAcceptKey/encodeAcceptKey
   Bytes are N (0..255), strings are lists of bytes.  No proofs here.

   Library behaviour that enters as parameters (never as axioms):
     - url_host : net/url.Parse(origin).Host            (argument of [upgrade])
     - lib_sha1_b64 : base64.StdEncoding(sha1(x))       (argument of [accept_key])
   Library behaviour that is modelled because the decision depends on it:
     - base64.StdEncoding.Decode into a fixed destination buffer ([go_b64_decode]): the slow path
       decodeQuantum of encoding/base64 (Go 1.25), including its skipping of CR/LF, the padding rules
       and the *unchecked* stores dst[2], dst[1], dst[0] (a too short buffer is a run-time panic). *)
From Coq Require Import List NArith Bool String Ascii.
From Cfg Require Import Gen.WsConst.
Import ListNotations.
Open Scope N_scope.

Definition bytes := list N.

Fixpoint bytes_of_string (s : string) : bytes :=
  match s with
  | EmptyString => []
  | String a r => N_of_ascii a :: bytes_of_string r
  end.

Fixpoint bytes_eqb (a b : bytes) : bool :=
  match a, b with
  | [], [] => true
  | x :: a', y :: b' => (x =? y) && bytes_eqb a' b'
  | _, _ => false
  end.

Definition s_upgrade : bytes := Eval compute in bytes_of_string "upgrade".
Definition s_websocket : bytes := Eval compute in bytes_of_string "websocket".
Definition s_13 : bytes := Eval compute in bytes_of_string "13".
Definition s_GET : bytes := Eval compute in bytes_of_string "GET".
Definition s_CONNECT : bytes := Eval compute in bytes_of_string "CONNECT".
Definition s_pmd : bytes := Eval compute in bytes_of_string "permessage-deflate".

(* ------------------------------------------------------------------ util.go *)

(* isTokenOctet: ! # $ % & ' * + - . 0-9 A-Z ^ _ ` a-z | ~ *)
Definition is_token_octet (c : N) : bool :=
  (c =? 33) || ((35 <=? c) && (c <=? 39)) || (c =? 42) || (c =? 43) || (c =? 45) || (c =? 46)
  || ((48 <=? c) && (c <=? 57)) || ((65 <=? c) && (c <=? 90)) || ((94 <=? c) && (c <=? 122))
  || (c =? 124) || (c =? 126).

(* longest prefix satisfying p, and the rest *)
Fixpoint span (p : N -> bool) (s : bytes) : bytes * bytes :=
  match s with
  | [] => ([], [])
  | c :: r => if p c then let '(a, b) := span p r in (c :: a, b) else ([], s)
  end.

Definition is_sp (c : N) : bool := (c =? 32) || (c =? 9).
Definition skip_space (s : bytes) : bytes := snd (span is_sp s).
Definition next_token (s : bytes) : bytes * bytes := span is_token_octet s.

Definition lower (c : N) : N := if (65 <=? c) && (c <=? 90) then c + 32 else c.

(* equalASCIIFold, on byte strings.  The Go function compares rune by rune (utf8.DecodeRuneInString);
   on ASCII input that is this byte-wise comparison.  (On invalid UTF-8 Go maps every bad byte to
   U+FFFD, so two different bad bytes compare equal there: outside this model, see props JSON.) *)
Fixpoint equal_ascii_fold (s t : bytes) : bool :=
  match s, t with
  | [], [] => true
  | a :: s', b :: t' => (lower a =? lower b) && equal_ascii_fold s' t'
  | _, _ => false
  end.

(* tokenListContainsValue, one header line.  Fuel = number of loop iterations (each consumes >= 2 bytes). *)
Fixpoint tlcv_line (fuel : nat) (s value : bytes) : bool :=
  match fuel with
  | O => false
  | S f =>
      let '(t, s1) := next_token (skip_space s) in
      match t with
      | [] => false                                   (* continue headers *)
      | _ =>
          match skip_space s1 with
          | [] => equal_ascii_fold t value
          | c :: s3 =>
              if c =? 44 then
                if equal_ascii_fold t value then true else tlcv_line f s3 value
              else false                              (* continue headers *)
          end
      end
  end.

Definition token_list_contains_value (lines : list bytes) (value : bytes) : bool :=
  existsb (fun s => tlcv_line (S (List.length s)) s value) lines.

(* nextTokenOrQuoted: only the rest string matters for parseExtensions' control flow.
   [quoted_rest s escape]: s is the text after the opening quote. Unterminated => "" *)
Fixpoint quoted_rest (s : bytes) (escape : bool) : bytes :=
  match s with
  | [] => []
  | b :: r =>
      if escape then quoted_rest r false
      else if b =? 92 then quoted_rest r true
      else if b =? 34 then r
      else quoted_rest r false
  end.

Definition next_token_or_quoted_rest (s : bytes) : bytes :=
  match s with
  | c :: r => if c =? 34 then quoted_rest r false else snd (next_token s)
  | [] => []
  end.

(* inner loop of parseExtensions: the ";" parameters of one extension.
   None = `continue headers` (rest of this header line is abandoned). *)
Fixpoint ext_params (fuel : nat) (s : bytes) : option bytes :=
  match fuel with
  | O => None
  | S f =>
      let s := skip_space s in
      match s with
      | c :: r =>
          if c =? 59 then
            let '(k, s1) := next_token (skip_space r) in
            match k with
            | [] => None
            | _ =>
                let s2 := skip_space s1 in
                let s3 := match s2 with
                          | e :: r2 => if e =? 61 then skip_space (next_token_or_quoted_rest (skip_space r2)) else s2
                          | [] => s2
                          end in
                match s3 with
                | d :: _ => if (d =? 44) || (d =? 59) then ext_params f s3 else None
                | [] => ext_params f s3
                end
            end
          else Some s
      | [] => Some s
      end
  end.

(* parseExtensions on one header line: the extension names (ext[""]) appended to the result *)
Fixpoint ext_line (fuel : nat) (s : bytes) : list bytes :=
  match fuel with
  | O => []
  | S f =>
      let '(t, s1) := next_token (skip_space s) in
      match t with
      | [] => []
      | _ =>
          match ext_params (S (List.length s1)) s1 with
          | None => []
          | Some [] => [t]
          | Some (c :: s2) => if c =? 44 then t :: ext_line f s2 else []
          end
      end
  end.

Definition parse_extensions (lines : list bytes) : list bytes :=
  flat_map (fun s => ext_line (S (List.length s)) s) lines.

(* ---- base64.StdEncoding.Decode(dst, src) with len(dst) = cap: result count / error / index panic *)
Definition is_b64 (c : N) : bool :=
  ((65 <=? c) && (c <=? 90)) || ((97 <=? c) && (c <=? 122)) || ((48 <=? c) && (c <=? 57)) || (c =? 43) || (c =? 47).
Definition is_nl (c : N) : bool := (c =? 10) || (c =? 13).

Inductive b64res := B64Ok (n : N) | B64Err | B64Panic.

Fixpoint all_nl (s : bytes) : bool :=
  match s with [] => true | c :: r => is_nl c && all_nl r end.
Fixpoint skip_nl (s : bytes) : bytes :=
  match s with [] => [] | c :: r => if is_nl c then skip_nl r else s end.

(* a quantum of dlen sextets stores dlen-1 bytes, the highest index first, without a bounds check *)
Definition b64_store (cap n dlen : N) : b64res :=
  if n + (dlen - 1) <=? cap then B64Ok (n + (dlen - 1)) else B64Panic.

(* j = sextets collected in the current quantum (0..3), n = bytes stored so far *)
Fixpoint go_b64_decode (cap : N) (src : bytes) (j n : N) : b64res :=
  match src with
  | [] => if j =? 0 then B64Ok n else B64Err
  | c :: rest =>
      if is_b64 c then
        if j =? 3 then
          match b64_store cap n 4 with
          | B64Ok n' => go_b64_decode cap rest 0 n'
          | e => e
          end
        else go_b64_decode cap rest (j + 1) n
      else if is_nl c then go_b64_decode cap rest j n
      else if c =? 61 then
        if j <? 2 then B64Err
        else if j =? 2 then
          match skip_nl rest with
          | [] => B64Err
          | c2 :: rest2 => if (c2 =? 61) && all_nl rest2 then b64_store cap n 2 else B64Err
          end
        else if all_nl rest then b64_store cap n 3 else B64Err
      else B64Err
  end.

Inductive keyres := KValid | KInvalid | KPanic.

(* isValidChallengeKey *)
Definition is_valid_challenge_key (cap : N) (s : bytes) : keyres :=
  if negb (N.of_nat (List.length s) =? key_len) then KInvalid
  else match go_b64_decode cap s 0 0 with
       | B64Ok n => if n =? key_decoded_len then KValid else KInvalid
       | B64Err => KInvalid
       | B64Panic => KPanic
       end.

(* computeAcceptKey / encodeAcceptKey: base64(sha1(key ++ GUID)); the composite library function is a parameter *)
Definition accept_key (lib_sha1_b64 : bytes -> bytes) (challenge : bytes) : bytes :=
  lib_sha1_b64 (challenge ++ key_guid).

(* ------------------------------------------------------------------ server.go *)

Record request := mkRequest {
  r_major : N;                    (* r.ProtoMajor *)
  r_method : bytes;
  r_host : bytes;                 (* r.Host *)
  r_connection : list bytes;      (* r.Header["Connection"] *)
  r_upgrade : list bytes;         (* r.Header["Upgrade"] *)
  r_version : list bytes;         (* r.Header["Sec-Websocket-Version"] *)
  r_key : list bytes;             (* r.Header["Sec-Websocket-Key"]; Get = first value or "" *)
  r_origin : list bytes;          (* r.Header["Origin"] *)
  r_protocol : list bytes;        (* r.Header["Sec-Websocket-Protocol"] *)
  r_extensions : list bytes;      (* r.Header["Sec-Websocket-Extensions"] *)
  r_h2protocol : list bytes       (* r.Header[":protocol"] *)
}.

Record config := mkConfig {
  u_subprotocols : option (list bytes);   (* Upgrader.Subprotocols (nil = None) *)
  u_compression : bool;                   (* EnableCompression *)
  u_disable_h1 : bool;                    (* DisableHTTP1Upgrade *)
  u_origin : option bool;                 (* Some b: CheckOrigin callback returning b; None: checkSameOrigin *)
  u_resp_ext : bool;                      (* responseHeader contains Sec-Websocket-Extensions *)
  u_resp_protocol : option bytes          (* responseHeader.Get("Sec-Websocket-Protocol"), None when responseHeader == nil *)
}.

Definition header_get (vs : list bytes) : bytes := hd [] vs.

Definition is_space_ascii (c : N) : bool := ((9 <=? c) && (c <=? 13)) || (c =? 32).
(* strings.TrimSpace on ASCII input *)
Definition trim_space (s : bytes) : bytes :=
  rev (snd (span is_space_ascii (rev (snd (span is_space_ascii s))))).

Definition mem_bytes (p : bytes) (l : list bytes) : bool := existsb (bytes_eqb p) l.

(* the scanning loop of selectSubprotocol: cur = current piece, reversed *)
Fixpoint sel_scan (h cur : bytes) (protos : list bytes) : bytes :=
  match h with
  | [] =>
      match cur with
      | [] => []
      | _ => let p := trim_space (rev cur) in if mem_bytes p protos then p else []
      end
  | c :: r =>
      if c =? 44 then
        let p := trim_space (rev cur) in
        if mem_bytes p protos then p else sel_scan r [] protos
      else sel_scan r (c :: cur) protos
  end.

Definition select_subprotocol (u : config) (r : request) : bytes :=
  match u_subprotocols u with
  | Some protos =>
      let header := header_get (r_protocol r) in
      match header with
      | [] => []
      | _ => sel_scan header [] protos
      end
  | None => match u_resp_protocol u with Some p => p | None => [] end
  end.

Definition check_same_origin (url_host : bytes -> option bytes) (r : request) : bool :=
  match r_origin r with
  | [] => true
  | o :: _ => match url_host o with
              | None => false
              | Some h => equal_ascii_fold h (r_host r)
              end
  end.

Definition origin_check (url_host : bytes -> option bytes) (u : config) (r : request) : bool :=
  match u_origin u with
  | Some b => b
  | None => check_same_origin url_host r
  end.

Definition negotiate_compress (u : config) (r : request) : bool :=
  u_compression u && existsb (bytes_eqb s_pmd) (parse_extensions (r_extensions r)).

Inductive outcome :=
| Accept (challenge : option bytes) (sub : bytes) (compress : bool)   (* 101 (h1, with challenge) / 200 (h2) *)
| Reject (status : N)
| Panic.

Definition upgrade_tail (url_host : bytes -> option bytes) (u : config) (r : request) (challenge : option bytes) : outcome :=
  if u_resp_ext u then Reject 500
  else if negb (origin_check url_host u r) then Reject 403
  else Accept challenge (select_subprotocol u r) (negotiate_compress u r).

Definition upgrade (url_host : bytes -> option bytes) (u : config) (r : request) : outcome :=
  if r_major r =? 1 then
    if u_disable_h1 u then Reject 400
    else if negb (token_list_contains_value (r_connection r) s_upgrade) then Reject 400
    else if negb (token_list_contains_value (r_upgrade r) s_websocket) then Reject 400
    else if negb (bytes_eqb (r_method r) s_GET) then Reject 405
    else if negb (token_list_contains_value (r_version r) s_13) then Reject 400
    else match is_valid_challenge_key key_buf_cap (header_get (r_key r)) with
         | KPanic => Panic
         | KInvalid => Reject 400
         | KValid => upgrade_tail url_host u r (Some (header_get (r_key r)))
         end
  else if r_major r =? 2 then
    if negb (bytes_eqb (header_get (r_h2protocol r)) s_websocket) then Reject 400
    else if negb (bytes_eqb (r_method r) s_CONNECT) then Reject 405
    else if negb (token_list_contains_value (r_version r) s_13) then Reject 400
    else upgrade_tail url_host u r None
  else Reject 400.
