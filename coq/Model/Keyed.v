(* C25: model of shared-poll keyed delivery to ONE connection of a versioned channel.

   Mirrors:
     shared_poll.go   itemIndex entries (version, data kept with KeepLatestData,
                      needsBroadcast), runNotifiedRefreshCycle / runRefreshCycle
                      (request snapshot of versions), applyRefreshResponse
                      (versioned branch: unchanged / needsBroadcast re-broadcast /
                      changed with prevData from entry.data or the backend's
                      PrevData), handlePublishedData, flipEpochAndCollectClients,
                      getCachedData / getWarmKeyData, untrack, revoke / removed items
     client_keyed.go  handleTrack (client-supplied version, cached items, warm
                      delivery, deferred needsBroadcast), handleUntrack,
                      keyedWritePublication (version filter, deltaReady, base
                      re-check under the lock), keyedWriteRemoval
     keyed_hub.go     broadcastToKey / broadcastRemoval

   Abstractions.  Payload bytes are not modelled: within one publisher epoch the
   payload of a key is a function of its version (assumption of the property
   text: "versions"), so a payload is identified by its version.  A prepared
   delta carries the version it is LABELLED with (keyedDeltaPrevVersion) and the
   version whose payload is its real BASE; the client can apply it iff it holds
   the base.  A broadcast, once prepared, is "in flight" and may reach the
   connection at any later time, or never (the subscriber snapshot of the hub
   may not contain it): this over-approximates every interleaving of concurrent
   broadcasts, tracks and untracks.  keyedWritePublication's decisive part runs
   under the client's lock: one atomic action; what its unlocked first phase saw
   of deltaReady is an arbitrary boolean [dp1].  Backend polls are two actions
   (request snapshot, response).  Other connections only matter through
   "the key still has subscribers" ([others]). *)
From Coq Require Import List Arith Bool.
Import ListNotations.

Definition key := nat.
Definition ver := nat.

Record entry := mkEnt { e_ver : ver; e_data : bool (* entry.data holds the payload of e_ver *); e_nb : bool }.

Record prepd := mkPrep { pr_label : ver; pr_base : ver }.     (* a prepared delta *)

Record bcast := mkBc { bc_key : key; bc_ver : ver; bc_delta : option prepd }.

Record kstate := mkKs { ks_ver : ver; ks_ready : bool }.     (* per-connection keyedKeyState *)

Inductive push :=
| PFull (k : key) (v : ver)
| PDelta (k : key) (v : ver) (base : ver)     (* a real or pseudo delta computed against payload [base] *)
| PRemoved (k : key)
| PUnsub.                                     (* unsubscribe with insufficient state *)

Record st := mkSt {
  s_ent : key -> option entry;         (* itemIndex *)
  s_polls : list (key * ver);          (* backend calls in flight: key, version sent in the request *)
  s_bc : list bcast;                   (* prepared broadcasts in flight *)
  s_conn : key -> option kstate;       (* the connection's tracked keys *)
  s_sub : bool;                        (* the connection is subscribed to the channel *)
  s_held : key -> option ver;          (* reference client: version whose payload it holds *)
  s_keys : list key                    (* keys the connection tracks (its membership in the keyed hub) *)
}.

Definition upd {A : Type} (f : key -> option A) (k : key) (v : option A) : key -> option A :=
  fun k' => if Nat.eqb k' k then v else f k'.

Inductive act :=
| ASubscribe                                   (* (re)subscribe: the client starts with nothing *)
| ATrack (k : key) (fresh : bool)              (* track; [fresh]: it sends version 0 instead of the version it holds *)
| AUntrack (k : key) (others : bool)           (* untrack; [others]: the key keeps other subscribers *)
| APollReq (k : key)                           (* a (timer or notified) poll request is built *)
| APollResp (i : nat) (bv : ver) (prev : bool) (* the backend answers request i: its version, PrevData supplied *)
| APollRemoved (k : key)                       (* the backend reports the key removed *)
| APublish (k : key) (v : ver)                 (* SharedPollPublish reaching this node *)
| ADeliver (i : nat) (dp1 : bool)              (* in-flight broadcast i reaches the connection *)
| ALose (i : nat)                              (* ... or never does *)
| ARevoke (k : key) (others : bool)            (* SharedPollRevokeKeys matching the connection *)
| AEpochFlip                                   (* publisher epoch change *)
| APollNone (i : nat)                          (* request i ends without an item for its key: the call failed, or the
                                                  backend has nothing newer than the version in the request *)
| ATrackV (k : key) (cv : ver).                (* (re-)track with a version the client obtained elsewhere (ahead of, equal
                                                  to or behind what this node delivered); what it holds as delta base
                                                  is still only what this node delivered *)

Fixpoint remove_nth {A : Type} (i : nat) (l : list A) : list A :=
  match i, l with
  | _, [] => []
  | 0, _ :: t => t
  | S j, x :: t => x :: remove_nth j t
  end.

Definition add_tkey (k : key) (l : list key) : list key := if existsb (Nat.eqb k) l then l else k :: l.
Definition del_tkey (k : key) (l : list key) : list key := filter (fun x => negb (Nat.eqb x k)) l.

Fixpoint remove_poll (k : key) (l : list (key * ver)) : list (key * ver) :=
  match l with
  | [] => []
  | (k', v) :: t => if Nat.eqb k' k then t else (k', v) :: remove_poll k t
  end.

Section Step.
  Variable keep : bool.   (* KeepLatestData *)
  Variable gx : bool.     (* backend PrevData only used when the request's version is still the entry's version *)

  (* deliver a broadcast to the connection: keyedWritePublication *)
  Definition deliver (s : st) (b : bcast) (dp1 : bool) : st * list push :=
    match s_conn s (bc_key b) with
    | None => (s, [])
    | Some ks =>
        if Nat.leb (bc_ver b) (ks_ver ks) then (s, [])
        else
          let use_delta :=
            match bc_delta b with
            | Some p => dp1 && ks_ready ks && Nat.eqb (ks_ver ks) (pr_label p)
            | None => false
            end in
          let p := match bc_delta b with
                   | Some pd => if use_delta then PDelta (bc_key b) (bc_ver b) (pr_base pd) else PFull (bc_key b) (bc_ver b)
                   | None => PFull (bc_key b) (bc_ver b)
                   end in
          let held' := match p with
                       | PDelta _ v base =>
                           match s_held s (bc_key b) with
                           | Some h => if Nat.eqb h base then Some v else None   (* the patch does not apply *)
                           | None => None
                           end
                       | _ => Some (bc_ver b)
                       end in
          (mkSt (s_ent s) (s_polls s) (s_bc s)
                (upd (s_conn s) (bc_key b) (Some (mkKs (bc_ver b) true)))
                (s_sub s) (upd (s_held s) (bc_key b) held') (s_keys s),
           [p])
    end.

  (* track of key k by a client that sends version [cv]; [held0]: what the client holds for the key
     (its delta base) when it sends the request *)
  Definition track_with (s : st) (k : key) (cv : ver) (held0 : option ver) : st * list push :=
        if negb (s_sub s) then (s, [])
        else
          let is_new := match s_ent s k with Some _ => false | None => true end in
          let ent := match s_ent s k with Some e => e | None => mkEnt 0 false false end in
          (* cached item in the reply / warm direct delivery: both are full payloads of entry.version *)
          if keep && e_data ent && Nat.ltb cv (e_ver ent) then
            (mkSt (upd (s_ent s) k (Some ent)) (s_polls s) (s_bc s)
                  (upd (s_conn s) k (Some (mkKs (e_ver ent) true))) true
                  (upd (s_held s) k (Some (e_ver ent))) (add_tkey k (s_keys s)),
             [PFull k (e_ver ent)])
          else
            (* no cached payload: a warm key is flagged so that the next poll re-broadcasts it *)
            let warm := negb is_new && (Nat.eqb cv 0 || Nat.ltb cv (e_ver ent)) in
            let ent' := if warm then mkEnt (e_ver ent) (e_data ent) true else ent in
            (mkSt (upd (s_ent s) k (Some ent')) (s_polls s) (s_bc s)
                  (upd (s_conn s) k (Some (mkKs cv false))) true (upd (s_held s) k held0) (add_tkey k (s_keys s)),
             []).

  Definition step (s : st) (a : act) : st * list push :=
    match a with
    | ASubscribe =>
        if s_sub s then (s, [])
        else (mkSt (s_ent s) (s_polls s) (s_bc s) (fun _ => None) true (fun _ => None) [], [])
    | ATrack k fresh =>
        track_with s k (if fresh then 0 else match s_held s k with Some h => h | None => 0 end)
                   (if fresh then None else s_held s k)
    | ATrackV k cv => track_with s k cv (s_held s k)
    | AUntrack k others =>
        match s_conn s k with
        | None => (s, [])
        | Some _ =>
            (mkSt (if others then s_ent s else upd (s_ent s) k None) (s_polls s) (s_bc s)
                  (upd (s_conn s) k None) (s_sub s) (upd (s_held s) k None) (del_tkey k (s_keys s)), [])
        end
    | APollReq k =>
        match s_ent s k with
        | None => (s, [])
        | Some e =>
            (mkSt (s_ent s) (s_polls s ++ [(k, if e_nb e then 0 else e_ver e)]) (s_bc s)
                  (s_conn s) (s_sub s) (s_held s) (s_keys s), [])
        end
    | APollResp i bv prev =>
        match nth_error (s_polls s) i with
        | None => (s, [])
        | Some (k, reqv) =>
            let polls' := remove_nth i (s_polls s) in
            match s_ent s k with
            | None => (mkSt (s_ent s) polls' (s_bc s) (s_conn s) (s_sub s) (s_held s) (s_keys s), [])
            | Some e =>
                if Nat.leb bv (e_ver e) then
                  (* unchanged; a flagged entry is re-broadcast in full when a matching pair exists *)
                  if e_nb e && Nat.ltb 0 (e_ver e) then
                    if keep then
                      (mkSt (upd (s_ent s) k (Some (mkEnt (e_ver e) (e_data e) false))) polls'
                            (s_bc s ++ [mkBc k (e_ver e) None]) (s_conn s) (s_sub s) (s_held s) (s_keys s), [])
                    else if Nat.eqb bv (e_ver e) then
                      (mkSt (upd (s_ent s) k (Some (mkEnt (e_ver e) (e_data e) false))) polls'
                            (s_bc s ++ [mkBc k bv None]) (s_conn s) (s_sub s) (s_held s) (s_keys s), [])
                    else (mkSt (s_ent s) polls' (s_bc s) (s_conn s) (s_sub s) (s_held s) (s_keys s), [])
                  else (mkSt (s_ent s) polls' (s_bc s) (s_conn s) (s_sub s) (s_held s) (s_keys s), [])
                else
                  let pv := e_ver e in
                  let d :=
                    if keep then (if e_data e then Some (mkPrep pv pv) else None)
                    else if prev && Nat.ltb 0 reqv && Nat.ltb reqv bv
                         then (if gx then (if Nat.eqb reqv pv then Some (mkPrep pv reqv) else None)
                               else Some (mkPrep pv reqv))
                         else None in
                  (mkSt (upd (s_ent s) k (Some (mkEnt bv keep false))) polls'
                        (s_bc s ++ [mkBc k bv d]) (s_conn s) (s_sub s) (s_held s) (s_keys s), [])
            end
        end
    | APollRemoved k =>
        (* the backend's answer to the pending request for k says "removed" *)
        match s_ent s k with
        | None => (mkSt (s_ent s) (remove_poll k (s_polls s)) (s_bc s) (s_conn s) (s_sub s) (s_held s) (s_keys s), [])
        | Some _ =>
            (mkSt (upd (s_ent s) k None) (remove_poll k (s_polls s)) (s_bc s) (upd (s_conn s) k None) (s_sub s)
                  (upd (s_held s) k None) (del_tkey k (s_keys s)),
             match s_conn s k with Some _ => [PRemoved k] | None => [] end)
        end
    | APublish k v =>
        match s_ent s k with
        | None => (s, [])
        | Some e =>
            if Nat.leb v (e_ver e) then (s, [])
            else
              let d := if keep && e_data e then Some (mkPrep (e_ver e) (e_ver e)) else None in
              (mkSt (upd (s_ent s) k (Some (mkEnt v keep (e_nb e)))) (s_polls s)
                    (s_bc s ++ [mkBc k v d]) (s_conn s) (s_sub s) (s_held s) (s_keys s), [])
        end
    | ADeliver i dp1 =>
        match nth_error (s_bc s) i with
        | None => (s, [])
        | Some b =>
            deliver (mkSt (s_ent s) (s_polls s) (remove_nth i (s_bc s)) (s_conn s) (s_sub s) (s_held s) (s_keys s)) b dp1
        end
    | ALose i =>
        (mkSt (s_ent s) (s_polls s) (remove_nth i (s_bc s)) (s_conn s) (s_sub s) (s_held s) (s_keys s), [])
    | ARevoke k others =>
        match s_conn s k with
        | None => (s, [])
        | Some _ =>
            (mkSt (if others then s_ent s else upd (s_ent s) k None) (s_polls s) (s_bc s)
                  (upd (s_conn s) k None) (s_sub s) (upd (s_held s) k None) (del_tkey k (s_keys s)),
             [PRemoved k])
        end
    | AEpochFlip =>
        (* every entry is reset; the connections found in the keyed hub (those that track at least one
           key) are unsubscribed with insufficient state *)
        let ent' := fun k => match s_ent s k with Some _ => Some (mkEnt 0 false false) | None => None end in
        match s_keys s with
        | [] => (mkSt ent' (s_polls s) (s_bc s) (s_conn s) (s_sub s) (s_held s) [], [])
        | _ :: _ =>
            (* the unsubscribed connections untrack everything: entries without subscribers are dropped *)
            (mkSt (fun _ => None) (s_polls s) (s_bc s) (fun _ => None) false (fun _ => None) [], [PUnsub])
        end
    | APollNone i =>
        (mkSt (s_ent s) (remove_nth i (s_polls s)) (s_bc s) (s_conn s) (s_sub s) (s_held s) (s_keys s), [])
    end.

  Fixpoint run (s : st) (l : list act) : st * list (list push) :=
    match l with
    | [] => (s, [])
    | a :: t =>
        let '(s1, p) := step s a in
        let '(s2, ps) := run s1 t in
        (s2, p :: ps)
    end.

  Definition init : st := mkSt (fun _ => None) [] [] (fun _ => None) false (fun _ => None) [].
End Step.
