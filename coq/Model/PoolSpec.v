(* Specification of C42, written from the property text, independent of how
   the pools index their classes:

     "Every pooled byte buffer, byte-slice list or item buffer obtained for a
      requested length is empty and has capacity at least that length,
      regardless of what was previously returned to the pool."

   An observation of a returned buffer is (cap, len, lowest index of a
   non-zero slot of the backing array).  "Empty" is: for byte buffers and
   byte-slice lists len = 0; for item buffers (whose Get returns a slice of
   the requested length that the writer fills by index) len = requested
   length and every visible slot is the zero Item. *)
From Coq Require Import List NArith ZArith Bool.
From Cfg Require Import Model.Pool.
Open Scope N_scope.

(* capacity and length contract *)
Definition size_ok (k : kind) (n : Z) (o : obs) : Prop :=
  match o with
  | ObsPanic => False
  | ObsBuf c l _ =>
      (n <= Z.of_N c)%Z /\ l <= c /\
      match k with IB => (0 < n)%Z -> Z.of_N l = n | _ => l = 0 end
  end.

(* no visible slot holds a stale value *)
Definition visible_clean (o : obs) : Prop :=
  match o with
  | ObsPanic => True
  | ObsBuf _ l d => forall i, d = Some i -> l <= i
  end.

Definition good (k : kind) (n : Z) (o : obs) : Prop := size_ok k n o /\ visible_clean o.

Definition size_ok_b (k : kind) (n : Z) (o : obs) : bool :=
  match o with
  | ObsPanic => false
  | ObsBuf c l _ =>
      (n <=? Z.of_N c)%Z && (l <=? c) &&
      match k with IB => if (0 <? n)%Z then (Z.of_N l =? n)%Z else true | _ => l =? 0 end
  end.

Definition visible_clean_b (o : obs) : bool :=
  match o with
  | ObsPanic => true
  | ObsBuf _ l (Some i) => l <=? i
  | ObsBuf _ _ None => true
  end.

Definition good_b (k : kind) (n : Z) (o : obs) : bool := size_ok_b k n o && visible_clean_b o.
