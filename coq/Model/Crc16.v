(* CRC16 as used for Redis Cluster hash slots.

   [crc16_spec]  the specification, independent of both Go implementations:
                 CRC-16/XMODEM (CCITT polynomial x^16+x^12+x^5+1 = 0x1021,
                 initial value 0, message bits fed most-significant first, no
                 reflection, no final xor) as the textbook bit-serial shift
                 register: one message bit per step.
   [crc16_loop]  mirrors internal/redispartition/partitions.go crc16
                 (xor the byte into the high half, then 8 conditional shifts).
   [crc16_tab]   mirrors the table walk inside redis_cluster_slot.go redisSlot,
                 parametric in the 256-entry table (generated: Gen/CrcTab.v).
   Bytes are N (< 256). Executable, no proofs here. *)
From Coq Require Import List NArith Bool.
Import ListNotations.
Open Scope N_scope.

Definition poly : N := 4129.      (* 0x1021 *)
Definition mask16 : N := 65535.   (* uint16 truncation *)

(* ---------------- specification ---------------- *)
Definition spec_bit (c : N) (m : bool) : N :=
  let top := xorb (N.testbit c 15) m in
  let c2 := N.land (N.shiftl c 1) mask16 in
  if top then N.lxor c2 poly else c2.

Definition bits_of_byte (b : N) : list bool :=
  [N.testbit b 7; N.testbit b 6; N.testbit b 5; N.testbit b 4;
   N.testbit b 3; N.testbit b 2; N.testbit b 1; N.testbit b 0].

Definition spec_bits (c : N) (ms : list bool) : N := fold_left spec_bit ms c.

Definition crc16_spec (bs : list N) : N := spec_bits 0 (concat (map bits_of_byte bs)).

(* ---------------- partitions.go crc16 ---------------- *)
(* if crc&0x8000 != 0 { crc = (crc << 1) ^ 0x1021 } else { crc <<= 1 }   (uint16) *)
Definition go_shift (c : N) : N :=
  if N.testbit c 15 then N.lxor (N.land (N.shiftl c 1) mask16) poly
  else N.land (N.shiftl c 1) mask16.

(* crc ^= uint16(b) << 8 ; for range 8 { ... } *)
Definition go_byte (c b : N) : N := Nat.iter 8 go_shift (N.lxor c (N.shiftl b 8)).

Definition crc16_loop (bs : list N) : N := fold_left go_byte bs 0.

(* ---------------- redis_cluster_slot.go table walk ---------------- *)
(* crc = (crc << 8) ^ crc16tab[byte(crc>>8)^key[i]]   (uint16) *)
Definition tab_byte (tab : list N) (c b : N) : N :=
  N.lxor (N.land (N.shiftl c 8) mask16)
         (nth (N.to_nat (N.lxor (N.land (N.shiftr c 8) 255) b)) tab 0).

Definition crc16_tab (tab : list N) (bs : list N) : N := fold_left (tab_byte tab) bs 0.
