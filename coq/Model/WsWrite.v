(* Executable model of the frame writer of /repo/internal/websocket:
   conn.go      messageWriter (flushFrame header layouts for server/client, ncopy/Write/WriteString/
                ReadFrom chunking against the write buffer, the large-write bypass), WriteMessage
                (server fast path and NextWriter path), WriteControl, write()'s close-sent latch;
   prepared.go  PreparedMessage frames (a WriteMessage on a private Conn with the default buffer);
   compression.go truncWriter and flateWriteWrapper.Close (extension: compress/flate is a parameter).
   Masking keys (crypto/rand) are an input: one key per client frame.  Output: the bytes put on the wire.
   No proofs here. *)
From Coq Require Import List NArith Bool.
From Cfg Require Import Gen.WsConst Model.WsFrame.
Import ListNotations.
Open Scope N_scope.

Record wcfg := mkWcfg {
  wc_server : bool;      (* c.isServer *)
  wc_buf : N;            (* len(c.writeBuf) = configured write buffer size + maxFrameHeaderSize *)
  wc_compress : bool     (* c.newCompressionWriter != nil && c.enableWriteCompression *)
}.

(* bytes of payload that fit in the buffer after the header area *)
Definition cap (cfg : wcfg) : N := wc_buf cfg - c_maxFrameHeaderSize.

Definition is_control_type (t : N) : bool := (t =? c_CloseMessage) || (t =? c_PingMessage) || (t =? c_PongMessage).
Definition is_data_type (t : N) : bool := (t =? c_TextMessage) || (t =? c_BinaryMessage).

(* flushFrame's three header layouts; the mask bit is set for clients *)
Definition encode_header (server : bool) (b0 : N) (length : N) : bytes :=
  let mb := if server then 0 else c_maskBit in
  if 65536 <=? length then [b0; mb + 127] ++ be_enc 8 length
  else if 125 <? length then [b0; mb + 126] ++ be_enc 2 length
  else [b0; mb + length].

Inductive werr :=
| WeControl        (* errInvalidControlFrame *)
| WeBadType        (* errBadWriteOpCode *)
| WeCloseSent      (* ErrCloseSent *)
| WeInternal.      (* "internal error, extra used in client mode" *)

(* the masking keys still to be used *)
Definition next_key (keys : list bytes) : bytes * list bytes :=
  match keys with k :: ks => (k, ks) | [] => ([0; 0; 0; 0], []) end.

(* messageWriter: data in writeBuf[maxFrameHeaderSize:pos], type of the next frame, RSV1 pending *)
Record mw := mkMw { m_buf : bytes; m_type : N; m_compress : bool }.

(* flushFrame(final, extra): the frame on the wire and the writer set up for the next frame *)
Definition flush_frame (cfg : wcfg) (keys : list bytes) (w : mw) (final : bool) (extra : bytes)
  : (bytes * list bytes * mw) + werr :=
  let length := N.of_nat (length (m_buf w) + length extra) in
  if is_control_type (m_type w) && (negb final || (c_maxControlFramePayloadSize <? length)) then inr WeControl
  else
    let b0 := m_type w + (if final then c_finalBit else 0) + (if m_compress w then c_rsv1Bit else 0) in
    let w' := mkMw [] c_continuationFrame false in
    if wc_server cfg then inl (encode_header true b0 length ++ m_buf w ++ extra, keys, w')
    else
      let '(key, keys') := next_key keys in
      match extra with
      | [] => inl (encode_header false b0 length ++ key ++ xor_mask key 0 (m_buf w), keys', w')
      | _ => inr WeInternal
      end.

(* the copy loop of Write / WriteString: fill the buffer, flush a non-final frame when it is full
   and more data is waiting *)
Fixpoint copy_loop (fuel : nat) (cfg : wcfg) (keys : list bytes) (w : mw) (p : bytes) (wire : bytes)
  : (bytes * list bytes * mw) + werr :=
  match p with
  | [] => inl (wire, keys, w)
  | _ =>
      match fuel with
      | O => inl (wire, keys, w)
      | S f =>
          let room := cap cfg - N.of_nat (length (m_buf w)) in
          if room =? 0 then
            match flush_frame cfg keys w false [] with
            | inl (fr, keys', w') =>
                let n := N.min (cap cfg) (N.of_nat (length p)) in
                copy_loop f cfg keys' (mkMw (firstn (N.to_nat n) p) (m_type w') (m_compress w')) (skipn (N.to_nat n) p) (wire ++ fr)
            | inr e => inr e
            end
          else
            let n := N.min room (N.of_nat (length p)) in
            copy_loop f cfg keys (mkMw (m_buf w ++ firstn (N.to_nat n) p) (m_type w) (m_compress w)) (skipn (N.to_nat n) p) wire
      end
  end.

(* the three ways to feed a messageWriter *)
Inductive chunk :=
| CWrite (p : bytes)          (* w.Write(p) *)
| CString (p : bytes)         (* io.WriteString(w, s) *)
| CReadFrom (p : bytes)       (* w.ReadFrom(r), r a reader that returns (0, io.EOF) after its last bytes *)
| CReadFromE (p : bytes).     (* w.ReadFrom(r), r a reader that returns its last bytes together with io.EOF *)

Definition feed (cfg : wcfg) (keys : list bytes) (w : mw) (c : chunk) : (bytes * list bytes * mw) + werr :=
  match c with
  | CWrite p =>
      if (2 * wc_buf cfg <? N.of_nat (length p)) && wc_server cfg then flush_frame cfg keys w false p   (* don't buffer large messages *)
      else copy_loop (S (length p)) cfg keys w p []
  | CString p => copy_loop (S (length p)) cfg keys w p []
  | CReadFromE p => copy_loop (S (length p)) cfg keys w p []      (* the loop ends with the last Read: no flush of a full buffer *)
  | CReadFrom p =>
      match copy_loop (S (length p)) cfg keys w p [] with
      | inl (wire, keys', w') =>
          (* the loop flushes a full buffer before it learns that the reader is at EOF *)
          if (N.of_nat (length (m_buf w')) =? cap cfg) then
            match flush_frame cfg keys' w' false [] with
            | inl (fr, keys'', w'') => inl (wire ++ fr, keys'', w'')
            | inr e => inr e
            end
          else inl (wire, keys', w')
      | inr e => inr e
      end
  end.

Fixpoint feed_all (cfg : wcfg) (keys : list bytes) (w : mw) (cs : list chunk) (wire : bytes)
  : (bytes * list bytes * mw) + werr :=
  match cs with
  | [] => inl (wire, keys, w)
  | c :: cs' =>
      match feed cfg keys w c with
      | inl (fr, keys', w') => feed_all cfg keys' w' cs' (wire ++ fr)
      | inr e => inr e
      end
  end.

(* NextWriter(typ); feed...; Close() *)
Definition write_stream (cfg : wcfg) (keys : list bytes) (typ : N) (cs : list chunk) : (bytes * list bytes) + werr :=
  if negb (is_control_type typ) && negb (is_data_type typ) then inr WeBadType
  else
    match feed_all cfg keys (mkMw [] typ false) cs [] with
    | inl (wire, keys', w) =>
        match flush_frame cfg keys' w true [] with
        | inl (fr, keys'', _) => inl (wire ++ fr, keys'')
        | inr e => inr e
        end
    | inr e => inr e
    end.

(* WriteMessage(typ, data) for messages that do not go through the flate writer *)
Definition write_message (cfg : wcfg) (keys : list bytes) (typ : N) (data : bytes) : (bytes * list bytes) + werr :=
  if wc_server cfg && negb (wc_compress cfg) then
    (* fast path: one frame, the part that does not fit in the buffer goes out as `extra` *)
    if negb (is_control_type typ) && negb (is_data_type typ) then inr WeBadType
    else
      let n := N.to_nat (N.min (cap cfg) (N.of_nat (length data))) in
      match flush_frame cfg keys (mkMw (firstn n data) typ false) true (skipn n data) with
      | inl (fr, keys', _) => inl (fr, keys')
      | inr e => inr e
      end
  else write_stream cfg keys typ [CWrite data].

(* WriteControl(typ, data, deadline) with a free write lock *)
Definition write_control (cfg : wcfg) (keys : list bytes) (typ : N) (data : bytes) : (bytes * list bytes) + werr :=
  if negb (is_control_type typ) then inr WeBadType
  else if c_maxControlFramePayloadSize <? N.of_nat (length data) then inr WeControl
  else
    let b0 := typ + c_finalBit in
    if wc_server cfg then inl ([b0; N.of_nat (length data)] ++ data, keys)
    else let '(key, keys') := next_key keys in
         inl ([b0; N.of_nat (length data) + c_maskBit] ++ key ++ xor_mask key 0 data, keys').

(* PreparedMessage.frame(key): WriteMessage on a private Conn with the default write buffer *)
Definition prepared_cfg (cfg : wcfg) : wcfg :=
  mkWcfg (wc_server cfg) (c_defaultWriteBufferSize + c_maxFrameHeaderSize) (wc_compress cfg).

(* ---- extension: permessage-deflate on the write side.  compress/flate is a parameter: the model is
   given the chunks the flate.Writer handed to its destination (during Write and the final Flush). *)

(* truncWriter.Write: everything but the last four bytes of the stream goes downstream *)
Definition trunc_write (held p : bytes) : list bytes * bytes :=
  let n := Nat.min (4 - List.length held) (List.length p) in
  let held1 := held ++ firstn n p in
  let p1 := skipn n p in
  match p1 with
  | [] => ([], held1)
  | _ =>
      let m := Nat.min (List.length p1) 4 in
      ([firstn m held1; firstn (List.length p1 - m) p1], skipn m held1 ++ skipn (List.length p1 - m) p1)
  end.

Fixpoint trunc_all (held : bytes) (zs : list bytes) : list bytes * bytes :=
  match zs with
  | [] => ([], held)
  | z :: zs' =>
      let '(d, held1) := trunc_write held z in
      let '(ds, held2) := trunc_all held1 zs' in
      (d ++ ds, held2)
  end.

Definition flate_sync_tail : bytes := [0; 0; 255; 255].

(* NextWriter(typ) with compression; the application's writes went through flate (chunks zs); Close() *)
Definition write_stream_z (cfg : wcfg) (keys : list bytes) (typ : N) (zs : list bytes) : (bytes * list bytes) + werr :=
  let '(downs, held) := trunc_all [] zs in
  match feed_all cfg keys (mkMw [] typ true) (map CWrite downs) [] with
  | inl (wire, keys', w) =>
      if negb (if list_eq_dec N.eq_dec held flate_sync_tail then true else false) then inr WeInternal
      else
        match flush_frame cfg keys' w true [] with
        | inl (fr, keys'', _) => inl (wire ++ fr, keys'')
        | inr e => inr e
        end
  | inr e => inr e
  end.

Inductive wop :=
| OpMessage (typ : N) (data : bytes)                     (* c.WriteMessage *)
| OpStream (typ : N) (cs : list chunk)                   (* c.NextWriter + Write.../WriteString/ReadFrom + Close *)
| OpControl (typ : N) (data : bytes)                     (* c.WriteControl *)
| OpPrepared (typ : N) (data : bytes) (pkeys : list bytes) (* c.WritePreparedMessage; pkeys = keys drawn when the frame was prepared *)
| OpZ (typ : N) (data : bytes) (zs : list bytes)         (* a text/binary message written through the flate writer (WriteMessage or NextWriter...Close) *)
| OpPreparedZ (typ : N) (data : bytes) (zs : list bytes) (pkeys : list bytes).

(* one operation on a connection; sent = a close frame has been written (writeErr = ErrCloseSent) *)
Definition write_op (cfg : wcfg) (keys : list bytes) (sent : bool) (o : wop) : bytes * list bytes * bool * option werr :=
  if sent then ([], keys, sent, Some WeCloseSent)
  else
    let '(r, typ) :=
        match o with
        | OpMessage typ data =>
            (if wc_compress cfg && is_data_type typ then inr WeInternal     (* goes through flate: OpZ *)
             else write_message cfg keys typ data, typ)
        | OpStream typ cs =>
            (if wc_compress cfg && is_data_type typ then inr WeInternal
             else write_stream cfg keys typ cs, typ)
        | OpControl typ data => (write_control cfg keys typ data, typ)
        | OpPrepared typ data pkeys =>
            (if wc_compress cfg && is_data_type typ then inr WeInternal
             else match write_message (prepared_cfg cfg) pkeys typ data with
                  | inl (fr, _) => inl (fr, keys)
                  | inr e => inr e
                  end, typ)
        | OpZ typ data zs =>
            (if wc_compress cfg && is_data_type typ then write_stream_z cfg keys typ zs else inr WeInternal, typ)
        | OpPreparedZ typ data zs pkeys =>
            (if wc_compress cfg && is_data_type typ then
               match write_stream_z (prepared_cfg cfg) pkeys typ zs with
               | inl (fr, _) => inl (fr, keys)
               | inr e => inr e
               end
             else inr WeInternal, typ)
        end in
    match r with
    | inl (wire, keys') => (wire, keys', typ =? c_CloseMessage, None)
    | inr e => ([], keys, false, Some e)
    end.

Fixpoint write_all (cfg : wcfg) (keys : list bytes) (sent : bool) (ops : list wop) : bytes * list (option werr) :=
  match ops with
  | [] => ([], [])
  | o :: ops' =>
      let '(wire, keys', sent', e) := write_op cfg keys sent o in
      let '(wire', es) := write_all cfg keys' sent' ops' in
      (wire ++ wire', e :: es)
  end.

(* c.EnableWriteCompression(b) between operations: every operation is tagged with the flag in force *)
Fixpoint write_all_t (cfg : wcfg) (keys : list bytes) (sent : bool) (ops : list (bool * wop)) : bytes * list (option werr) :=
  match ops with
  | [] => ([], [])
  | (z, o) :: ops' =>
      let cfg' := mkWcfg (wc_server cfg) (wc_buf cfg) (wc_compress cfg && z) in
      let '(wire, keys', sent', e) := write_op cfg' keys sent o in
      let '(wire', es) := write_all_t cfg keys' sent' ops' in
      (wire ++ wire', e :: es)
  end.

(* ---- a writer the application left open ("abandoned"): NextWriter + writes, no Close.
   beginMessage (NextWriter and WriteMessage) closes it first, i.e. finishes its message; WriteControl
   and WritePreparedMessage do not go through beginMessage and leave it open. *)
Inductive xop :=
| XOp (z : bool) (o : wop)                 (* an operation as above, z = EnableWriteCompression flag in force *)
| XOpen (typ : N) (cs : list chunk).       (* c.NextWriter(typ) + writes, the writer is NOT closed *)

Definition begins_message (o : wop) : bool :=
  match o with OpMessage _ _ | OpStream _ _ | OpZ _ _ _ => true | _ => false end.

(* c.writer.Close() of the writer left open; its error is ignored *)
Definition close_open (cfg : wcfg) (keys : list bytes) (open : option mw) : bytes * list bytes :=
  match open with
  | None => ([], keys)
  | Some w => match flush_frame cfg keys w true [] with
              | inl (fr, keys', _) => (fr, keys')
              | inr _ => ([], keys)
              end
  end.

Fixpoint write_all_o (cfg : wcfg) (keys : list bytes) (sent : bool) (open : option mw) (ops : list xop)
  : bytes * list (option werr) :=
  match ops with
  | [] => ([], [])
  | x :: ops' =>
      let begins := match x with XOp _ o => begins_message o | XOpen _ _ => true end in
      let '(pre, keys1) := if begins && negb sent then close_open cfg keys open else ([], keys) in
      let open1 := if begins then None else open in
      match x with
      | XOp z o =>
          let cfg' := mkWcfg (wc_server cfg) (wc_buf cfg) (wc_compress cfg && z) in
          let '(wire, keys2, sent', e) := write_op cfg' keys1 sent o in
          let '(wire', es) := write_all_o cfg keys2 sent' open1 ops' in
          (pre ++ wire ++ wire', e :: es)
      | XOpen typ cs =>
          if sent then
            let '(wire', es) := write_all_o cfg keys1 sent None ops' in (pre ++ wire', Some WeCloseSent :: es)
          else if negb (is_control_type typ) && negb (is_data_type typ) then
            let '(wire', es) := write_all_o cfg keys1 sent None ops' in (pre ++ wire', Some WeBadType :: es)
          else
            match feed_all cfg keys1 (mkMw [] typ false) cs [] with
            | inl (wire, keys2, w) =>
                let '(wire', es) := write_all_o cfg keys2 sent (Some w) ops' in (pre ++ wire ++ wire', None :: es)
            | inr e =>
                let '(wire', es) := write_all_o cfg keys1 sent None ops' in (pre ++ wire', Some e :: es)
            end
      end
  end.
