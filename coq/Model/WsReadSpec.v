(* Reference decoder for a WebSocket byte stream, written from the MUSTs of RFC 6455
   (5.1 masking, 5.2 base framing, 5.4 fragmentation, 5.5 control frames, 5.5.1 close, 5.6/8.1 UTF-8,
   7.4 status codes, 10.4 implementation limits) and RFC 7692 (6. RSV1, 7.2.2 decompression).
   It is organised by rule, not by the Go code's control flow.  A policy says which rules are
   enforced: [strict] enforces all of them; [go_policy] is the set the Go reader enforces, so that
       model = reference(go_policy)           for ALL byte streams   (Proofs/WsRead*.v)
       reference(go_policy) = reference(strict) on streams without a violation of a relaxed rule.
   Executable: the same decoder is the oracle for the implementation's observed behaviour. *)
From Coq Require Import List NArith Bool.
From Cfg Require Import Model.WsUtf8 Model.WsFrame.
Import ListNotations.
Open Scope N_scope.

Inductive vkind :=
| VRsv            (* RSV2/RSV3 set, or RSV1 set without a negotiated extension (5.2) *)
| VRsv1Ctl        (* RSV1 on a control frame (RFC 7692 6.1: only on the first fragment of a data message) *)
| VRsv1Cont       (* RSV1 on a continuation frame (RFC 7692 6.1) *)
| VOpcode         (* reserved opcode (5.2) *)
| VCtlLen         (* control frame longer than 125 bytes (5.5) *)
| VCtlFrag        (* fragmented control frame (5.5) *)
| VNestedData     (* new data frame while a fragmented message is in progress (5.4) *)
| VOrphanCont     (* continuation frame without a message in progress (5.4) *)
| VMask           (* client frame not masked / server frame masked (5.1) *)
| VLenMsb         (* 64 bit length with the most significant bit set (5.2) *)
| VNonMinimal     (* length not in the minimal number of bytes (5.2) *)
| VMsgLen63       (* message length not representable in 63 bits (10.4: answered with 1009) *)
| VCloseLen1      (* close body of exactly one byte (5.5.1: no body, or a 2 byte status code first) *)
| VCloseCode      (* status code that must not appear on the wire (7.4) *)
| VCloseUtf8      (* close reason not UTF-8 (5.5.1) *)
| VTextUtf8.      (* text message not UTF-8 (5.6, 8.1) *)

Definition vkind_eqb (a b : vkind) : bool :=
  match a, b with
  | VRsv, VRsv | VRsv1Ctl, VRsv1Ctl | VRsv1Cont, VRsv1Cont | VOpcode, VOpcode | VCtlLen, VCtlLen
  | VCtlFrag, VCtlFrag | VNestedData, VNestedData | VOrphanCont, VOrphanCont | VMask, VMask
  | VLenMsb, VLenMsb | VNonMinimal, VNonMinimal | VMsgLen63, VMsgLen63 | VCloseLen1, VCloseLen1
  | VCloseCode, VCloseCode | VCloseUtf8, VCloseUtf8 | VTextUtf8, VTextUtf8 => true
  | _, _ => false
  end.

Record scfg := mkScfg {
  s_server : bool;          (* the decoder is the server: peer frames must be masked *)
  s_compress : bool;        (* permessage-deflate negotiated *)
  s_limit : N;              (* maximum (compressed) message size, 0 = none *)
  s_dlimit : N;             (* maximum decompressed message size, 0 = none *)
  s_avail : bytes -> N      (* decompressor progress (library): number of output bytes the inflater has
                               handed out when it has been given this prefix of a compressed message and
                               asks for more input (at_eof prefix: when it is told that the stream ended
                               there); only consulted when s_dlimit > 0 *)
}.

Definition no_avail : bytes -> N := fun _ => 0.

(* the part of a compressed message received so far already inflates beyond the limit *)
Definition dtrip (c : scfg) (compressed : bool) (data : bytes) : bool :=
  compressed && (0 <? s_dlimit c) && (s_dlimit c <? s_avail c data).

Record spolicy := mkPolicy {
  lax : vkind -> bool;      (* rules that are NOT enforced *)
  close_ok : N -> bool      (* accepted received status codes (7.4; 1012-1014 are implementation defined) *)
}.

Inductive outcome :=
| OEof                              (* the stream ended (at a frame boundary or inside a frame) *)
| OClosed (code : N) (text : bytes) (* close handshake started by the peer; 1005 = no status *)
| OViol (k : vkind)                 (* protocol violation: error + close 1002 *)
| OTooBig                           (* message too big: error + close 1009 *)
| OSilent (k : vkind)               (* relaxed decoder gives up on an unrepresentable length without a close frame *)
| OInflate                          (* the compressed message does not inflate *)
| OFuel.

Inductive sevent :=
| SMsg (typ : N) (data : bytes)
| SPong (payload : bytes)           (* a ping was received: a pong with the same payload is due *)
| SEnd (o : outcome).

Definition two63 : N := 9223372036854775808.

Definition is_control (op : N) : bool := N.testbit op 3.            (* 0x8-0xF *)
Definition known_op (op : N) : bool := existsb (N.eqb op) [0; 1; 2; 8; 9; 10].
Definition is_data_start (op : N) : bool := (op =? 1) || (op =? 2).

(* violations that can be decided from the first two bytes *)
Definition header_violations (compress server in_frag fin rsv1 rsv2 rsv3 masked : bool) (op len7 : N) : list vkind :=
  (if rsv2 || rsv3 || (rsv1 && negb compress) then [VRsv] else [])
  ++ (if rsv1 && compress && is_control op then [VRsv1Ctl] else [])
  ++ (if rsv1 && compress && (op =? 0) then [VRsv1Cont] else [])
  ++ (if negb (known_op op) then [VOpcode] else [])
  ++ (if is_control op && (125 <? len7) then [VCtlLen] else [])
  ++ (if is_control op && negb fin then [VCtlFrag] else [])
  ++ (if is_data_start op && in_frag then [VNestedData] else [])
  ++ (if (op =? 0) && negb in_frag then [VOrphanCont] else [])
  ++ (if negb (Bool.eqb masked server) then [VMask] else []).

Definition enforced (P : spolicy) (vs : list vkind) : list vkind := filter (fun k => negb (lax P k)) vs.

(* a message being reassembled: type, compressed?, payload so far, announced length so far *)
Definition fragst := (N * bool * bytes * N)%type.

Inductive fres :=
| FEnd (evs : list sevent)
| FCont (evs : list sevent) (frag : option fragst) (rest : bytes).

Definition need (n : N) (bs : bytes) (k : bytes -> bytes -> fres) : fres :=
  match take_n n bs with
  | None => FEnd [SEnd OEof]
  | Some (p, rest) => k p rest
  end.

Definition check (P : spolicy) (vs : list vkind) (k : fres) : fres :=
  match enforced P vs with
  | v :: _ => FEnd [SEnd (OViol v)]
  | [] => k
  end.

(* 5.5.1 *)
Definition close_frame (P : spolicy) (payload : bytes) : fres :=
  match payload with
  | [] => FEnd [SEnd (OClosed 1005 [])]
  | [_] => check P [VCloseLen1] (FEnd [SEnd (OClosed 1005 [])])
  | a :: b :: text =>
      check P (if close_ok P (a * 256 + b) then [] else [VCloseCode])
        (check P (if utf8_valid text then [] else [VCloseUtf8])
           (FEnd [SEnd (OClosed (a * 256 + b) text)]))
  end.

(* a complete data message *)
Definition complete (P : spolicy) (c : scfg) (inflate : bytes -> option bytes) (typ : N) (compressed : bool) (data : bytes)
           (rest : bytes) : fres :=
  let finish (out : bytes) :=
      check P (if (typ =? 1) && negb (utf8_valid out) then [VTextUtf8] else []) (FCont [SMsg typ out] None rest) in
  if dtrip c compressed data then FEnd [SEnd OTooBig]
  else if compressed then
    match inflate data with
    | None => FEnd [SEnd OInflate]
    | Some out =>
        if (0 <? s_dlimit c) && (s_dlimit c <? N.of_nat (length out)) then FEnd [SEnd OTooBig]
        else finish out
    end
  else finish data.

Definition unmask (c : scfg) (key p : bytes) : bytes := if s_server c then xor_mask key 0 p else p.

(* payload length (5.2) *)
Definition spec_len (P : spolicy) (len7 : N) (bs1 : bytes) (k : N -> bytes -> fres) : fres :=
  if len7 =? 126 then
    need 2 bs1 (fun q bs2 => check P (if be q <? 126 then [VNonMinimal] else []) (k (be q) bs2))
  else if len7 =? 127 then
    need 8 bs1 (fun q bs2 =>
      if two63 <=? be q then (if lax P VLenMsb then FEnd [SEnd (OSilent VLenMsb)] else FEnd [SEnd (OViol VLenMsb)])
      else check P (if be q <? 65536 then [VNonMinimal] else []) (k (be q) bs2))
  else k len7 bs1.

(* masking key (5.3) *)
Definition spec_key (masked : bool) (bs2 : bytes) (k : bytes -> bytes -> fres) : fres :=
  if masked then need 4 bs2 k else k [] bs2.

(* control frames (5.5) *)
Definition spec_control (P : spolicy) (c : scfg) (frag : option fragst) (op len : N) (key bs3 : bytes) : fres :=
  need len bs3 (fun pl bs4 =>
    let payload := unmask c key pl in
    if op =? 9 then FCont [SPong payload] frag bs4
    else if op =? 10 then FCont [] frag bs4
    else close_frame P payload).

(* data frames (5.4, 5.6): first fragment or continuation *)
Definition spec_data (P : spolicy) (c : scfg) (inflate : bytes -> option bytes) (frag : option fragst)
           (fin rsv1 : bool) (op len : N) (key bs3 : bytes) : fres :=
  let '(typ, compressed, acc, total0) :=
      match frag with
      | Some f => f
      | None => (op, rsv1 && s_compress c, [], 0)
      end in
  let total := total0 + len in
  if two63 <=? total then (if lax P VMsgLen63 then FEnd [SEnd (OSilent VMsgLen63)] else FEnd [SEnd (OViol VMsgLen63)])
  else if (0 <? s_limit c) && (s_limit c <? total) then FEnd [SEnd OTooBig]
  else
    match take_n len bs3 with
    | None =>
        (* the stream ends inside this frame: what has arrived may already be too big *)
        if dtrip c compressed (at_eof (acc ++ unmask c key bs3)) then FEnd [SEnd OTooBig] else FEnd [SEnd OEof]
    | Some (pl, bs4) =>
        let data := acc ++ unmask c key pl in
        if fin then complete P c inflate typ compressed data bs4
        else if dtrip c compressed data then FEnd [SEnd OTooBig]
        else FCont [] (Some (typ, compressed, data, total)) bs4
    end.

(* one frame *)
Definition spec_frame (P : spolicy) (c : scfg) (inflate : bytes -> option bytes) (frag : option fragst) (bs : bytes) : fres :=
  need 2 bs (fun p bs1 =>
    match p with
    | b0 :: b1 :: _ =>
        let in_frag := match frag with Some _ => true | None => false end in
        check P (header_violations (s_compress c) (s_server c) in_frag (b_fin b0) (b_rsv1 b0) (b_rsv2 b0) (b_rsv3 b0)
                                   (b_masked b1) (b_opcode b0) (b_len7 b1))
          (spec_len P (b_len7 b1) bs1 (fun len bs2 =>
             spec_key (b_masked b1) bs2 (fun key bs3 =>
               if is_control (b_opcode b0) then spec_control P c frag (b_opcode b0) len key bs3
               else spec_data P c inflate frag (b_fin b0) (b_rsv1 b0) (b_opcode b0) len key bs3)))
    | _ => FEnd [SEnd OEof]
    end).

Fixpoint spec_loop (fuel : nat) (P : spolicy) (c : scfg) (inflate : bytes -> option bytes) (frag : option fragst) (bs : bytes)
  : list sevent :=
  match fuel with
  | O => [SEnd OFuel]
  | S f =>
      match spec_frame P c inflate frag bs with
      | FEnd evs => evs
      | FCont evs frag' rest => evs ++ spec_loop f P c inflate frag' rest
      end
  end.

Definition spec_read (P : spolicy) (c : scfg) (inflate : bytes -> option bytes) (bs : bytes) : list sevent :=
  spec_loop (S (length bs)) P c inflate None bs.

(* ---- what a conforming endpoint shows for a decoded stream *)
Definition close_echo (code : N) : bytes := if code =? 1005 then [] else [(code / 256) mod 256; code mod 256].

Definition expected_one (e : sevent) : list event :=
  match e with
  | SMsg t d => [Msg t d]
  | SPong p => [Wrote 10 p]
  | SEnd OEof => [Err EEof]
  | SEnd (OClosed c t) => [Wrote 8 (close_echo c); Err (EClose c t)]
  | SEnd (OViol VMsgLen63) => [Wrote 8 [3; 241]; Err EReadLimit]     (* 10.4: too big *)
  | SEnd (OViol _) => [Wrote 8 [3; 234]; Err EProto]
  | SEnd OTooBig => [Wrote 8 [3; 241]; Err EReadLimit]
  | SEnd (OSilent _) => [Err EReadLimit]
  | SEnd OInflate => [Err EInflate]
  | SEnd OFuel => [Err EFuel]
  end.
Definition expected (es : list sevent) : list event := flat_map expected_one es.

(* the free text of 1002 / 1009 close frames is not part of the property *)
Definition norm_event (e : event) : event :=
  match e with
  | Wrote op (a :: b :: _ :: _) =>
      if (op =? 8) && (a =? 3) && ((b =? 234) || (b =? 241)) then Wrote 8 [3; b] else e
  | _ => e
  end.

(* ---- policies *)
Definition strict (ok : N -> bool) : spolicy := mkPolicy (fun _ => false) ok.

(* the rules the Go reader does not enforce (findings F13 and the two silent length overflows) *)
Definition go_lax (close1_strict : bool) (k : vkind) : bool :=
  match k with
  | VRsv1Ctl | VRsv1Cont | VNonMinimal | VTextUtf8 | VLenMsb | VMsgLen63 => true
  | VCloseLen1 => negb close1_strict
  | _ => false
  end.
Definition go_policy (close1_strict : bool) (ok : N -> bool) : spolicy := mkPolicy (go_lax close1_strict) ok.

(* first terminal outcome of a decoded stream *)
Fixpoint end_of (es : list sevent) : option outcome :=
  match es with
  | [] => None
  | SEnd o :: _ => Some o
  | _ :: r => end_of r
  end.
