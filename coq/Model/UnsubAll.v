(* C28 — model of Node.Unsubscribe (node.go) -> Hub.unsubscribe / unsubscribeAcrossUsers
   (hub.go) -> Client.Unsubscribe / Client.unsubscribe (client.go), as a sequential
   transition system over (connections x channel sets).  Besides established
   subscriptions a connection may hold subscribe attempts in flight (a reservation in
   Client.channels whose OnSubscribe callback the application has not answered yet):
   Client.Unsubscribe waits on the subscribing gate of such a channel, so the call
   completes only after the application answered; the model runs "resolve" (every
   attempt answered, successfully or not) at that point.

   [unsubscribe_connection] is the code AFTER the fix
   /verif/fixes/C28-empty-channel-unsubscribe.patch (hub.go: unsubscribeConnection);
   [unsubscribe_connection_prefix] is the code before it (the hub called
   Client.Unsubscribe(ch) directly, also for ch = "").

   Identifiers (users, client ids, sessions, channel names) are N; 0 stands for
   the empty string.  No proofs here. *)
From Coq Require Import List NArith Bool.
Import ListNotations.
Open Scope N_scope.

(* one entry of Client.channels (flagSubscribed set: settled state) *)
Record chan := mkChan {
  ch_name : N;
  ch_server : bool;      (* flagServerSide *)
  ch_presence : bool;    (* flagEmitPresence *)
  ch_joinleave : bool    (* flagEmitJoinLeave *)
}.

Record conn := mkConn {
  cn_id : N;             (* Client.uid *)
  cn_user : N;           (* Client.user, 0 = anonymous *)
  cn_session : N;        (* Client.session, 0 = none (bidirectional transports) *)
  cn_lf : bool;          (* outcome of matchLabelFilter(c, opts.labelFilter); filter semantics is C15 *)
  cn_closed : bool;      (* status == statusClosed *)
  cn_chans : list chan;  (* Client.channels with flagSubscribed; hub registry holds exactly these *)
  cn_inflight : list (chan * bool)
                         (* reservations (subscribingCh set, flags 0) with what the application will
                            answer: true = success with these flags, false = error (attempt cancelled) *)
}.

(* UnsubscribeOptions + userID argument *)
Record target := mkTarget {
  t_user : N; t_client : N; t_session : N; t_haslf : bool; t_allusers : bool
}.

Inductive ev :=
| EvPresenceRemove (cid ch : N)              (* PresenceManager.RemovePresence *)
| EvLeave (cid ch : N)                       (* Broker.PublishLeave *)
| EvCallback (cid ch : N) (server : bool) (code : N)   (* OnUnsubscribe handler *)
| EvPush (cid ch code : N).                  (* unsubscribe push written to the transport *)

Definition set_chans (c : conn) (l : list chan) : conn :=
  mkConn (cn_id c) (cn_user c) (cn_session c) (cn_lf c) (cn_closed c) l (cn_inflight c).

(* every attempt in flight has been answered: successful ones are established *)
Definition resolve (c : conn) : conn :=
  mkConn (cn_id c) (cn_user c) (cn_session c) (cn_lf c) (cn_closed c)
         (cn_chans c ++ map fst (filter snd (cn_inflight c))) [].

(* keys of Client.channels when the call arrives: established and reserved *)
Definition snapshot (c : conn) : list N :=
  map ch_name (cn_chans c) ++ map (fun a => ch_name (fst a)) (cn_inflight c).

Fixpoint find_chan (n : N) (l : list chan) : option chan :=
  match l with
  | [] => None
  | x :: r => if ch_name x =? n then Some x else find_chan n r
  end.

Definition del_chan (n : N) (l : list chan) : list chan :=
  filter (fun x => negb (ch_name x =? n)) l.

(* Client.unsubscribe after the entry was deleted, in code order: presence removal,
   leave, (hub removal: kept as state), unsubscribe handler. *)
Definition chan_effects (cid : N) (chn : chan) (code : N) : list ev :=
  (if ch_presence chn then [EvPresenceRemove cid (ch_name chn)] else []) ++
  (if ch_joinleave chn then [EvLeave cid (ch_name chn)] else []) ++
  [EvCallback cid (ch_name chn) (ch_server chn) code].

(* Client.Unsubscribe(ch, unsub): closed => nothing; channel unknown => unsubscribe()
   returns nil early and the push is STILL sent (quirk kept); else teardown + push. *)
Definition client_unsubscribe (c : conn) (n code : N) : conn * list ev :=
  if cn_closed c then (c, []) else
  match find_chan n (cn_chans c) with
  | None => (c, [EvPush (cn_id c) n code])
  | Some chn => (set_chans c (del_chan n (cn_chans c)),
                 chan_effects (cn_id c) chn code ++ [EvPush (cn_id c) n code])
  end.

Fixpoint unsub_names (c : conn) (ns : list N) (code : N) : conn * list ev :=
  match ns with
  | [] => (c, [])
  | n :: r =>
      let '(c1, e1) := client_unsubscribe c n code in
      let '(c2, e2) := unsub_names c1 r code in
      (c2, e1 ++ e2)
  end.

(* hub.go unsubscribeConnection (fixed code): empty channel = snapshot of all keys of
   Client.channels (reservations included), then Client.Unsubscribe for each; the ones in
   flight are processed after the application answered (wait gate).  A cancelled attempt
   is then not in Client.channels any more: Client.Unsubscribe still sends its push. *)
Definition unsubscribe_connection (c : conn) (n code : N) : conn * list ev :=
  if n =? 0 then unsub_names (resolve c) (snapshot c) code
  else client_unsubscribe (resolve c) n code.

(* the code before the fix *)
Definition unsubscribe_connection_prefix (c : conn) (n code : N) : conn * list ev :=
  client_unsubscribe (resolve c) n code.

(* Node.Unsubscribe routing: user "" with allUsers => every connection of the hub,
   else the connections registered under that user id (incl. the anonymous bucket). *)
Definition in_scope (t : target) (c : conn) : bool :=
  if (t_user t =? 0) && t_allusers t then true else cn_user c =? t_user t.

(* the narrowers of connShard.unsubscribe / unsubscribeAcrossUsers *)
Definition narrow (t : target) (c : conn) : bool :=
  ((t_client t =? 0) || (cn_id c =? t_client t)) &&
  ((t_session t =? 0) || (cn_session c =? t_session t)) &&
  (negb (t_haslf t) || cn_lf c).

Section Node.
  Variable uc : conn -> N -> N -> conn * list ev.

  (* one node: connections are handled by concurrent goroutines; the model runs
     them in list order (see Proofs: the property is invariant under any
     permutation of the event log). *)
  Fixpoint node_unsub (t : target) (n code : N) (s : list conn) : list conn * list ev :=
    match s with
    | [] => ([], [])
    | c :: r =>
        let '(r', er) := node_unsub t n code r in
        if in_scope t c && narrow t c then
          let '(c', e) := uc c n code in (c' :: r', e ++ er)
        else (resolve c :: r', er)
    end.

  (* Node.Unsubscribe on one node of a cluster: the control message carries
     (user, channel, code, client, session, label filter, allUsers) and every other
     node runs the same hub call (handleControl). *)
  Fixpoint cluster_unsub (t : target) (n code : N) (nodes : list (list conn))
    : list (list conn) * list ev :=
    match nodes with
    | [] => ([], [])
    | s :: r =>
        let '(s', e) := node_unsub t n code s in
        let '(r', er) := cluster_unsub t n code r in
        (s' :: r', e ++ er)
    end.
End Node.

Definition node_unsubscribe := node_unsub unsubscribe_connection.
Definition node_unsubscribe_prefix := node_unsub unsubscribe_connection_prefix.
Definition cluster_unsubscribe := cluster_unsub unsubscribe_connection.
Definition cluster_unsubscribe_prefix := cluster_unsub unsubscribe_connection_prefix.
