(* C09 — the property text as decidable predicates over what a connection was sent
   (labels) and what was observed per label (handler invocations, replies, close),
   independent of how dispatchCommand is organised.

   (gate)  before a successful connect every non-connect command closes the
           connection with bad request (3501) and no application handler runs;
   (once)  every command carrying an id gets exactly one reply with that id unless
           the connection is closed (never more than one);
   (pong)  a pong without a preceding unanswered ping closes the connection (3501). *)
From Coq Require Import List NArith Bool Arith.
From Cfg Require Import Model.Dispatch.
Import ListNotations.
Open Scope N_scope.

(* observable outputs: the ghost issue marks are dropped *)
Definition visible (o : out) : bool := match o with OIssue _ _ => false | _ => true end.
Definition vis (l : list out) : list out := filter visible l.

Definition out_eqb (a b : out) : bool :=
  match a, b with
  | OIssue i e, OIssue j f => (i =? j) && Bool.eqb e f
  | OHandler k i, OHandler l j => kind_eqb k l && (i =? j)
  | OReply i e, OReply j f => (i =? j) && (e =? f)
  | OClose c, OClose d => c =? d
  | _, _ => false
  end.

Fixpoint outs_eqb (a b : list out) : bool :=
  match a, b with
  | [], [] => true
  | x :: a', y :: b' => out_eqb x y && outs_eqb a' b'
  | _, _ => false
  end.

(* ---- what is derivable from observations alone ---- *)
Record ost := mkOst {
  a_closed : bool;            (* a close was observed *)
  a_auth : bool;              (* a successful connect was observed *)
  a_conn : option N;          (* id of the connect handler invocation just seen *)
  a_ping : option bool        (* unanswered server ping outstanding? None = not derivable *)
}.
Definition ost0 : ost := mkOst false false None (Some false).

Definition optN_eqb (a : option N) (b : N) : bool := match a with Some x => x =? b | None => false end.

(* scan one output; second component: "no application handler before auth" still holds *)
Definition scan_out (a : ost) (o : out) : ost * bool :=
  match o with
  | OIssue _ _ => (a, true)
  | OHandler k id =>
      if kind_eqb k KConnect
      then (mkOst (a_closed a) (a_auth a) (Some id) (a_ping a), true)
      else (mkOst (a_closed a) (a_auth a) None (a_ping a), a_auth a)
  | OReply id err =>
      (mkOst (a_closed a) (a_auth a || ((err =? 0) && optN_eqb (a_conn a) id)) None (a_ping a), true)
  | OClose _ => (mkOst true (a_auth a) None (a_ping a), true)
  end.

Fixpoint scan_outs (a : ost) (l : list out) : ost * bool :=
  match l with
  | [] => (a, true)
  | o :: r => let '(a1, ok1) := scan_out a o in
              let '(a2, ok2) := scan_outs a1 r in (a2, ok1 && ok2)
  end.

Definition set_aping (a : ost) (p : option bool) : ost :=
  mkOst (a_closed a) (a_auth a) (a_conn a) p.

(* per-label rules of the property + tracking of the ping bookkeeping *)
Definition step_ok (a : ost) (l : label) (o : list out) : ost * bool :=
  let '(a1, hok) := scan_outs a (vis o) in
  match l with
  | LPing => (if a_closed a then a1 else set_aping a1 (Some true), hok)
  | LComplete _ _ => (a1, hok)
  | LFrame cs m =>
      if a_closed a then (a1, hok) else
      match cs with
      | c :: rest =>
          if negb (a_auth a) && negb (has KConnect c)
          then (a1, hok && outs_eqb (vis o) [OClose 3501])                 (* gate *)
          else if a_auth a && is_pong c && match rest with [] => true | _ => false end
          then match a_ping a with
               | Some false => (a1, hok && outs_eqb (vis o) [OClose 3501])  (* unexpected pong *)
               | Some true => if m then (a1, hok)   (* undecodable rest of the frame: closed anyway *)
                              else (set_aping a1 (Some false), hok && outs_eqb (vis o) [])
               | None => (a1, hok)
               end
          else if existsb is_pong cs then (set_aping a1 None, hok)
          else (a1, hok)
      | [] => (a1, hok)
      end
  end.

Fixpoint steps_ok (a : ost) (ls : list label) (os : list (list out)) : bool :=
  match ls, os with
  | [], [] => true
  | l :: ls', o :: os' => let '(a1, ok) := step_ok a l o in ok && steps_ok a1 ls' os'
  | _, _ => false
  end.

(* ---- exactly-one-reply bookkeeping ---- *)
Definition nrep (id : N) (l : list out) : nat :=
  length (filter (fun o => match o with OReply i _ => i =? id | _ => false end) l).
Definition niss (id : N) (l : list out) : nat :=
  length (filter (fun o => match o with OIssue i true => i =? id | _ => false end) l).

Definition cmds_of (l : label) : list cmd := match l with LFrame cs _ => cs | _ => [] end.
(* commands carrying this id that were sent / that call for a reply *)
Definition sent (id : N) (ls : list label) : nat :=
  length (filter (fun c => c_id c =? id) (flat_map cmds_of ls)).
Definition sentE (id : N) (ls : list label) : nat :=
  length (filter (fun c => (c_id c =? id) && expects c) (flat_map cmds_of ls)).

Definition ids_of (ls : list label) : list N := map c_id (flat_map cmds_of ls).
Definition closed_seen (os : list (list out)) : bool :=
  existsb (fun o => match o with OClose _ => true | _ => false end) (concat os).

(* never more replies with an id than commands sent with it (also for ids never sent) *)
Definition atmost_ok (ls : list label) (os : list (list out)) : bool :=
  forallb (fun id => Nat.leb (nrep id (concat os)) (sent id ls))
          (ids_of ls ++ flat_map (fun o => match o with OReply i _ => [i] | _ => [] end) (concat os)).

(* strict reading of the text: connection still open and every callback completed
   => every id > 0 that was sent has exactly as many replies as commands *)
Definition exact_ok (quiescent : bool) (ls : list label) (os : list (list out)) : bool :=
  if quiescent && negb (closed_seen os)
  then forallb (fun id => (id =? 0) || Nat.eqb (nrep id (concat os)) (sent id ls)) (ids_of ls)
  else true.

(* the same with one-way Send commands excepted (what the code implements) *)
Definition exact_nosend_ok (quiescent : bool) (ls : list label) (os : list (list out)) : bool :=
  if quiescent && negb (closed_seen os)
  then forallb (fun id => Nat.eqb (nrep id (concat os)) (sentE id ls)) (ids_of ls)
  else true.

(* ---- (frame) an empty frame, or one with an undecodable rest, closes the connection,
   however many commands were decoded from it before ---- *)
Definition saw_close (l : list out) : bool :=
  existsb (fun o => match o with OClose _ => true | _ => false end) l.
Definition bad_frame (l : label) : bool :=
  match l with
  | LFrame cs m => m || match cs with [] => true | _ => false end
  | _ => false
  end.
Fixpoint frames_ok (closed : bool) (ls : list label) (os : list (list out)) : bool :=
  match ls, os with
  | [], [] => true
  | l :: ls', o :: os' =>
      let c' := closed || saw_close o in
      (negb (bad_frame l) || c') && frames_ok c' ls' os'
  | _, _ => false
  end.
