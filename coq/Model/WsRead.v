(* Executable model of the frame reader of /repo/internal/websocket/conn.go:
   Conn.read, advanceFrame, handleProtocolError, NextReader, messageReader.Read, ReadMessage
   (called in a loop until the first error), the default ping/pong/close handlers, SetReadLimit,
   and - as a marked extension - decompressNoContextTakeover / limitedReader with compress/flate
   as a parameter.  Input: the peer's whole byte stream.  Output: the list of observable events.
   Every Go index or slice expression on a buffer is a pattern match whose failure branch is the
   explicit outcome [Err EPanic].  No proofs here. *)
From Coq Require Import String List NArith Bool.
From Cfg Require Import Gen.WsConst Model.WsUtf8 Model.WsClose Model.WsFrame.
Import ListNotations.
Open Scope N_scope.

Record rcfg := mkRcfg {
  rc_server : bool;          (* c.isServer: frames from the peer must be masked *)
  rc_compress : bool;        (* c.newDecompressionReader != nil (permessage-deflate negotiated) *)
  rc_limit : N;              (* c.readLimit, 0 = none *)
  rc_dlimit : N;             (* c.decompressedReadLimit, 0 = none *)
  rc_rbuf : N;               (* size of c.br (bufio.Reader): Peek(n) fails with ErrBufferFull for n > size *)
  rc_close1_strict : bool;   (* the source rejects a close body of length 1 (false for the current source) *)
  rc_avail : bytes -> N      (* compress/flate, streaming (library parameter): output bytes the flate reader has
                                handed out when it has consumed this prefix of a compressed message and
                                needs more input; only consulted when rc_dlimit > 0 *)
}.

(* limitedReader trips while the message is still being read: the flate reader pulls the message frame
   by frame (frames up to the size of its 4096 byte bufio.Reader).  rc_avail d = what it has handed out
   when it asks for input beyond d (compress/flate hands out at the end of a block, when its window is
   full, or on an error - not whatever it has decoded); rc_avail (at_eof d) = what it hands out when the
   stream ends after d. *)
Definition gtrip (cfg : rcfg) (dc : bool) (data : bytes) : bool :=
  dc && (0 <? rc_dlimit cfg) && (rc_dlimit cfg <? rc_avail cfg data).

Definition too_big_after_decompression : list event :=
  [Wrote c_CloseMessage (format_close_message c_CloseMessageTooBig (str "message too big after decompression"));
   Err EReadLimit].

Definition int63 : N := 9223372036854775808.   (* 2^63: int64 values at or above wrap negative *)

(* ---- c.read(n) = br.Peek(n) + Discard *)
Inductive rd := RdOk (p rest : bytes) | RdEof | RdFull.
Definition conn_read (cfg : rcfg) (n : N) (bs : bytes) : rd :=
  if rc_rbuf cfg <? n then RdFull
  else match take_n n bs with
       | Some (p, rest) => RdOk p rest
       | None => RdEof
       end.

Definition rd_err (r : rd) : list event :=
  match r with RdFull => [Err EBufferFull] | _ => [Err EEof] end.

(* ---- handleProtocolError(message): close 1002 + message, cut to 125 bytes *)
Definition proto_error (msg : bytes) : list event :=
  [Wrote c_CloseMessage (firstn (N.to_nat c_maxControlFramePayloadSize) (format_close_message c_CloseProtocolError msg));
   Err EProto].

Definition sep_comma : bytes := [44; 32].

(* reader state that survives between frames *)
Record gst := mkG {
  g_final : bool;     (* c.readFinal *)
  g_len : N           (* c.readLength *)
}.

Inductive aframe :=
| AErr (evs : list event)                                            (* advanceFrame returned an error *)
| AData (op : N) (decomp : bool) (len : N) (key : bytes) (rest : bytes) (st : gst)   (* text/binary/continuation header *)
| ACtl (evs : list event) (rest : bytes) (st : gst).                 (* control frame handled *)

(* the errs list built from the first two header bytes; also the new readFinal.
   Written over the decoded header fields (final = FIN bit, gfinal = c.readFinal). *)
Definition header_errs_f (compress server gfinal : bool) (final rsv1 rsv2 rsv3 masked : bool) (op len7 : N)
  : list bytes * bool :=
  let e1 := if rsv1 && negb compress then [str "RSV1 set"] else [] in
  let e2 := if rsv2 then [str "RSV2 set"] else [] in
  let e3 := if rsv3 then [str "RSV3 set"] else [] in
  let '(e4, fin') :=
    if (op =? c_CloseMessage) || (op =? c_PingMessage) || (op =? c_PongMessage) then
      ((if c_maxControlFramePayloadSize <? len7 then [str "len > 125 for control"] else [])
         ++ (if negb final then [str "FIN not set on control"] else []), gfinal)
    else if (op =? c_TextMessage) || (op =? c_BinaryMessage) then
      ((if negb gfinal then [str "data before FIN"] else []), final)
    else if op =? c_continuationFrame then
      ((if gfinal then [str "continuation after FIN"] else []), final)
    else ([str "bad opcode " ++ itoa op], gfinal) in
  let e5 := if negb (Bool.eqb masked server) then [str "bad MASK"] else [] in
  (e1 ++ e2 ++ e3 ++ e4 ++ e5, fin').

Definition header_errs (cfg : rcfg) (st : gst) (b0 b1 : N) : list bytes * bool :=
  header_errs_f (rc_compress cfg) (rc_server cfg) (g_final st)
                (b_fin b0) (b_rsv1 b0) (b_rsv2 b0) (b_rsv3 b0) (b_masked b1) (b_opcode b0) (b_len7 b1).

(* step 7 of advanceFrame for a close frame whose payload has been read and unmasked *)
Definition handle_close (cfg : rcfg) (payload : bytes) : list event :=
  match payload with
  | a :: b :: text =>
      let code := be16 a b in
      if negb (is_valid_received_close_code code) then proto_error (str "bad close code " ++ itoa code)
      else if negb (utf8_valid text) then proto_error (str "invalid utf8 payload in close frame")
      else [Wrote c_CloseMessage (format_close_message code []); Err (EClose code text)]
  | [_] =>
      if rc_close1_strict cfg then proto_error (str "invalid close payload")
      else [Wrote c_CloseMessage (format_close_message c_CloseNoStatusReceived []); Err (EClose c_CloseNoStatusReceived [])]
  | [] => [Wrote c_CloseMessage (format_close_message c_CloseNoStatusReceived []); Err (EClose c_CloseNoStatusReceived [])]
  end.

(* 3. extended payload length *)
Definition read_len (cfg : rcfg) (len7 : N) (bs1 : bytes) : list event + (N * bytes) :=
  if len7 =? 126 then
    match conn_read cfg 2 bs1 with
    | RdOk q bs2 => match q with _ :: _ :: _ => inr (be q, bs2) | _ => inl [Err EPanic] end
    | r => inl (rd_err r)
    end
  else if len7 =? 127 then
    match conn_read cfg 8 bs1 with
    | RdOk q bs2 =>
        match q with
        | _ :: _ :: _ :: _ :: _ :: _ :: _ :: _ :: _ =>
            if int63 <=? be q then inl [Err EReadLimit] else inr (be q, bs2)
        | _ => inl [Err EPanic]
        end
    | r => inl (rd_err r)
    end
  else inr (len7, bs1).

(* 4. masking key *)
Definition read_key (cfg : rcfg) (mask : bool) (bs2 : bytes) : list event + (bytes * bytes) :=
  if mask then
    match conn_read cfg 4 bs2 with
    | RdOk k bs3 => inr (k, bs3)
    | r => inl (rd_err r)
    end
  else inr ([], bs2).

(* 6./7. control frame: payload and handlers; st1 = state after the header *)
Definition control_frame (cfg : rcfg) (st1 : gst) (op len : N) (key bs3 : bytes) : aframe :=
  let payr := if 0 <? len then
                match conn_read cfg len bs3 with
                | RdOk pl bs4 => inr ((if rc_server cfg then xor_mask key 0 pl else pl), bs4)
                | r => inl (rd_err r)
                end
              else inr ([], bs3) in
  match payr with
  | inl evs => AErr evs
  | inr (payload, bs4) =>
      if op =? c_PongMessage then ACtl [] bs4 st1
      else if op =? c_PingMessage then ACtl [Wrote c_PongMessage payload] bs4 st1
      else AErr (handle_close cfg payload)
  end.

(* 5. data frame: read limit *)
Definition data_frame (cfg : rcfg) (st : gst) (fin' decomp : bool) (op len : N) (key bs3 : bytes) : aframe :=
  let total := g_len st + len in
  if int63 <=? total then AErr [Err EReadLimit]
  else if (0 <? rc_limit cfg) && (rc_limit cfg <? total) then
    AErr [Wrote c_CloseMessage (format_close_message c_CloseMessageTooBig []); Err EReadLimit]
  else AData op decomp len key bs3 (mkG fin' total).

(* advanceFrame, entered with c.readRemaining = 0 *)
Definition advance_frame (cfg : rcfg) (st : gst) (bs : bytes) : aframe :=
  match conn_read cfg 2 bs with
  | RdOk p bs1 =>
      match p with
      | b0 :: b1 :: _ =>
          let op := b_opcode b0 in
          let '(errs, fin') := header_errs cfg st b0 b1 in
          match errs with
          | _ :: _ => AErr (proto_error (join sep_comma errs))
          | [] =>
              match read_len cfg (b_len7 b1) bs1 with
              | inl evs => AErr evs
              | inr (len, bs2) =>
                  match read_key cfg (b_masked b1) bs2 with
                  | inl evs => AErr evs
                  | inr (key, bs3) =>
                      if (op =? c_continuationFrame) || (op =? c_TextMessage) || (op =? c_BinaryMessage) then
                        data_frame cfg st fin' (b_rsv1 b0 && rc_compress cfg) op len key bs3
                      else control_frame cfg (mkG fin' (g_len st)) op len key bs3
                  end
              end
          end
      | _ => AErr [Err EPanic]
      end
  | r => AErr (rd_err r)
  end.

(* RFC 7692 tail appended by decompressNoContextTakeover *)
Definition flate_tail : bytes := [0; 0; 255; 255; 1; 0; 0; 255; 255].

(* a completed message is handed to the application; compressed ones go through the flate reader
   (library parameter: None = the flate reader reports an error) and the decompressed limit *)
Definition deliver (cfg : rcfg) (inflate : bytes -> option bytes) (typ : N) (decomp : bool) (data : bytes) : list event * bool :=
  if gtrip cfg decomp data then (too_big_after_decompression, false)
  else if decomp then
    match inflate (data ++ flate_tail) with
    | None => ([Err EInflate], false)
    | Some out =>
        if (0 <? rc_dlimit cfg) && (rc_dlimit cfg <? N.of_nat (List.length out)) then (too_big_after_decompression, false)
        else ([Msg typ out], true)
    end
  else ([Msg typ data], true).

(* One iteration of the frame loop of NextReader / messageReader.Read: one advanceFrame call and, for a
   data frame, the reading of its payload.  cur = the message being reassembled by messageReader
   (None while in NextReader). *)
Inductive gres :=
| GEnd (evs : list event)
| GCont (evs : list event) (st : gst) (cur : option (N * bool * bytes)) (rest : bytes).

(* NextReader / messageReader.Read after advanceFrame returned a data frame header: the payload *)
Definition data_step (cfg : rcfg) (inflate : bytes -> option bytes) (cur : option (N * bool * bytes))
           (op : N) (decomp : bool) (len : N) (key rest : bytes) (st' : gst) : gres :=
  let start :=                                   (* which message does this frame belong to *)
      match cur with
      | None => if (op =? c_TextMessage) || (op =? c_BinaryMessage) then inr (op, decomp, [])
                else inl [Err EUnreachable]     (* continuation of an abandoned message *)
      | Some (typ, dc, acc) => if op =? c_continuationFrame then inr (typ, dc, acc)
                               else inl [Err EUnreachable]   (* "unexpected text or binary in Reader" *)
      end in
  match start with
  | inl evs => GEnd evs
  | inr (typ, dc, acc) =>
      match take_n len rest with
      | None =>
          (* stream ends inside the payload; the flate reader has seen what did arrive *)
          if gtrip cfg dc (at_eof (acc ++ (if rc_server cfg then xor_mask key 0 rest else rest))) then GEnd too_big_after_decompression
          else GEnd [Err EEof]
      | Some (pl, rest') =>
          let data := acc ++ (if rc_server cfg then xor_mask key 0 pl else pl) in
          if g_final st' then
            let '(evs, ok) := deliver cfg inflate typ dc data in
            if ok then GCont evs (mkG true 0) None rest' else GEnd evs
          else if gtrip cfg dc data then GEnd too_big_after_decompression
          else GCont [] st' (Some (typ, dc, data)) rest'
      end
  end.

Definition go_step (cfg : rcfg) (inflate : bytes -> option bytes)
           (st : gst) (cur : option (N * bool * bytes)) (bs : bytes) : gres :=
  match advance_frame cfg st bs with
  | AErr evs => GEnd evs
  | ACtl evs rest st' => GCont evs st' cur rest
  | AData op decomp len key rest st' => data_step cfg inflate cur op decomp len key rest st'
  end.

(* ReadMessage in a loop until the first error *)
Fixpoint read_loop (fuel : nat) (cfg : rcfg) (inflate : bytes -> option bytes)
         (st : gst) (cur : option (N * bool * bytes)) (bs : bytes) : list event :=
  match fuel with
  | O => [Err EFuel]
  | S f =>
      match go_step cfg inflate st cur bs with
      | GEnd evs => evs
      | GCont evs st' cur' rest => evs ++ read_loop f cfg inflate st' cur' rest
      end
  end.

Definition read_all (cfg : rcfg) (inflate : bytes -> option bytes) (bs : bytes) : list event :=
  read_loop (S (List.length bs)) cfg inflate (mkG true 0) None bs.
