(* Model of the Redis key / PUB/SUB channel builders of broker_redis.go,
   presence_redis.go and map_broker_redis.go, of extractChannel, and of
   redis_cluster_slot.go redisSlot; plus the specification of Redis' hash-tag
   rule and HASH_SLOT.  Executable, no proofs here.

   Strings are byte lists.  The partition index [idx] = consistentIndex(ch, N)
   (a float64 jump hash) and the partition tag = pubSubPartitionHashTag(idx)
   are inputs of the builders: every builder of one operation recomputes them
   from the same (ch, N), so they are equal across the keys of one operation. *)
From Coq Require Import String List NArith Bool.
From Cfg Require Import Model.Crc16 Model.Partition.
Import ListNotations.
Open Scope N_scope.

Definition LB : N := 123.   (* '{' *)
Definition RB : N := 125.   (* '}' *)
Definition DOT : N := 46.   (* '.' *)

(* ---------------- Redis specification ---------------- *)

(* split at the first occurrence of c: (before, after) *)
Fixpoint split_at (c : N) (l : list N) : option (list N * list N) :=
  match l with
  | [] => None
  | x :: t => if x =? c then Some ([], t)
              else match split_at c t with
                   | Some (a, b) => Some (x :: a, b)
                   | None => None
                   end
  end.

(* Redis Cluster spec: if the key contains a '{', and there is a '}' to the
   right of the first '{', and there is at least one character between them,
   only what is between the first '{' and the first following '}' is hashed. *)
Definition hash_tag (key : list N) : list N :=
  match split_at LB key with
  | None => key
  | Some (_, rest) =>
      match split_at RB rest with
      | Some (t, _) => match t with [] => key | _ => t end
      | None => key
      end
  end.

Definition redis_slot_spec (key : list N) : N := crc16_spec (hash_tag key) mod 16384.

(* ---------------- redis_cluster_slot.go ---------------- *)
Fixpoint index_byte (c : N) (l : list N) : option nat :=
  match l with
  | [] => None
  | x :: t => if x =? c then Some O else option_map S (index_byte c t)
  end.

(* if start := indexByte(key,'{'); start >= 0 { if end := indexByte(key[start+1:],'}'); end > 0 { key = key[start+1:start+1+end] } } *)
Definition go_hash_tag (key : list N) : list N :=
  match index_byte LB key with
  | Some start =>
      let rest := skipn (S start) key in
      match index_byte RB rest with
      | Some (S e) => firstn (S e) rest
      | _ => key
      end
  | None => key
  end.

(* crc walk over the table, then crc & 0x3FFF *)
Definition redis_slot_go (tab : list N) (key : list N) : N :=
  N.land (crc16_tab tab (go_hash_tag key)) 16383.

(* ---------------- configuration ---------------- *)
Record cfg := mkCfg {
  c_prefix : list N;     (* config.Prefix *)
  c_cluster : bool;      (* shard.isCluster *)
  c_parts : N;           (* NumShardedPubSubPartitions *)
  c_lists : bool         (* UseLists *)
}.

Definition sharded (c : cfg) : bool := c_cluster c && (0 <? c_parts c).
Definition mprefix (c : cfg) : list N := c_prefix c ++ s2b ".client.".

(* strconv.Itoa for idx >= 0 *)
Fixpoint itoa_aux (fuel : nat) (n : N) (acc : list N) : list N :=
  match fuel with
  | O => acc
  | S f => let acc' := (48 + n mod 10) :: acc in
           if n / 10 =? 0 then acc' else itoa_aux f (n / 10) acc'
  end.
Definition itoa (n : N) : list N := itoa_aux (S (N.to_nat (N.size n))) n [].

Definition tagged (tag ch : list N) : list N := LB :: tag ++ RB :: DOT :: ch.    (* "{" tag "}." ch *)
Definition braced (ch : list N) : list N := LB :: ch ++ [RB].                      (* "{" ch "}" *)

(* ---------------- broker_redis.go ---------------- *)
Definition b_message (c : cfg) (tag ch : list N) : list N :=
  if sharded c then mprefix c ++ tagged tag ch
  else if c_cluster c then mprefix c ++ braced ch
  else mprefix c ++ ch.

(* common shape of historyListKey / historyStreamKey / historyMetaKey / resultCacheKey *)
Definition b_keyed (c : cfg) (infix tag ch suffix : list N) : list N :=
  if negb (c_cluster c) then c_prefix c ++ infix ++ ch ++ suffix
  else if 0 <? c_parts c then c_prefix c ++ infix ++ tagged tag ch ++ suffix
  else c_prefix c ++ infix ++ braced ch ++ suffix.

Definition b_list c tag ch := b_keyed c (s2b ".list.") tag ch [].
Definition b_stream c tag ch := b_keyed c (s2b ".stream.") tag ch [].
Definition b_meta c tag ch :=
  b_keyed c (if c_lists c then s2b ".list.meta." else s2b ".stream.meta.") tag ch [].
Definition b_result c tag ch ik := b_keyed c (s2b ".result.") tag ch (DOT :: ik).

Definition broker_keys c tag ch ik : list (list N) :=
  [b_message c tag ch; b_list c tag ch; b_stream c tag ch; b_meta c tag ch; b_result c tag ch ik].

Fixpoint is_prefix (p s : list N) : bool :=
  match p, s with
  | [], _ => true
  | x :: p', y :: s' => (x =? y) && is_prefix p' s'
  | _ :: _, [] => false
  end.
Definition trim_prefix (p s : list N) : list N := if is_prefix p s then skipn (length p) s else s.

(* the "{idx}.channel" branch shared by both extractChannel functions *)
Definition extract_sharded (ch : list N) : list N :=
  match ch with
  | x :: _ =>
      if x =? LB then
        match index_byte DOT ch with
        | Some (S i) => skipn (S (S i)) ch          (* i > 0: ch[i+1:] *)
        | _ => []
        end
      else []
  | [] => []
  end.

(* RedisBroker.extractChannel(isCluster, chID) *)
Definition b_extract (c : cfg) (chid : list N) : list N :=
  let ch := trim_prefix (mprefix c) chid in
  if 0 <? c_parts c then extract_sharded ch
  else if c_cluster c then
    match ch with
    | x :: t => if (2 <=? N.of_nat (length ch)) && (x =? LB) && (last ch 0 =? RB) then removelast t else []
    | [] => []
    end
  else ch.

(* ---------------- presence_redis.go ---------------- *)
Definition p_key (c : cfg) (infix ch : list N) : list N :=
  if c_cluster c then c_prefix c ++ infix ++ braced ch else c_prefix c ++ infix ++ ch.

Definition presence_keys c ch : list (list N) :=
  [p_key c (s2b ".presence.data.") ch; p_key c (s2b ".presence.expire.") ch;
   p_key c (s2b ".presence.user.expire.") ch; p_key c (s2b ".presence.user.clients.") ch].

(* ---------------- map_broker_redis.go ---------------- *)
Definition m_key (c : cfg) (infix tag ch : list N) : list N :=
  if negb (c_cluster c) then c_prefix c ++ infix ++ ch
  else c_prefix c ++ infix ++ tagged tag ch.

Definition m_result c tag ch ik :=
  if negb (c_cluster c) then c_prefix c ++ s2b ".result." ++ ch ++ DOT :: ik
  else c_prefix c ++ s2b ".result." ++ tagged tag ch ++ DOT :: ik.

Definition m_cleanup c tag :=
  if negb (c_cluster c) then c_prefix c ++ s2b ":cleanup:channels"
  else c_prefix c ++ s2b ":cleanup:channels:" ++ LB :: tag ++ [RB].

Definition m_message c tag ch :=
  if sharded c then mprefix c ++ tagged tag ch else mprefix c ++ ch.

Definition map_infixes : list (list N) :=
  [s2b ":stream:"; s2b ":meta:"; s2b ":state:"; s2b ":state:order:"; s2b ":state:expire:"; s2b ":state:meta:";
   s2b ":nil:"].   (* ":nil:" = the slot-aligned placeholder Publish/Remove substitute for unused script KEYS *)

Definition map_keys c tag ch ik : list (list N) :=
  m_message c tag ch :: map (fun infix => m_key c infix tag ch) map_infixes
  ++ [m_result c tag ch ik; m_cleanup c tag].

(* RedisMapBroker.extractChannel(chID) *)
Definition m_extract (c : cfg) (chid : list N) : list N :=
  let ch := trim_prefix (mprefix c) chid in
  if 0 <? c_parts c then extract_sharded ch else ch.
