(* C36 — the property text as a decidable predicate over what was done to a connection
   (labels) and what was observed after each label (events + a snapshot of the timer
   bookkeeping), written independently of the timer multiplexer:

   * when the pong check fires: no pong since the last ping => close 3012, else nothing;
     it is due pong-timeout after the ping; the next ping is due one interval after it;
   * when the stale check fires on an unauthenticated connection => close 3502; it is due
     stale-delay after the connection was created;
   * when the expiry check fires: expiry not in the future and not extended by the
     application => close 3005; refreshed in time => nothing; it is due at the expiry
     (plus the grace delay whenever a client- or server-initiated refresh set it);
   * when the presence tick fires: every subscription past expiry + grace that the application
     does not extend (client-side refresh, or its SubRefreshHandler fails / says expired) is
     unsubscribed with 2501 (a server-side one closes with 3006), the others stay, an extended
     one with its new expiry; every positioned subscription whose last position check is more than
     the check delay ago is checked against the stream: invalid => unsubscribed with 2500 (a
     server-side one closes with 3010), valid => not checked again before the delay has passed;
   * nothing else closes the connection, and as long as it is open the armed timer is not
     later than any pending deadline (no due check is starved). *)
From Coq Require Import List NArith Bool.
From Cfg Require Import Model.Timers.
Import ListNotations.
Open Scope N_scope.

Record snap := mkSnap {
  sn_closed : bool;
  sn_armed : option (op * N);
  sn_e : N; sn_pr : N; sn_pi : N; sn_po : N      (* pending expire / presence / ping / pong deadlines *)
}.

Definition snap_of (s : st) : snap :=
  mkSnap (closed s) (armed s) (nExpire s) (nPresence s) (nPing s) (nPong s).

Definition op_eqb (a b : op) : bool :=
  match a, b with
  | OpStale, OpStale | OpPresence, OpPresence | OpExpire, OpExpire | OpPing, OpPing | OpPong, OpPong => true
  | _, _ => false
  end.

Definition out_eqb (a b : out) : bool :=
  match a, b with
  | OPing, OPing | ORefreshPush, ORefreshPush => true
  | OClose x, OClose y | OReply x, OReply y => x =? y
  | OUnsub c x, OUnsub d y => (c =? d) && (x =? y)
  | OAsk c, OAsk d => c =? d
  | _, _ => false
  end.

Fixpoint outs_eqb (a b : list out) : bool :=
  match a, b with
  | [], [] => true
  | x :: a', y :: b' => out_eqb x y && outs_eqb a' b'
  | _, _ => false
  end.

Definition count_out (o : out) (l : list out) : nat := length (filter (out_eqb o) l).
Definition bag_eqb (a b : list out) : bool :=
  forallb (fun o => Nat.eqb (count_out o a) (count_out o b)) (a ++ b).

(* no due check is starved *)
Definition covers (a : option (op * N)) (x : N) : bool :=
  (x =? 0) || match a with Some (_, due) => due <=? x | None => false end.
Definition cover_ok (sn : snap) : bool :=
  sn_closed sn ||
  (covers (sn_armed sn) (sn_e sn) && covers (sn_armed sn) (sn_pr sn) &&
   covers (sn_armed sn) (sn_pi sn) && covers (sn_armed sn) (sn_po sn)).

(* what the specification remembers *)
Record sst := mkSst {
  z_now : N; z_closed : bool; z_auth : bool;
  z_pinged : bool; z_answered : bool;      (* a ping was sent / a pong was accepted since *)
  z_exp : N; z_csr : bool;
  z_subs : list sub;
  z_armed : option (op * N)                (* armed timer seen in the previous snapshot *)
}.

Definition sst0 (g : cfg) : sst :=
  mkSst 0 false false false false 0 false []
        (if g_stale g =? 0 then None else Some (OpStale, g_stale g)).

Definition has_close (l : list out) : bool :=
  existsb (fun o => match o with OClose _ => true | _ => false end) l.

Definition expired_sub (g : cfg) (t : N) (b : sub) : bool :=
  (0 <? sb_exp b) && (sb_exp b + g_sub_delay g <? t).

(* expected events of one label, new remembered state, and the deadline the snapshot must show:
   result (z', expected events as a bag?, exact?, extra check on the snapshot) *)
Definition step_spec0 (g : cfg) (z : sst) (l : label) (o : list out) (sn : snap) : sst * bool :=
  let keep (z' : sst) (ok : bool) :=
    (mkSst (z_now z') (z_closed z' || has_close o) (z_auth z') (z_pinged z') (z_answered z')
           (z_exp z') (z_csr z') (z_subs z') (sn_armed sn),
     ok && cover_ok sn && Bool.eqb (sn_closed sn) (z_closed z' || has_close o)) in
  let same := z in
  if z_closed z then
    match l with
    | LAdvance d => keep (mkSst (z_now z + d) true (z_auth z) (z_pinged z) (z_answered z) (z_exp z) (z_csr z) (z_subs z) (z_armed z))
                         (outs_eqb o [])
    | LFire => (z, false)                    (* nothing is armed on a closed connection *)
    | _ => keep same (outs_eqb o [])
    end
  else
  match l with
  | LAdvance d =>
      keep (mkSst (z_now z + d) false (z_auth z) (z_pinged z) (z_answered z) (z_exp z) (z_csr z) (z_subs z) (z_armed z))
           (outs_eqb o [])
  | LConnect e c _ _ =>
      if z_auth z then keep same (outs_eqb o []) else
      keep (mkSst (z_now z) false true (z_pinged z) (z_answered z) e c (z_subs z) (z_armed z))
           (outs_eqb o [] &&
            (* expiry check due at the expiry, plus grace for client-side refresh *)
            ((e =? 0) || (sn_e sn =? (if z_now z <? e then e else z_now z) + (if c then g_exp_delay g else 0))))
  | LSubscribe b =>
      if negb (z_auth z) then (z, false) else      (* server-side calls need a registered connection *)
      keep (mkSst (z_now z) false (z_auth z) (z_pinged z) (z_answered z) (z_exp z) (z_csr z)
                  (z_subs z ++ [mkSub (sb_name b) (sb_exp b) (sb_csr b) (sb_server b) (sb_pos b) (z_now z) (sb_bad b)])
                  (z_armed z))
           (outs_eqb o [])
  | LConnectSlow _ _ _ _ _ => (z, false)     (* taken apart by [step_spec] below *)
  | LStream n bad =>
      keep (mkSst (z_now z) false (z_auth z) (z_pinged z) (z_answered z) (z_exp z) (z_csr z)
                  (map (fun x => if sb_name x =? n
                                 then mkSub n (sb_exp x) (sb_csr x) (sb_server x) (sb_pos x) (sb_check x) bad else x) (z_subs z))
                  (z_armed z))
           (outs_eqb o [])
  | LPong =>
      if z_auth z && z_pinged z && negb (z_answered z)
      then keep (mkSst (z_now z) false (z_auth z) true true (z_exp z) (z_csr z) (z_subs z) (z_armed z)) (outs_eqb o [])
      else keep same (outs_eqb o [OClose 3501])
  | LRefreshCmd e =>
      if negb (z_auth z) then keep same (outs_eqb o [OClose 3501]) else
      if negb (z_csr z) then
        match g_refresh g with
        | RNone => keep same (outs_eqb o [OReply 108])      (* no RefreshHandler: not available *)
        | _ => keep same (outs_eqb o [OClose 3501])
        end
      else
      if e =? 0 then keep same (outs_eqb o [OReply 0]) else
      if z_now z <? e
      then keep (mkSst (z_now z) false (z_auth z) (z_pinged z) (z_answered z) e (z_csr z) (z_subs z) (z_armed z))
                (outs_eqb o [OReply 0] && (sn_e sn =? e + g_exp_delay g))
      else keep same (outs_eqb o [OReply 110])
  | LSrvRefresh x e =>
      if negb (z_auth z) then (z, false) else
      if x then keep same (outs_eqb o [OClose 3005]) else
      if e =? 0
      then keep (mkSst (z_now z) false (z_auth z) (z_pinged z) (z_answered z) 0 (z_csr z) (z_subs z) (z_armed z))
                (outs_eqb o [ORefreshPush] && (sn_e sn =? 0))
      else if z_now z <? e
      then keep (mkSst (z_now z) false (z_auth z) (z_pinged z) (z_answered z) e (z_csr z) (z_subs z) (z_armed z))
                (outs_eqb o [ORefreshPush] && (sn_e sn =? e + g_exp_delay g))
      else keep same (outs_eqb o [OClose 3005])
  | LSubRefreshCmd n e =>
      if negb (z_auth z) then keep same (outs_eqb o [OClose 3501]) else
      match find (fun b => sb_name b =? n) (z_subs z) with
      | None => keep same (outs_eqb o [OReply 103])
      | Some b =>
          if negb (sb_csr b) then keep same (outs_eqb o [OClose 3501]) else
          if (0 <? e) && (e <? z_now z) then keep same (outs_eqb o [OReply 110])
          else keep (mkSst (z_now z) false (z_auth z) (z_pinged z) (z_answered z) (z_exp z) (z_csr z)
                           (set_sub_exp (z_subs z) n e)
                           (z_armed z))
                    (outs_eqb o [OReply 0])
      end
  | LFire =>
      match z_armed z with
      | None => (z, false)
      | Some (k, due) =>
          if negb (due <=? z_now z) then (z, false) else
          match k with
          | OpStale =>
              if z_auth z then keep same (outs_eqb o []) else keep same (outs_eqb o [OClose 3502])
          | OpPing =>
              keep (mkSst (z_now z) false (z_auth z) true false (z_exp z) (z_csr z) (z_subs z) (z_armed z))
                   (outs_eqb o [OPing] &&
                    (sn_pi sn =? z_now z + g_ping g) &&
                    ((g_pong g =? 0) || g_uni g || (sn_po sn =? z_now z + g_pong g)))
          | OpPong =>
              if z_answered z then keep same (outs_eqb o [] && (sn_po sn =? 0))
              else keep same (outs_eqb o [OClose 3012])
          | OpExpire =>
              if z_exp z =? 0 then keep same (outs_eqb o []) else
              let plain := if z_now z <? z_exp z then keep same (outs_eqb o []) else keep same (outs_eqb o [OClose 3005]) in
              if z_csr z then plain else
              match g_refresh g with
              | RNone => plain
              | RFail => keep same (outs_eqb o [OClose 3004])
              | RExpired => keep same (outs_eqb o [OClose 3005])
              | RExtend d =>
                  let e := if 0 <? z_now z + d then z_now z + d else z_exp z in
                  if z_now z <? e
                  then keep (mkSst (z_now z) false (z_auth z) (z_pinged z) (z_answered z) e (z_csr z) (z_subs z) (z_armed z))
                            (outs_eqb o [] && (sn_e sn =? e))
                  else keep same (outs_eqb o [OClose 3005])
              end
          | OpPresence =>
              (* an expired subscription without client-side refresh is offered to the application *)
              let extended (b : sub) : option N :=
                if sb_csr b then None else
                match g_subrefresh g with
                | SExtend d => Some (z_now z + d) | SForever => Some 0 | _ => None
                end in
              let gone (b : sub) := expired_sub g (z_now z) b && match extended b with None => true | _ => false end in
              let dead := filter gone (z_subs z) in
              let alive := flat_map (fun b =>
                             if expired_sub g (z_now z) b
                             then match extended b with
                                  | Some e => [mkSub (sb_name b) e (sb_csr b) (sb_server b) (sb_pos b) (sb_check b) (sb_bad b)]
                                  | None => []
                                  end
                             else [b]) (z_subs z) in
              (* the handler is asked once about each expired one that is not refreshed client-side *)
              let asked := filter (fun b => expired_sub g (z_now z) b && negb (sb_csr b)) (z_subs z) in
              (* position check: due when more than the delay passed since the last (or the subscribe);
                 an invalid position costs the subscription (2500; server-side: the connection, 3010),
                 a valid one is remembered as checked now *)
              let due (b : sub) := (0 <? g_pos_delay g) && sb_pos b && (g_pos_delay g <? z_now z - sb_check b) in
              let lost := filter (fun b => due b && sb_bad b) alive in
              let kept := flat_map (fun b =>
                            if due b then
                              if sb_bad b then []
                              else [mkSub (sb_name b) (sb_exp b) (sb_csr b) (sb_server b) (sb_pos b) (z_now z) (sb_bad b)]
                            else [b]) alive in
              if existsb sb_server dead
              then keep same (existsb (out_eqb (OClose 3006)) o)     (* order against other expired ones is open *)
              else if existsb sb_server lost
              then keep same (existsb (out_eqb (OClose 3010)) o)
              else keep (mkSst (z_now z) false (z_auth z) (z_pinged z) (z_answered z) (z_exp z) (z_csr z) kept (z_armed z))
                        (bag_eqb o (map (fun b => OAsk (sb_name b)) asked ++
                                    map (fun b => OUnsub (sb_name b) 2501) dead ++
                                    map (fun b => OUnsub (sb_name b) 2500) lost) &&
                         (sn_pr sn =? z_now z + g_presence g))
          end
      end
  end.

(* a connect whose OnConnect handler takes d seconds is a connect d seconds later: in particular
   nothing closes the (authenticated) connection in between, whatever the stale timer does *)
Definition step_spec (g : cfg) (z : sst) (l : label) (o : list out) (sn : snap) : sst * bool :=
  match l with
  | LConnectSlow e c fp fi d =>
      let '(z1, ok1) := step_spec0 g z (LAdvance d) [] sn in
      if z_closed z || z_auth z then (z1, ok1 && outs_eqb o [])
      else let '(z2, ok2) := step_spec0 g z1 (LConnect e c fp fi) o sn in (z2, ok1 && ok2)
  | _ => step_spec0 g z l o sn
  end.

Fixpoint steps_spec (g : cfg) (z : sst) (ls : list label) (os : list (list out)) (sns : list snap) : bool :=
  match ls, os, sns with
  | [], [], [] => true
  | l :: ls', o :: os', sn :: sns' =>
      let '(z1, ok) := step_spec g z l o sn in ok && steps_spec g z1 ls' os' sns'
  | _, _, _ => false
  end.
