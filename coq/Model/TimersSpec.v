(* C36 — the property text as a decidable predicate over what was done to a connection
   (labels) and what was observed after each label (events + a snapshot of the timer
   bookkeeping), written independently of the timer multiplexer:

   * when the pong check fires: no pong since the last ping => close 3012, else nothing;
     it is due pong-timeout after the ping; the next ping is due one interval after it;
   * when the stale check fires on an unauthenticated connection => close 3502; it is due
     stale-delay after the connection was created;
   * when the expiry check fires: expiry not in the future and not extended by the
     application => close 3005; refreshed in time => nothing; it is due at the expiry
     (plus the grace delay whenever a client- or server-initiated refresh set it);
   * when the presence tick fires: every client-side subscription past expiry + grace is
     unsubscribed with 2501 (a server-side one closes with 3006), the others stay;
   * nothing else closes the connection, and as long as it is open the armed timer is not
     later than any pending deadline (no due check is starved). *)
From Coq Require Import List NArith Bool.
From Cfg Require Import Model.Timers.
Import ListNotations.
Open Scope N_scope.

Record snap := mkSnap {
  sn_closed : bool;
  sn_armed : option (op * N);
  sn_e : N; sn_pr : N; sn_pi : N; sn_po : N      (* pending expire / presence / ping / pong deadlines *)
}.

Definition snap_of (s : st) : snap :=
  mkSnap (closed s) (armed s) (nExpire s) (nPresence s) (nPing s) (nPong s).

Definition op_eqb (a b : op) : bool :=
  match a, b with
  | OpStale, OpStale | OpPresence, OpPresence | OpExpire, OpExpire | OpPing, OpPing | OpPong, OpPong => true
  | _, _ => false
  end.

Definition out_eqb (a b : out) : bool :=
  match a, b with
  | OPing, OPing | ORefreshPush, ORefreshPush => true
  | OClose x, OClose y | OReply x, OReply y => x =? y
  | OUnsub c x, OUnsub d y => (c =? d) && (x =? y)
  | _, _ => false
  end.

Fixpoint outs_eqb (a b : list out) : bool :=
  match a, b with
  | [], [] => true
  | x :: a', y :: b' => out_eqb x y && outs_eqb a' b'
  | _, _ => false
  end.

Definition count_out (o : out) (l : list out) : nat := length (filter (out_eqb o) l).
Definition bag_eqb (a b : list out) : bool :=
  forallb (fun o => Nat.eqb (count_out o a) (count_out o b)) (a ++ b).

(* no due check is starved *)
Definition covers (a : option (op * N)) (x : N) : bool :=
  (x =? 0) || match a with Some (_, due) => due <=? x | None => false end.
Definition cover_ok (sn : snap) : bool :=
  sn_closed sn ||
  (covers (sn_armed sn) (sn_e sn) && covers (sn_armed sn) (sn_pr sn) &&
   covers (sn_armed sn) (sn_pi sn) && covers (sn_armed sn) (sn_po sn)).

(* what the specification remembers *)
Record sst := mkSst {
  z_now : N; z_closed : bool; z_auth : bool;
  z_pinged : bool; z_answered : bool;      (* a ping was sent / a pong was accepted since *)
  z_exp : N; z_csr : bool;
  z_subs : list sub;
  z_armed : option (op * N)                (* armed timer seen in the previous snapshot *)
}.

Definition sst0 (g : cfg) : sst :=
  mkSst 0 false false false false 0 false []
        (if g_stale g =? 0 then None else Some (OpStale, g_stale g)).

Definition has_close (l : list out) : bool :=
  existsb (fun o => match o with OClose _ => true | _ => false end) l.

Definition expired_sub (g : cfg) (t : N) (b : sub) : bool :=
  (0 <? sb_exp b) && (sb_exp b + g_sub_delay g <? t).

(* expected events of one label, new remembered state, and the deadline the snapshot must show:
   result (z', expected events as a bag?, exact?, extra check on the snapshot) *)
Definition step_spec (g : cfg) (z : sst) (l : label) (o : list out) (sn : snap) : sst * bool :=
  let keep (z' : sst) (ok : bool) :=
    (mkSst (z_now z') (z_closed z' || has_close o) (z_auth z') (z_pinged z') (z_answered z')
           (z_exp z') (z_csr z') (z_subs z') (sn_armed sn),
     ok && cover_ok sn && Bool.eqb (sn_closed sn) (z_closed z' || has_close o)) in
  let same := z in
  if z_closed z then
    match l with
    | LAdvance d => keep (mkSst (z_now z + d) true (z_auth z) (z_pinged z) (z_answered z) (z_exp z) (z_csr z) (z_subs z) (z_armed z))
                         (outs_eqb o [])
    | LFire => (z, false)                    (* nothing is armed on a closed connection *)
    | _ => keep same (outs_eqb o [])
    end
  else
  match l with
  | LAdvance d =>
      keep (mkSst (z_now z + d) false (z_auth z) (z_pinged z) (z_answered z) (z_exp z) (z_csr z) (z_subs z) (z_armed z))
           (outs_eqb o [])
  | LConnect e c _ _ =>
      if z_auth z then keep same (outs_eqb o []) else
      keep (mkSst (z_now z) false true (z_pinged z) (z_answered z) e c (z_subs z) (z_armed z))
           (outs_eqb o [] &&
            (* expiry check due at the expiry, plus grace for client-side refresh *)
            ((e =? 0) || (sn_e sn =? (if z_now z <? e then e else z_now z) + (if c then g_exp_delay g else 0))))
  | LSubscribe b =>
      if negb (z_auth z) then (z, false) else      (* server-side calls need a registered connection *)
      keep (mkSst (z_now z) false (z_auth z) (z_pinged z) (z_answered z) (z_exp z) (z_csr z) (z_subs z ++ [b]) (z_armed z))
           (outs_eqb o [])
  | LPong =>
      if z_auth z && z_pinged z && negb (z_answered z)
      then keep (mkSst (z_now z) false (z_auth z) true true (z_exp z) (z_csr z) (z_subs z) (z_armed z)) (outs_eqb o [])
      else keep same (outs_eqb o [OClose 3501])
  | LRefreshCmd e =>
      if negb (z_auth z) then keep same (outs_eqb o [OClose 3501]) else
      if negb (z_csr z) then
        match g_refresh g with
        | RNone => keep same (outs_eqb o [OReply 108])      (* no RefreshHandler: not available *)
        | _ => keep same (outs_eqb o [OClose 3501])
        end
      else
      if e =? 0 then keep same (outs_eqb o [OReply 0]) else
      if z_now z <? e
      then keep (mkSst (z_now z) false (z_auth z) (z_pinged z) (z_answered z) e (z_csr z) (z_subs z) (z_armed z))
                (outs_eqb o [OReply 0] && (sn_e sn =? e + g_exp_delay g))
      else keep same (outs_eqb o [OReply 110])
  | LSrvRefresh x e =>
      if negb (z_auth z) then (z, false) else
      if x then keep same (outs_eqb o [OClose 3005]) else
      if e =? 0
      then keep (mkSst (z_now z) false (z_auth z) (z_pinged z) (z_answered z) 0 (z_csr z) (z_subs z) (z_armed z))
                (outs_eqb o [ORefreshPush] && (sn_e sn =? 0))
      else if z_now z <? e
      then keep (mkSst (z_now z) false (z_auth z) (z_pinged z) (z_answered z) e (z_csr z) (z_subs z) (z_armed z))
                (outs_eqb o [ORefreshPush] && (sn_e sn =? e + g_exp_delay g))
      else keep same (outs_eqb o [OClose 3005])
  | LSubRefreshCmd n e =>
      if negb (z_auth z) then keep same (outs_eqb o [OClose 3501]) else
      match find (fun b => sb_name b =? n) (z_subs z) with
      | None => keep same (outs_eqb o [OReply 103])
      | Some b =>
          if negb (sb_csr b) then keep same (outs_eqb o [OClose 3501]) else
          if (0 <? e) && (e <? z_now z) then keep same (outs_eqb o [OReply 110])
          else keep (mkSst (z_now z) false (z_auth z) (z_pinged z) (z_answered z) (z_exp z) (z_csr z)
                           (map (fun x => if sb_name x =? n then mkSub n e (sb_csr x) (sb_server x) else x) (z_subs z))
                           (z_armed z))
                    (outs_eqb o [OReply 0])
      end
  | LFire =>
      match z_armed z with
      | None => (z, false)
      | Some (k, due) =>
          if negb (due <=? z_now z) then (z, false) else
          match k with
          | OpStale =>
              if z_auth z then keep same (outs_eqb o []) else keep same (outs_eqb o [OClose 3502])
          | OpPing =>
              keep (mkSst (z_now z) false (z_auth z) true false (z_exp z) (z_csr z) (z_subs z) (z_armed z))
                   (outs_eqb o [OPing] &&
                    (sn_pi sn =? z_now z + g_ping g) &&
                    ((g_pong g =? 0) || g_uni g || (sn_po sn =? z_now z + g_pong g)))
          | OpPong =>
              if z_answered z then keep same (outs_eqb o [] && (sn_po sn =? 0))
              else keep same (outs_eqb o [OClose 3012])
          | OpExpire =>
              if z_exp z =? 0 then keep same (outs_eqb o []) else
              let plain := if z_now z <? z_exp z then keep same (outs_eqb o []) else keep same (outs_eqb o [OClose 3005]) in
              if z_csr z then plain else
              match g_refresh g with
              | RNone => plain
              | RFail => keep same (outs_eqb o [OClose 3004])
              | RExpired => keep same (outs_eqb o [OClose 3005])
              | RExtend d =>
                  let e := if 0 <? z_now z + d then z_now z + d else z_exp z in
                  if z_now z <? e
                  then keep (mkSst (z_now z) false (z_auth z) (z_pinged z) (z_answered z) e (z_csr z) (z_subs z) (z_armed z))
                            (outs_eqb o [] && (sn_e sn =? e))
                  else keep same (outs_eqb o [OClose 3005])
              end
          | OpPresence =>
              let dead := filter (expired_sub g (z_now z)) (z_subs z) in
              let alive := filter (fun b => negb (expired_sub g (z_now z) b)) (z_subs z) in
              if existsb sb_server dead
              then keep same (existsb (out_eqb (OClose 3006)) o)     (* order against other expired ones is open *)
              else keep (mkSst (z_now z) false (z_auth z) (z_pinged z) (z_answered z) (z_exp z) (z_csr z) alive (z_armed z))
                        (bag_eqb o (map (fun b => OUnsub (sb_name b) 2501) dead) &&
                         (sn_pr sn =? z_now z + g_presence g))
          end
      end
  end.

Fixpoint steps_spec (g : cfg) (z : sst) (ls : list label) (os : list (list out)) (sns : list snap) : bool :=
  match ls, os, sns with
  | [], [], [] => true
  | l :: ls', o :: os', sn :: sns' =>
      let '(z1, ok) := step_spec g z l o sn in ok && steps_spec g z1 ls' os' sns'
  | _, _, _ => false
  end.
