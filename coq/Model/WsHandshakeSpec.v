(* Specification of a valid WebSocket opening handshake request, written from
   RFC 6455 section 4.1 / 4.2.1 (HTTP/1.1 Upgrade), RFC 8441 section 4/5 (HTTP/2 extended CONNECT),
   RFC 7230 section 3.2.6 (token, OWS) and section 7 (#rule), RFC 4648 section 4 (base64).
   It does not follow the scanning algorithm of the Go code: header values are split at commas,
   elements are trimmed and compared.  All definitions are executable so that the very same
   predicates are the oracle applied to what the implementation did. *)
From Coq Require Import List NArith Bool.
From Cfg Require Import Model.WsHandshake.
Import ListNotations.
Open Scope N_scope.

(* RFC 7230: tchar = "!" / "#" / "$" / "%" / "&" / "'" / "*" / "+" / "-" / "." / "^" / "_" / "`" / "|" / "~" / DIGIT / ALPHA *)
Definition is_alpha (c : N) : bool := ((65 <=? c) && (c <=? 90)) || ((97 <=? c) && (c <=? 122)).
Definition is_digit (c : N) : bool := (48 <=? c) && (c <=? 57).
Definition tchar (c : N) : bool :=
  is_alpha c || is_digit c || existsb (N.eqb c) [33; 35; 36; 37; 38; 39; 42; 43; 45; 46; 94; 95; 96; 124; 126].
Definition is_token (e : bytes) : bool :=
  match e with [] => false | _ => forallb tchar e end.

(* OWS = *( SP / HTAB ) *)
Definition ows (c : N) : bool := (c =? 32) || (c =? 9).
Fixpoint drop_while (p : N -> bool) (s : bytes) : bytes :=
  match s with [] => [] | c :: r => if p c then drop_while p r else s end.
Definition trim_ows (s : bytes) : bytes := rev (drop_while ows (rev (drop_while ows s))).

Fixpoint split_on (sep : N) (s : bytes) : list bytes :=
  match s with
  | [] => [[]]
  | c :: r =>
      if c =? sep then [] :: split_on sep r
      else match split_on sep r with
           | [] => [[c]]
           | p :: ps => (c :: p) :: ps
           end
  end.

(* the members of a comma separated list header value *)
Definition elements (line : bytes) : list bytes := map trim_ows (split_on 44 line).

(* ASCII case-insensitive comparison (RFC 4790 i;ascii-casemap) *)
Definition to_lower (c : N) : N := if (65 <=? c) && (c <=? 90) then c + 32 else c.
Definition eq_fold (a b : bytes) : bool := bytes_eqb (map to_lower a) (map to_lower b).

(* "a header field that includes the token tok" (recipient reading: some member of some field line) *)
Definition has_token (lines : list bytes) (tok : bytes) : bool :=
  existsb (fun l => existsb (fun e => eq_fold e tok) (elements l)) lines.

(* sender grammar 1#token = token *( OWS "," OWS token ): every member is a token (no empty members) *)
Definition line_wf (line : bytes) : bool := forallb is_token (elements line).
Definition lines_wf (lines : list bytes) : bool := forallb line_wf lines.

(* RFC 6455 4.2.1 item 5 + RFC 4648: a base64 value that decodes to 16 bytes =
   22 alphabet characters followed by "==" (decoders may ignore the 4 unused bits of the last character) *)
Definition b64char (c : N) : bool := is_alpha c || is_digit c || (c =? 43) || (c =? 47).
Definition valid_key (k : bytes) : bool :=
  (N.of_nat (length k) =? 24) && forallb b64char (firstn 22 k) && bytes_eqb (skipn 22 k) [61; 61].

(* Origin policy.  Custom CheckOrigin: its answer.  Default: no Origin header, or the host of the
   Origin URL equals the Host header, ASCII case-insensitively. *)
Definition origin_ok (url_host : bytes -> option bytes) (u : config) (r : request) : bool :=
  match u_origin u with
  | Some b => b
  | None => match r_origin r with
            | [] => true
            | o :: _ => match url_host o with
                        | None => false
                        | Some h => eq_fold h (r_host r)
                        end
            end
  end.

(* The request is a WebSocket upgrade (recipient reading; what the server must at least have seen). *)
Definition valid_upgrade_rx (u : config) (r : request) : bool :=
  if r_major r =? 1 then
    negb (u_disable_h1 u)
    && bytes_eqb (r_method r) s_GET
    && has_token (r_connection r) s_upgrade
    && has_token (r_upgrade r) s_websocket
    && has_token (r_version r) s_13
    && valid_key (hd [] (r_key r))
  else if r_major r =? 2 then
    bytes_eqb (r_method r) s_CONNECT
    && bytes_eqb (hd [] (r_h2protocol r)) s_websocket
    && has_token (r_version r) s_13
  else false.

(* The list headers are generated according to the sender grammar. *)
Definition wellformed (r : request) : bool :=
  lines_wf (r_connection r) && lines_wf (r_upgrade r) && lines_wf (r_version r).

(* A valid upgrade as a conforming client sends it. *)
Definition valid_upgrade (u : config) (r : request) : bool := wellformed r && valid_upgrade_rx u r.

(* Upgrader misuse that makes the server answer 500 independently of the request *)
Definition config_sane (u : config) : bool := negb (u_resp_ext u).

(* Subprotocols / extensions the client offered (any field line). *)
Definition is_space (c : N) : bool := ((9 <=? c) && (c <=? 13)) || (c =? 32).
Definition trim_ws (s : bytes) : bytes := rev (drop_while is_space (rev (drop_while is_space s))).
Definition offered_protocols (r : request) : list bytes :=
  flat_map (fun l => map trim_ws (split_on 44 l)) (r_protocol r).

(* extension name of a list member = text before the first ";" *)
Definition ext_name (e : bytes) : bytes := trim_ows (hd [] (split_on 59 e)).
Definition offered_extensions (r : request) : list bytes :=
  flat_map (fun l => map ext_name (split_on 44 l)) (r_extensions r).

Definition accepted (o : outcome) : bool :=
  match o with Accept _ _ _ => true | _ => false end.
