(* The modelled Redis server as driven over the wire by the C18 fake server
   (harness/inpkg/root/c18_verif_test.go keeps a coqtop alive and forwards every
   command the REAL RedisBroker sends): EVAL/EVALSHA of the five scripts are
   answered by interpreting the ASTs generated from the real .lua files
   (Gen/LuaScripts.v, Model/Lua.v), plain commands by Model/Redis.v.  The reply
   is serialised to RESP3 here so that the Go side only copies bytes. *)
From Coq Require Import List NArith ZArith Bool String Ascii.
From Cfg Require Import Model.RStr Model.LuaAst Model.Redis Model.Lua Model.RedisScripts Gen.LuaScripts.
Import ListNotations.
Open Scope string_scope.

(* the five scripts, interpreted *)
Definition interp : scripts :=
  mkScripts (eval_script broker_history_add_stream) (eval_script broker_history_add_list)
            (eval_script broker_history_stream) (eval_script broker_history_list)
            (eval_script broker_publish_idempotent).

Definition script_by_name (n : string) : option block :=
  if String.eqb n "broker_history_add_stream" then Some broker_history_add_stream
  else if String.eqb n "broker_history_add_list" then Some broker_history_add_list
  else if String.eqb n "broker_history_stream" then Some broker_history_stream
  else if String.eqb n "broker_history_list" then Some broker_history_list
  else if String.eqb n "broker_publish_idempotent" then Some broker_publish_idempotent
  else None.

Definition crlf : string := String (ascii_of_nat 13) (String (ascii_of_nat 10) EmptyString).

Fixpoint resp_of_reply (r : reply) : string :=
  match r with
  | RInt z => ":" ++ zdec z ++ crlf
  | RBulk s => "$" ++ dec (slen s) ++ crlf ++ s ++ crlf
  | RNil => "_" ++ crlf
  | RStatus s => "+" ++ s ++ crlf
  | RErr s => "-" ++ s ++ crlf
  | RArr l => "*" ++ dec (N.of_nat (List.length l)) ++ crlf ++ sconcat (map resp_of_reply l)
  end.

(* cmd = "EVAL:<script name>" :: numkeys :: keys ++ args, or a plain command *)
Definition srv_exec (st : rstate) (cmd : list string) : rstate * reply :=
  match cmd with
  | c :: nk :: rest =>
      if is_prefix "EVAL:" c then
        match script_by_name (sdrop 5 c), parse_dec nk with
        | Some b, Some n => eval_script b (firstn (N.to_nat n) rest) (skipn (N.to_nat n) rest) st
        | None, _ => (st, RErr "NOSCRIPT No matching script. Please use EVAL.")
        | _, None => (st, RErr "ERR value is not an integer or out of range")
        end
      else redis_call st cmd
  | _ => redis_call st cmd
  end.

Definition frame (s : string) : list N := slen s :: to_bytes s.

(* one wire command: new state (outbox emptied) and, flattened into one list of
   numbers, the RESP3 reply and the PUBLISHed (channel, message) pairs *)
Definition srv_step (st : rstate) (cmd : list (list N)) : rstate * list N :=
  let '(st', r) := srv_exec (clear_outbox st) (map of_bytes cmd) in
  (clear_outbox st',
   (frame (resp_of_reply r) ++ N.of_nat (List.length (outbox st'))
    :: flat_map (fun cm => frame (fst cm) ++ frame (snd cm)) (outbox st'))%list).
