(* C38: the channel medium composed with the connection/subscription transition system.
   The broker's publications go to the medium (Model/Medium.v); what the medium forwards --
   publications, possibly skipping some, and its insufficient-state marker -- is what the hub
   delivers to the subscriber (Model/Positioned.v).  The broker-to-node hop is loss-free in this
   composition (the MemoryBroker case): the medium is the only lossy element. *)
From Coq Require Import List NArith Bool.
From Cfg Require Import Model.Merge Model.Positioned Model.Medium.
Import ListNotations.
Open Scope N_scope.

Record xst := mkX { xm : mst; xp : st; xfwd : nat (* handlePublication calls already forwarded to the hub *) }.

Definition xinit (now : N) : xst := mkX (minit now) init 0%nat.

Inductive xlabel :=
  | XPublish (f : bool) (hsize : nat) (bytes now : N)   (* Broker.Publish -> Node.HandlePublication -> medium *)
  | XMedium (l : mlabel)                                (* MWriter | MCheck | MClose *)
  | XForward                                            (* the medium's next call reaches the hub *)
  | XPos (l : label).                                   (* a step of the connection's own threads *)

Fixpoint find_tok (off ep : N) (fl : list tok) (i : nat) : option nat :=
  match fl with
  | [] => None
  | TPub p :: fl' => if (po p =? off) && (pe p =? ep) then Some i else find_tok off ep fl' (S i)
  | _ :: fl' => find_tok off ep fl' (S i)
  end.

(* the connection-side labels the environment of the composition may NOT use directly: they
   are driven by the broker / the medium here *)
Definition env_label (l : label) : bool :=
  match l with
  | LPublish _ _ | LPublishNoHist _ | LDrop _ | LDup _ | LDeliver _ _ | LMarker => true
  | _ => false
  end.

Definition xstep (c : cfg) (o : mopts) (x : xst) (l : xlabel) : option xst :=
  match l with
  | XPublish f hs bytes now =>
      match step c (xp x) (LPublish f hs) with
      | Some p' =>
          match mstep o (xm x) (MBroadcast (b_top (xp x) + 1) bytes now) with
          | Some (m', _) => Some (mkX m' p' (xfwd x))
          | None => None
          end
      | None => None
      end
  | XMedium ml =>
      match ml with
      | MBroadcast _ _ _ => None
      | _ => match mstep o (xm x) ml with Some (m', _) => Some (mkX m' (xp x) (xfwd x)) | None => None end
      end
  | XForward =>
      match nth_error (mout (xm x)) (xfwd x) with
      | None => None
      | Some (QPub off _) =>
          match find_tok off (b_ep (xp x)) (fl (xp x)) 0 with
          | Some i => match step c (xp x) (LDeliver i false) with
                      | Some p' => Some (mkX (xm x) p' (S (xfwd x)))
                      | None => None
                      end
          | None => Some (mkX (xm x) (xp x) (S (xfwd x)))     (* its stream is gone (epoch reset) *)
          end
      | Some QInsuff =>
          match step c (xp x) LMarker with
          | Some p1 => match step c p1 (LDeliver (length (fl (xp x))) false) with
                       | Some p2 => Some (mkX (xm x) p2 (S (xfwd x)))
                       | None => None
                       end
          | None => None
          end
      end
  | XPos pl =>
      if env_label pl then None
      else match step c (xp x) pl with Some p' => Some (mkX (xm x) p' (xfwd x)) | None => None end
  end.

Fixpoint xrun (c : cfg) (o : mopts) (x : xst) (ls : list xlabel) : option xst :=
  match ls with
  | [] => Some x
  | l :: ls' => match xstep c o x l with Some x' => xrun c o x' ls' | None => None end
  end.
