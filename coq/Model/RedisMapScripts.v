(* Shallow (hand-written Gallina) versions of map_broker_add.lua, map_broker_stream_read.lua and
   map_broker_read_unordered.lua over Model/Redis.v, using the script monad of
   Model/RedisScripts.v.  The C23 agreement theorem is proved about these; their agreement with
   the interpreted ASTs of the real scripts is CHECKED BY EVALUATION on every explored case
   (Harness/C23.v) -- testing, not proof.  Branches that well-formed KEYS/ARGV built by
   map_broker_redis.go cannot reach answer "SHALLOW-UNREACHABLE". *)
From Coq Require Import List NArith ZArith Bool String Ascii.
From Cfg Require Import Model.RStr Model.LuaNum Model.Redis Model.RedisScripts Model.RedisMapBroker.
Import ListNotations.
Open Scope string_scope.

Definition num_of (s : string) : M Z :=
  match str2number s with TNum z => ret z | _ => unreachable end.

(* hget meta_key "s" or 0, as the number the scripts return *)
Definition current_offset (meta_key : string) : M Z :=
  dom r <- rc ["hget"; meta_key; "s"] ;;
  match r with RBulk s => num_of s | RNil => ret 0%Z | _ => unreachable end.

Definition suppressed {A} (meta_key epoch reason : string) : M A :=
  dom o <- current_offset meta_key ;; finish (RArr [RInt o; RBulk epoch; RBulk reason]).

Definition state_value (top : Z) (epoch payload : string) : string :=
  lua_num2str top ++ ":" ++ epoch ++ ":" ++ payload.

(* string.find(v, ":") / string.sub(v, 1, pos-1) / tonumber *)
Definition value_offset (v : string) : option (option Z) :=       (* None: no colon; Some None: not a number *)
  match sindex ":" v with
  | None => None
  | Some i => Some (match str2number (stake i v) with TNum z => Some z | _ => None end)
  end.

Definition sh_map_add (K A : list string) : M reply :=
  let stream_key := arg K 0 in let meta_key := arg K 1 in let result_key := arg K 2 in
  let state_hash_key := arg K 3 in let state_order_key := arg K 4 in let state_expire_key := arg K 5 in
  let state_meta_key := arg K 6 in let cleanup_key := arg K 7 in
  let message_key := arg A 0 in let message_payload := arg A 1 in let stream_size := arg A 2 in
  let stream_ttl := arg A 3 in let channel := arg A 4 in let meta_expire := arg A 5 in let nonce := arg A 6 in
  let pubcmd := arg A 7 in let rexp := arg A 8 in let use_delta := arg A 9 in let version := arg A 10 in
  let vepoch := arg A 11 in let is_leave := arg A 12 in let score := arg A 13 in let member_ttl := arg A 14 in
  let use_hpexpire := arg A 15 in let cleanup_ch := arg A 16 in let key_mode := arg A 17 in
  let refresh := arg A 18 in let exp_off := arg A 19 in let exp_epoch := arg A 20 in let state_payload_arg := arg A 21 in
  let nil_key := arg A 22 in let vfield := arg A 23 in let vefield := arg A 24 in let now_s := arg A 25 in
  if negb (String.eqb nil_key "") then unreachable (* cluster placeholder keys: not modelled *) else
  if (String.eqb use_hpexpire "1") then unreachable else
  let state_payload := if String.eqb state_payload_arg "" then message_payload else state_payload_arg in
  dom now <- num_of now_s ;;
  (* Step 0: idempotency *)
  dom hit <- (if (negb (String.eqb rexp "") && negb (String.eqb result_key ""))%bool then
                dom e <- rc ["hget"; result_key; "e"] ;;
                match e with
                | RBulk ep => dom o <- rc ["hget"; result_key; "s"] ;; ret (Some (o, ep))
                | RNil => ret None
                | _ => unreachable
                end
              else ret None) ;;
  match hit with
  | Some (o, ep) => finish (RArr [o; RBulk ep; RBulk "idempotency"])
  | None =>
  dom et <-
    (if negb (String.eqb meta_key "") then
       (* Step 1: epoch *)
       dom epoch <- current_epoch meta_key nonce ;;
       (* Step 2: wipe state of a dead epoch *)
       dom wipe <- (if negb (String.eqb state_hash_key "") then
                      dom n <- rc ["hlen"; state_hash_key] ;;
                      match n with
                      | RInt z =>
                          if (0 <? z)%Z then
                            if negb (String.eqb state_meta_key "") then
                              dom se <- rc ["hget"; state_meta_key; "epoch"] ;;
                              match se with
                              | RBulk s => ret (negb (String.eqb s epoch))
                              | RNil => ret true
                              | _ => unreachable
                              end
                            else ret true
                          else ret false
                      | _ => unreachable
                      end
                    else ret false) ;;
       dom _ <- (if wipe then
                   dom _ <- rc ["del"; state_hash_key] ;;
                   dom _ <- when_ (negb (String.eqb state_order_key "")) (rc ["del"; state_order_key]) ;;
                   dom _ <- when_ (negb (String.eqb state_expire_key "")) (rc ["del"; state_expire_key]) ;;
                   dom _ <- when_ (negb (String.eqb state_meta_key "")) (rc ["del"; state_meta_key]) ;;
                   when_ (negb (String.eqb cleanup_key "") && negb (String.eqb cleanup_ch ""))%bool
                         (rc ["zrem"; cleanup_key; cleanup_ch])
                 else ret tt) ;;
       (* Step 2a: per-key version *)
       dom _ <- (if (negb (String.eqb version "0") && negb (String.eqb vfield "") && negb (String.eqb state_meta_key ""))%bool then
                   dom pv <- rc ["hmget"; state_meta_key; vfield; vefield] ;;
                   match pv with
                   | RArr [RBulk pvs; pve] =>
                       if (String.eqb vepoch "" || match pve with RBulk s => String.eqb vepoch s | _ => false end)%bool then
                         match str2number pvs, str2number version with
                         | TNum a, TNum b => if (b <=? a)%Z then suppressed meta_key epoch "version" else ret tt
                         | _, _ => unreachable
                         end
                       else ret tt
                   | RArr [RNil; _] => ret tt
                   | _ => unreachable
                   end
                 else ret tt) ;;
       (* Step 2b: key mode *)
       dom _ <- (if (negb (String.eqb key_mode "") && negb (String.eqb message_key "") && negb (String.eqb state_hash_key "")
                     && negb (String.eqb is_leave "1"))%bool then
                   dom ex <- rc ["hexists"; state_hash_key; message_key] ;;
                   match ex with
                   | RInt z =>
                       let key_exists := (z =? 1)%Z in
                       if (String.eqb key_mode "if_new" && key_exists)%bool then
                         dom ttl <- num_of member_ttl ;;
                         dom _ <- (if (String.eqb refresh "1" && (0 <? ttl)%Z)%bool then
                                     let expire_at := round53 (now + ttl) in
                                     dom ea <- num_arg expire_at ;;
                                     dom _ <- when_ (negb (String.eqb state_expire_key "")) (rc ["zadd"; state_expire_key; ea; message_key]) ;;
                                     dom _ <- (if (negb (String.eqb cleanup_key "") && negb (String.eqb cleanup_ch ""))%bool then
                                                 dom cs <- rc ["zscore"; cleanup_key; cleanup_ch] ;;
                                                 match cs with
                                                 | RNil => dom _ <- rc ["zadd"; cleanup_key; ea; cleanup_ch] ;; ret tt
                                                 | RBulk s => dom c <- num_of s ;;
                                                              when_ (expire_at <? c)%Z (rc ["zadd"; cleanup_key; ea; cleanup_ch])
                                                 | _ => unreachable
                                                 end
                                               else ret tt) ;;
                                     dom _ <- (if negb (String.eqb meta_expire "0") then
                                                 dom me <- num_of meta_expire ;; dom mes <- num_arg me ;;
                                                 dom _ <- when_ (negb (String.eqb state_expire_key "")) (rc ["pexpire"; state_expire_key; mes]) ;;
                                                 dom _ <- rc ["pexpire"; state_hash_key; mes] ;;
                                                 when_ (negb (String.eqb meta_key "")) (rc ["pexpire"; meta_key; mes])
                                               else ret tt) ;;
                                     dom st <- num_of stream_ttl ;;
                                     if (negb (String.eqb stream_key "") && (0 <? st)%Z)%bool then
                                       dom sts <- num_arg st ;; dom _ <- rc ["pexpire"; stream_key; sts] ;; ret tt
                                     else ret tt
                                   else ret tt) ;;
                         suppressed meta_key epoch "key_exists"
                       else if (String.eqb key_mode "if_exists" && negb key_exists)%bool then suppressed meta_key epoch "key_not_found"
                       else ret tt
                   | _ => unreachable
                   end
                 else ret tt) ;;
       (* Step 2c: CAS *)
       dom _ <- (if (negb (String.eqb exp_off "") && negb (String.eqb exp_epoch "") && negb (String.eqb message_key "")
                     && negb (String.eqb state_hash_key ""))%bool then
                   dom cv <- rc ["hget"; state_hash_key; message_key] ;;
                   let cur := match cv with RBulk s => Some s | _ => None end in
                   let mismatch (v : string) : M unit :=
                     dom o <- current_offset meta_key ;;
                     finish (RArr [RInt o; RBulk epoch; RBulk "position_mismatch"; RBulk v]) in
                   if negb (String.eqb exp_epoch epoch) then mismatch (match cur with Some s => s | None => "" end)
                   else match cur with
                        | None => mismatch ""
                        | Some v =>
                            match value_offset v, str2number exp_off with
                            | None, _ => mismatch v
                            | Some (Some ko), TNum eo => if (ko =? eo)%Z then ret tt else mismatch v
                            | Some None, TNum _ => mismatch v       (* tonumber gives nil: nil ~= number *)
                            | _, _ => unreachable
                            end
                        end
                 else ret tt) ;;
       (* Step 2d: leave of a missing key *)
       dom _ <- (if (String.eqb is_leave "1" && negb (String.eqb message_key "") && negb (String.eqb state_hash_key ""))%bool then
                   dom ex <- rc ["hexists"; state_hash_key; message_key] ;;
                   match ex with
                   | RInt z => if (z =? 0)%Z then suppressed meta_key epoch "key_not_found" else ret tt
                   | _ => unreachable
                   end
                 else ret tt) ;;
       (* Step 3: offset *)
       dom topr <- rc ["hincrby"; meta_key; "s"; "1"] ;;
       match topr with
       | RInt topz =>
           dom _ <- when_ (negb (String.eqb meta_expire "0")) (rc ["pexpire"; meta_key; meta_expire]) ;;
           dom _ <- when_ (negb (String.eqb version "0") && negb (String.eqb vfield "") && negb (String.eqb state_meta_key ""))%bool
                          (rc ["hset"; state_meta_key; vfield; version; vefield; vepoch]) ;;
           ret (epoch, round53 topz)
       | _ => unreachable
       end
     else
       dom _ <- (if (String.eqb is_leave "1" && negb (String.eqb message_key "") && negb (String.eqb state_hash_key ""))%bool then
                   dom ex <- rc ["hexists"; state_hash_key; message_key] ;;
                   match ex with
                   | RInt z => if (z =? 0)%Z then finish (RArr [RInt 0; RBulk nonce; RBulk "key_not_found"]) else ret tt
                   | _ => unreachable
                   end
                 else ret tt) ;;
       ret (nonce, 0%Z)) ;;
  let '(epoch, top) := et in
  (* Step 4: leave *)
  dom _ <- (if (String.eqb is_leave "1" && negb (String.eqb state_hash_key ""))%bool then
              dom _ <- rc ["hdel"; state_hash_key; message_key] ;;
              dom _ <- when_ (negb (String.eqb state_order_key "")) (rc ["zrem"; state_order_key; message_key]) ;;
              dom _ <- when_ (negb (String.eqb state_expire_key "")) (rc ["zrem"; state_expire_key; message_key]) ;;
              dom _ <- when_ (negb (String.eqb vfield "") && negb (String.eqb state_meta_key ""))%bool
                             (rc ["hdel"; state_meta_key; vfield; vefield]) ;;
              if (negb (String.eqb cleanup_key "") && negb (String.eqb cleanup_ch "") && negb (String.eqb state_expire_key ""))%bool
              then unreachable (* Remove never passes a cleanup key (map_broker_redis.go) *)
              else ret tt
            else ret tt) ;;
  (* previous value for key-based delta *)
  dom prev <- (if (String.eqb use_delta "1" && negb (String.eqb message_key "") && negb (String.eqb state_hash_key "")
                   && String.eqb state_payload_arg "" && negb (String.eqb is_leave "1"))%bool then
                 dom p <- rc ["hget"; state_hash_key; message_key] ;;
                 match p with RBulk s => ret (Some s) | RNil => ret None | _ => unreachable end
               else ret None) ;;
  (* Step 5: state *)
  dom _ <- (if (negb (String.eqb state_hash_key "") && negb (String.eqb is_leave "1"))%bool then
              dom ttl <- num_of member_ttl ;;
              let expire_at := round53 (now + ttl) in
              dom _ <- rc ["hset"; state_hash_key; message_key; state_value top epoch state_payload] ;;
              dom _ <- (if (negb (String.eqb state_order_key "") && negb (String.eqb state_expire_key ""))%bool then
                          dom sc <- num_of score ;; dom scs <- num_arg sc ;;
                          dom _ <- rc ["zadd"; state_order_key; scs; message_key] ;;
                          dom _ <- (if (0 <? ttl)%Z then dom ea <- num_arg expire_at ;;
                                                         dom _ <- rc ["zadd"; state_expire_key; ea; message_key] ;; ret tt
                                    else ret tt) ;;
                          if negb (String.eqb meta_expire "0") then
                            dom me <- num_of meta_expire ;; dom mes <- num_arg me ;;
                            dom _ <- rc ["pexpire"; state_hash_key; mes] ;;
                            dom _ <- rc ["pexpire"; state_order_key; mes] ;;
                            dom _ <- rc ["pexpire"; state_expire_key; mes] ;; ret tt
                          else ret tt
                        else
                          dom _ <- (if (0 <? ttl)%Z then
                                      if negb (String.eqb state_expire_key "") then
                                        dom ea <- num_arg expire_at ;;
                                        dom _ <- rc ["zadd"; state_expire_key; ea; message_key] ;; ret tt
                                      else ret tt
                                    else ret tt) ;;
                          if negb (String.eqb meta_expire "0") then
                            dom me <- num_of meta_expire ;; dom mes <- num_arg me ;;
                            dom _ <- when_ (negb (String.eqb state_expire_key "")) (rc ["pexpire"; state_expire_key; mes]) ;;
                            dom _ <- rc ["pexpire"; state_hash_key; mes] ;; ret tt
                          else ret tt) ;;
              dom _ <- (if (negb (String.eqb cleanup_key "") && negb (String.eqb cleanup_ch "") && (0 <? ttl)%Z)%bool then
                          dom ea <- num_arg expire_at ;;
                          dom cs <- rc ["zscore"; cleanup_key; cleanup_ch] ;;
                          match cs with
                          | RNil => dom _ <- rc ["zadd"; cleanup_key; ea; cleanup_ch] ;; ret tt
                          | RBulk s => dom c <- num_of s ;; when_ (expire_at <? c)%Z (rc ["zadd"; cleanup_key; ea; cleanup_ch])
                          | _ => unreachable
                          end
                        else ret tt) ;;
              if negb (String.eqb state_meta_key "") then
                dom _ <- rc ["hset"; state_meta_key; "epoch"; epoch] ;;
                dom _ <- rc ["hset"; state_meta_key; "updated_at"; lua_num2str now] ;;
                if negb (String.eqb meta_expire "0") then
                  dom me <- num_of meta_expire ;; dom mes <- num_arg me ;;
                  dom _ <- rc ["pexpire"; state_meta_key; mes] ;; ret tt
                else ret tt
              else ret tt
            else ret tt) ;;
  (* Step 6: stream *)
  dom _ <- (if (negb (String.eqb stream_key "") && negb (String.eqb meta_key ""))%bool then
              dom _ <- when_ (top =? 1)%Z (rc ["del"; stream_key]) ;;
              dom tops <- num_arg top ;;
              dom _ <- rc ["xadd"; stream_key; "MAXLEN"; "~"; stream_size; tops; "e"; epoch; "d"; message_payload] ;;
              dom st <- num_of stream_ttl ;;
              if (0 <? st)%Z then dom sts <- num_arg st ;; dom _ <- rc ["pexpire"; stream_key; sts] ;; ret tt else ret tt
            else ret tt) ;;
  (* Step 7: publish *)
  dom _ <- when_ (negb (String.eqb channel "") && negb (String.eqb pubcmd ""))%bool
             (rc [pubcmd; channel;
                  match prev with
                  | Some pv => "d:" ++ lua_num2str top ++ ":" ++ epoch ++ ":" ++ lua_num2str (Z.of_N (slen pv)) ++ ":" ++ pv
                               ++ ":" ++ lua_num2str (Z.of_N (slen message_payload)) ++ ":" ++ message_payload
                  | None => lua_num2str top ++ ":" ++ epoch ++ ":" ++ message_payload
                  end]) ;;
  (* Step 8: idempotency result *)
  dom _ <- (if (negb (String.eqb rexp "") && negb (String.eqb result_key ""))%bool then
              dom tops <- num_arg top ;;
              dom _ <- rc ["hset"; result_key; "e"; epoch; "s"; tops] ;;
              dom _ <- rc ["pexpire"; result_key; rexp] ;; ret tt
            else ret tt) ;;
  finish (RArr [RInt top; RBulk epoch; RBulk ""])
  end.

(* ---------------- map_broker_stream_read.lua ---------------- *)
Definition sh_map_stream_read (K A : list string) : M reply :=
  let stream_key := arg K 0 in let meta_key := arg K 1 in
  let include := arg A 0 in let since := arg A 1 in let limit := arg A 2 in let reverse := arg A 3 in
  let meta_expire := arg A 4 in let nonce := arg A 5 in
  dom m <- rc ["hmget"; meta_key; "e"; "s"] ;;
  match m with
  | RArr [me; ms] =>
      dom r <- match me with
               | RBulk e => ret (match ms with RNil => RInt 0 | _ => ms end, e)
               | RNil => dom _ <- rc ["hset"; meta_key; "e"; nonce] ;; dom _ <- rc ["del"; stream_key] ;; ret (RInt 0, nonce)
               | _ => unreachable
               end ;;
      let '(top, epoch) := r in
      dom _ <- when_ (negb (String.eqb meta_expire "0")) (rc ["pexpire"; meta_key; meta_expire]) ;;
      if String.eqb include "0" then finish (RArr [top; RBulk epoch; RArr []]) else
      let cnt := if String.eqb limit "0" then [] else ["COUNT"; limit] in
      dom pubs <- (if String.eqb reverse "0" then rc (["xrange"; stream_key; since; "+"] ++ cnt)%list
                   else
                     dom from <- (if (negb (String.eqb since "-") && negb (String.eqb since "0"))%bool then ret since
                                  else arg_of_reply top) ;;
                     rc (["xrevrange"; stream_key; from; "-"] ++ cnt)%list) ;;
      finish (RArr [top; RBulk epoch; pubs])
  | _ => unreachable
  end.

(* ---------------- map_broker_read_unordered.lua ---------------- *)
Definition sh_map_read_unordered (K A : list string) : M reply :=
  let hash_key := arg K 0 in let expire_key := arg K 1 in let meta_key := arg K 2 in let state_meta_key := arg K 3 in
  let cursor := arg A 0 in let limit_s := arg A 1 in let now_s := arg A 2 in let meta_ttl_s := arg A 3 in
  let state_ttl_s := arg A 4 in let streamless := String.eqb (arg A 5) "1" in
  dom limit <- num_of limit_s ;; dom meta_ttl <- num_of meta_ttl_s ;; dom state_ttl <- num_of state_ttl_s ;;
  let invalid (offset : reply) (epoch : string) : M (reply * string) :=
    finish (RArr [offset; RBulk epoch; RBulk "0"; RArr []]) in
  dom oe <- (if streamless then ret (RBulk "0", "") else
             dom oe <- (if negb (String.eqb meta_key "") then
                          dom e <- rc ["hget"; meta_key; "e"] ;;
                          dom epoch <- match e with
                                       | RBulk s => ret s
                                       | RNil => dom _ <- rc ["hset"; meta_key; "e"; now_s] ;; ret now_s
                                       | _ => unreachable
                                       end ;;
                          dom o <- rc ["hget"; meta_key; "s"] ;;
                          dom _ <- (if (0 <? meta_ttl)%Z then dom ms <- num_arg meta_ttl ;; dom _ <- rc ["pexpire"; meta_key; ms] ;; ret tt
                                    else ret tt) ;;
                          ret (match o with RNil => RBulk "0" | _ => o end, epoch)
                        else ret (RBulk "0", "")) ;;
             let '(offset, epoch) := oe in
             if negb (String.eqb state_meta_key "") then
               dom ex <- rc ["exists"; state_meta_key] ;;
               match ex with
               | RInt z =>
                   if (z =? 0)%Z then invalid offset epoch else
                   dom se <- rc ["hget"; state_meta_key; "epoch"] ;;
                   match se with
                   | RBulk s => if String.eqb s epoch then ret oe else invalid offset epoch
                   | RNil => invalid offset epoch
                   | _ => unreachable
                   end
               | _ => unreachable
               end
             else ret oe) ;;
  let '(offset, epoch) := oe in
  dom _ <- (if (0 <? state_ttl)%Z then
              dom ss <- num_arg state_ttl ;;
              dom _ <- rc ["pexpire"; hash_key; ss] ;;
              dom _ <- when_ (negb (String.eqb expire_key "")) (rc ["pexpire"; expire_key; ss]) ;;
              dom _ <- when_ (negb streamless && negb (String.eqb state_meta_key ""))%bool (rc ["pexpire"; state_meta_key; ss]) ;;
              ret tt
            else ret tt) ;;
  if (0 <? limit)%Z then
    dom lim <- num_arg limit ;;
    dom r <- rc ["hscan"; hash_key; cursor; "COUNT"; lim] ;;
    match r with
    | RArr [c; d] => finish (RArr [offset; RBulk epoch; c; d])
    | _ => unreachable
    end
  else
    dom d <- rc ["hgetall"; hash_key] ;;
    finish (RArr [offset; RBulk epoch; RBulk "0"; d]).

Definition map_shallow : mscripts :=
  mkMS (fun K A => runM (sh_map_add K A)) (fun K A => runM (sh_map_read_unordered K A))
       (fun K A => runM (sh_map_stream_read K A)).
