(* Specification of C01 written from the property text, over the OBSERVABLES only:
   the decoded transport log of one connection/channel and the broker's ground-truth
   list of publications (offset, epoch, withheld-by-this-subscription's-filter?).
   Nothing here refers to the subscribe algorithm. *)
From Coq Require Import List NArith Bool Sorting.Sorted.
From Cfg Require Import Model.Merge Model.MergeSpec Model.Positioned.
Import ListNotations.
Open Scope N_scope.

Definition is_start (f : frame) : bool :=
  match f with FSubReply _ _ _ _ | FSubPush _ _ => true | _ => false end.
Definition is_end (f : frame) : bool :=
  match f with FUnsubReply | FUnsubPush _ | FDisconnect _ => true | _ => false end.

Definition start_off (f : frame) : N :=
  match f with FSubReply _ _ off _ => off | FSubPush off _ => off | _ => 0 end.
Definition start_pubs (f : frame) : list N :=
  match f with FSubReply _ pubs _ _ => map po pubs | _ => [] end.

(* offsets of the positioned publication pushes (offset 0 = publication without offset) *)
Fixpoint pub_offs (l : list frame) : list N :=
  match l with
  | [] => []
  | FPub p :: l' => if po p =? 0 then pub_offs l' else po p :: pub_offs l'
  | _ :: l' => pub_offs l'
  end.

(* the subscribe position announced by the first subscribe reply / push, and everything
   received for the subscription: recovered publications of the reply, then live pushes *)
Fixpoint recv (l : list frame) : option (N * list N) :=
  match l with
  | [] => None
  | f :: l' => if is_start f then Some (start_off f, start_pubs f ++ pub_offs l') else recv l'
  end.

Definition withheld (glog : list pubT) : list N := map po (filter pf glog).
Definition published_real (glog : list pubT) : list N := map po (filter (fun p => negb (pf p)) glog).

(* "offsets strictly increase (above the subscribe position: no duplicate of what the
    client already has), every offset between the subscribe position and the last
    delivered one was delivered or withheld by the filter", plus: what is delivered was
    published and not withheld. *)
Definition C01Spec (glog : list pubT) (l : list frame) : Prop :=
  forall p0 r, recv l = Some (p0, r) ->
    StronglySorted N.lt (p0 :: r) /\
    (forall o, p0 < o -> o <= last r p0 -> In o r \/ In o (withheld glog)) /\
    (forall o, In o r -> In o (published_real glog)).

(* "... it ends the subscription instead of delivering past the gap": once the
   subscription has been ended on the wire no positioned publication follows. *)
Fixpoint no_pub_after_end (l : list frame) : bool :=
  match l with
  | [] => true
  | f :: l' => if is_end f then match pub_offs l' with [] => true | _ => false end
               else no_pub_after_end l'
  end.

(* ---- decidable oracle ---- *)
Fixpoint rangeb (lo : N) (n : nat) (P : N -> bool) : bool :=
  match n with O => true | S n' => P lo && rangeb (lo + 1) n' P end.

Definition c01_oracle (glog : list pubT) (l : list frame) : bool :=
  match recv l with
  | None => true
  | Some (p0, r) =>
      strict_sorted (p0 :: r) &&
      rangeb (p0 + 1) (N.to_nat (last r p0 - p0))
             (fun o => memN o r || memN o (withheld glog)) &&
      forallb (fun o => memN o (published_real glog)) r
  end.
