(* UTF-8 well-formedness.
   [utf8_valid] mirrors the loop of Go's unicode/utf8.ValidString (tables `first` and `acceptRanges`,
   without the 8-bytes-at-a-time ASCII fast path, which has the same meaning).
   [utf8_wf] is the grammar of RFC 3629 section 4, as an inductive predicate. *)
From Coq Require Import List NArith Bool.
Import ListNotations.
Open Scope N_scope.

(* continuation byte: locb..hicb *)
Definition utf8_cont (c : N) : bool := (128 <=? c) && (c <=? 191).
(* acceptRanges for the second byte, selected by the first byte *)
Definition utf8_lo3 (c0 : N) : N := if c0 =? 224 then 160 else 128.
Definition utf8_hi3 (c0 : N) : N := if c0 =? 237 then 159 else 191.
Definition utf8_lo4 (c0 : N) : N := if c0 =? 240 then 144 else 128.
Definition utf8_hi4 (c0 : N) : N := if c0 =? 244 then 143 else 191.

Fixpoint utf8_valid (s : list N) : bool :=
  match s with
  | [] => true
  | c0 :: r0 =>
      if c0 <? 128 then utf8_valid r0
      else if (194 <=? c0) && (c0 <=? 223) then
        match r0 with
        | c1 :: r1 => utf8_cont c1 && utf8_valid r1
        | _ => false
        end
      else if (224 <=? c0) && (c0 <=? 239) then
        match r0 with
        | c1 :: c2 :: r2 => (utf8_lo3 c0 <=? c1) && (c1 <=? utf8_hi3 c0) && utf8_cont c2 && utf8_valid r2
        | _ => false
        end
      else if (240 <=? c0) && (c0 <=? 244) then
        match r0 with
        | c1 :: c2 :: c3 :: r3 =>
            (utf8_lo4 c0 <=? c1) && (c1 <=? utf8_hi4 c0) && utf8_cont c2 && utf8_cont c3 && utf8_valid r3
        | _ => false
        end
      else false
  end.

(* RFC 3629:
   UTF8-octets = *( UTF8-char )
   UTF8-char   = UTF8-1 / UTF8-2 / UTF8-3 / UTF8-4
   UTF8-1      = %x00-7F
   UTF8-2      = %xC2-DF UTF8-tail
   UTF8-3      = %xE0 %xA0-BF UTF8-tail / %xE1-EC 2( UTF8-tail ) /
                 %xED %x80-9F UTF8-tail / %xEE-EF 2( UTF8-tail )
   UTF8-4      = %xF0 %x90-BF 2( UTF8-tail ) / %xF1-F3 3( UTF8-tail ) /
                 %xF4 %x80-8F 2( UTF8-tail )
   UTF8-tail   = %x80-BF *)
Definition in_range (lo hi c : N) : Prop := lo <= c /\ c <= hi.
Definition utf8_tail (c : N) : Prop := in_range 128 191 c.

Inductive utf8_char : list N -> Prop :=
| U1 : forall a, a <= 127 -> utf8_char [a]
| U2 : forall a b, in_range 194 223 a -> utf8_tail b -> utf8_char [a; b]
| U3a : forall b c, in_range 160 191 b -> utf8_tail c -> utf8_char [224; b; c]
| U3b : forall a b c, in_range 225 236 a -> utf8_tail b -> utf8_tail c -> utf8_char [a; b; c]
| U3c : forall b c, in_range 128 159 b -> utf8_tail c -> utf8_char [237; b; c]
| U3d : forall a b c, in_range 238 239 a -> utf8_tail b -> utf8_tail c -> utf8_char [a; b; c]
| U4a : forall b c d, in_range 144 191 b -> utf8_tail c -> utf8_tail d -> utf8_char [240; b; c; d]
| U4b : forall a b c d, in_range 241 243 a -> utf8_tail b -> utf8_tail c -> utf8_tail d -> utf8_char [a; b; c; d]
| U4c : forall b c d, in_range 128 143 b -> utf8_tail c -> utf8_tail d -> utf8_char [244; b; c; d].

Inductive utf8_wf : list N -> Prop :=
| UNil : utf8_wf []
| UCons : forall ch rest, utf8_char ch -> utf8_wf rest -> utf8_wf (ch ++ rest).
