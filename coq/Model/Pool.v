(* Model of the three tiered sync.Pool-backed buffer pools:
     BB  internal/bpool/bpool.go        GetByteBuffer / PutByteBuffer     (19 classes, max 2^18)
     BS  internal/bpool/byte_slices.go  GetByteSlicesBuf / PutByteSlicesBuf (13 classes, max 4096)
     IB  writer.go                      getItemBuf / putItemBuf           (13 classes, max 4096)
   Executable, no proofs here.

   sync.Pool is modelled as an arbitrary multiset per class: a Get may hand
   back ANY element previously Put into that class, or nothing (the pool may
   drop elements at any time), in which case the code allocates.  The choice
   is part of the operation ([OGet n (Some h)] / [OGet n None]), so theorems
   quantify over all choices and the correspondence replays the choice the
   real pool made.

   A buffer is (cap, len, dirty) where [dirty] is a list of half-open index
   intervals [lo,hi) of slots of the backing array holding non-zero values
   (exact, not an over-approximation: the driver only ever writes non-zero
   values).  The caller owns a buffer between Get and Put and may mutate it
   within Go's slice rules ([mutation]); ownership is exclusive (no use after
   Put, no double Put: such ops are ignored by the model, see [legal_op]).

   The model follows /repo after the fix beefe1b7 (putItemBuf clears the whole
   backing array). *)
From Coq Require Import List NArith ZArith Bool.
Import ListNotations.
Open Scope N_scope.

Inductive kind := BB | BS | IB.

Definition nclasses (k : kind) : N := match k with BB => 19 | _ => 13 end.
Definition maxlen (k : kind) : N := match k with BB => 262144 | _ => 4096 end.
Definition default_len : N := 16.  (* byte_slices.go "default"; writer.go defaultMaxMessagesInFrame *)

(* uint32(x) conversion of a Go int *)
Definition u32 (z : Z) : N := Z.to_N (z mod 4294967296)%Z.
(* bits.Len32 x = 32 - bits.LeadingZeros32 x  (x < 2^32) *)
Definition len32 (x : N) : N := N.size x.
(* uint32 v-1 with wrap-around *)
Definition dec32 (v : N) : N := if v =? 0 then 4294967295 else v - 1.
(* uint32(1) << i *)
Definition shl32 (i : N) : N := (2 ^ i) mod 4294967296.

(* bpool.go nextLogBase2: no zero guard *)
Definition next_log2_bb (v : N) : N := len32 (dec32 v).
(* byte_slices.go nextLogBase2ByteSlices / writer.go nextLogBase2: zero guard *)
Definition next_log2_g (v : N) : N := if v =? 0 then 0 else len32 (v - 1).

Definition next_log2 (k : kind) (v : N) : N :=
  match k with BB => next_log2_bb v | _ => next_log2_g v end.

Definition prev_log2 (k : kind) (v : N) : N :=
  match k with
  | BB => let next := next_log2_bb v in
          if v =? shl32 next then next else next - 1
  | _ => if v =? 0 then 0 else
         let next := next_log2_g v in
         if v =? shl32 next then next else next - 1
  end.

Record buf := mkBuf { b_cap : N; b_len : N; b_dirty : list (N * N) }.

Inductive mutation :=
| MWrite (i : N)                       (* B[i] = nonzero, i < len *)
| MFill                                (* all of B[0:len] = nonzero *)
| MReslice (k : N)                     (* B = B[:k], k <= cap *)
| MSetNew (c l : N) (dirty : bool).    (* B = a different backing array (append growth / arbitrary caller slice):
                                          cap c, len l, the l visible slots all nonzero iff dirty *)

Definition apply_mut (b : buf) (m : mutation) : buf :=
  match m with
  | MWrite i => if i <? b_len b then mkBuf (b_cap b) (b_len b) ((i, i + 1) :: b_dirty b) else b
  | MFill => mkBuf (b_cap b) (b_len b) ((0, b_len b) :: b_dirty b)
  | MReslice k => if k <=? b_cap b then mkBuf (b_cap b) k (b_dirty b) else b
  | MSetNew c l d => if l <=? c then mkBuf c l (if d then [(0, l)] else []) else b
  end.

(* lowest index of a non-zero slot of the backing array *)
Fixpoint lowest_dirty (d : list (N * N)) : option N :=
  match d with
  | [] => None
  | (lo, hi) :: d' =>
      let r := lowest_dirty d' in
      if lo <? hi then
        match r with Some x => Some (N.min lo x) | None => Some lo end
      else r
  end.

(* `for i := range buf.B { buf.B[i] = zero }` : slots [0,len) become zero *)
Definition clear_below (len : N) (d : list (N * N)) : list (N * N) :=
  map (fun '(lo, hi) => (N.max lo len, hi)) d.

Inductive op :=
| OGet (n : Z) (choice : option N)   (* Some h: the pool returned the pooled buffer with handle h; None: pool empty/lost *)
| OPut (h : N)
| OMut (h : N) (m : mutation).

Inductive obs := ObsPanic | ObsBuf (cap len : N) (dirty : option N).

Record st := mkSt {
  pooled : list (N * N * buf);   (* (class index, handle, buffer) *)
  held   : list (N * buf);       (* buffers owned by callers *)
  next_id : N }.

Definition init : st := mkSt [] [] 0.

Fixpoint take_held (h : N) (l : list (N * buf)) : option (buf * list (N * buf)) :=
  match l with
  | [] => None
  | (h', b) :: t =>
      if h' =? h then Some (b, t)
      else match take_held h t with
           | Some (b', t') => Some (b', (h', b) :: t')
           | None => None
           end
  end.

Fixpoint take_pooled (idx h : N) (l : list (N * N * buf)) : option (buf * list (N * N * buf)) :=
  match l with
  | [] => None
  | (i', h', b) :: t =>
      if (i' =? idx) && (h' =? h) then Some (b, t)
      else match take_pooled idx h t with
           | Some (b', t') => Some (b', (i', h', b) :: t')
           | None => None
           end
  end.

Definition obs_of (b : buf) : obs := ObsBuf (b_cap b) (b_len b) (lowest_dirty (b_dirty b)).

(* hand a freshly allocated buffer to the caller under a new handle *)
Definition give_fresh (s : st) (b : buf) : st * obs :=
  (mkSt (pooled s) ((next_id s, b) :: held s) (next_id s + 1), obs_of b).

(* the class-indexed part shared by the three Get functions.
   [n] is the effective positive length, [idx] its class. *)
Definition get_class (k : kind) (s : st) (n idx : N) (choice : option N) : st * obs :=
  let fresh := mkBuf (2 ^ idx) (match k with IB => n | _ => 0 end) [] in
  if nclasses k <=? idx then (s, ObsPanic)              (* index out of range *)
  else
    match choice with
    | None => give_fresh s fresh
    | Some h =>
        match take_pooled idx h (pooled s) with
        | None => give_fresh s fresh                     (* not a legal choice: see legal_op *)
        | Some (b, rest) =>
            match k with
            | BB => (mkSt rest ((h, b) :: held s) (next_id s), obs_of b)            (* returned as is *)
            | BS => let b' := mkBuf (b_cap b) 0 (b_dirty b) in                      (* buf.B = buf.B[:0] *)
                    (mkSt rest ((h, b') :: held s) (next_id s), obs_of b')
            | IB => if n <=? b_cap b then                                           (* buf.B = buf.B[:length] *)
                      let b' := mkBuf (b_cap b) n (b_dirty b) in
                      (mkSt rest ((h, b') :: held s) (next_id s), obs_of b')
                    else (mkSt rest (held s) (next_id s), ObsPanic)                 (* slice bounds out of range *)
            end
        end
    end.

Definition get (k : kind) (s : st) (n : Z) (choice : option N) : st * obs :=
  match k with
  | BB =>
      if (n =? 0)%Z then give_fresh s (mkBuf 0 0 [])
      else if (Z.of_N (maxlen BB) <? n)%Z then give_fresh s (mkBuf (Z.to_N n) 0 [])
      else get_class BB s (u32 n) (next_log2_bb (u32 n)) choice
  | _ =>
      let n' := if (n <=? 0)%Z then default_len else Z.to_N n in
      if maxlen k <? n' then give_fresh s (mkBuf n' (match k with IB => n' | _ => 0 end) [])
      else get_class k s n' (next_log2_g (u32 (Z.of_N n'))) choice
  end.

Definition put (k : kind) (s : st) (h : N) : st :=
  match take_held h (held s) with
  | None => s
  | Some (b, rest) =>
      let s' := mkSt (pooled s) rest (next_id s) in
      if (b_cap b =? 0) || (maxlen k <? b_cap b) then s'        (* dropped *)
      else
        let idx := prev_log2 k (b_cap b) in
        let d := match k with
                 | BB => b_dirty b                                  (* Reset: no clearing *)
                 | BS => clear_below (b_len b) (b_dirty b)          (* for i := range buf.B { buf.B[i] = nil } *)
                 | IB => clear_below (b_cap b) (b_dirty b)          (* buf.B = buf.B[:capacity]; clear(buf.B) *)
                 end in
        mkSt ((idx, h, mkBuf (b_cap b) 0 d) :: pooled s) rest (next_id s)
  end.

Definition mutate (s : st) (h : N) (m : mutation) : st :=
  match take_held h (held s) with
  | None => s
  | Some (b, rest) => mkSt (pooled s) ((h, apply_mut b m) :: rest) (next_id s)
  end.

Definition step (k : kind) (s : st) (o : op) : st * option (Z * obs) :=
  match o with
  | OGet n c => let '(s', r) := get k s n c in (s', Some (n, r))
  | OPut h => (put k s h, None)
  | OMut h m => (mutate s h m, None)
  end.

(* the (requested length, result) pairs of all Gets of a run *)
Fixpoint outs_from (k : kind) (s : st) (ops : list op) : list (Z * obs) :=
  match ops with
  | [] => []
  | o :: ops' =>
      let '(s', r) := step k s o in
      match r with Some x => x :: outs_from k s' ops' | None => outs_from k s' ops' end
  end.

Definition outs (k : kind) (ops : list op) := outs_from k init ops.

(* --- side conditions used by the correspondence (not by the size theorems) --- *)

(* class a Get of n looks into, when it reaches the pool at all *)
Definition class_of_get (k : kind) (n : Z) : option N :=
  match k with
  | BB => if (n =? 0)%Z then None else if (Z.of_N (maxlen BB) <? n)%Z then None
          else Some (next_log2_bb (u32 n))
  | _ => let n' := if (n <=? 0)%Z then default_len else Z.to_N n in
         if maxlen k <? n' then None else Some (next_log2_g (u32 (Z.of_N n')))
  end.

Definition mut_pre (b : buf) (m : mutation) : bool :=
  match m with
  | MWrite i => i <? b_len b
  | MFill => true
  | MReslice k => k <=? b_cap b
  | MSetNew c l _ => l <=? c
  end.

(* the op is one the model can follow: the pooled handle is where the model
   says it is, handles exist, mutations respect Go's slice rules *)
Definition legal_op (k : kind) (s : st) (o : op) : bool :=
  match o with
  | OGet n (Some h) =>
      match class_of_get k n with
      | Some idx => match take_pooled idx h (pooled s) with Some _ => true | None => false end
      | None => false
      end
  | OGet _ None => true
  | OPut h => match take_held h (held s) with Some _ => true | None => false end
  | OMut h m => match take_held h (held s) with Some (b, _) => mut_pre b m | None => false end
  end.

Fixpoint legal_from (k : kind) (s : st) (ops : list op) : bool :=
  match ops with
  | [] => true
  | o :: ops' => legal_op k s o && legal_from k (fst (step k s o)) ops'
  end.

(* every non-zero slot lies below [len] (or the interval is empty) *)
Definition dirty_below (len : N) (d : list (N * N)) : bool :=
  forallb (fun '(lo, hi) => (hi <=? len) || (hi <=? lo)) d.

(* putItemBuf as it was before the fix (commit beefe1b7): it cleared only
   B[0:len] (`for i := range buf.B { buf.B[i] = queue.Item{} }`).  Kept for
   the refutation theorem C42_item_prefix_clear_refuted. *)
Definition put_item_prefix_clear (s : st) (h : N) : st :=
  match take_held h (held s) with
  | None => s
  | Some (b, rest) =>
      if (b_cap b =? 0) || (maxlen IB <? b_cap b) then mkSt (pooled s) rest (next_id s)
      else mkSt ((prev_log2 IB (b_cap b), h, mkBuf (b_cap b) 0 (clear_below (b_len b) (b_dirty b))) :: pooled s)
                rest (next_id s)
  end.
