(* C09 — model of command dispatch on one client connection:
   HandleReadFrame (handler_websocket.go) -> Client.HandleCommand -> dispatchCommand ->
   handle* (client.go), with application handlers abstracted to scripts
   (reply now / error now / disconnect now / keep the callback and complete later).
   Labelled transition system: a label is one frame read by the transport, one
   server ping, or the completion of one asynchronous handler callback.
   No proofs here.

   Numbers: error codes 103 permission denied, 105 already subscribed, 107 bad
   request, 108 not available; disconnect codes 3000 connection closed (the transport's
   own close after a reader stop), 3501 bad request, 3508 not available. *)
From Coq Require Import List NArith Bool.
Import ListNotations.
Open Scope N_scope.

Inductive kind :=
| KConnect | KPing | KSubscribe | KUnsubscribe | KPublish | KPresence | KPresenceStats
| KHistory | KRpc | KSend | KRefresh | KSubRefresh.

Definition kind_eqb (a b : kind) : bool :=
  match a, b with
  | KConnect, KConnect | KPing, KPing | KSubscribe, KSubscribe | KUnsubscribe, KUnsubscribe
  | KPublish, KPublish | KPresence, KPresence | KPresenceStats, KPresenceStats
  | KHistory, KHistory | KRpc, KRpc | KSend, KSend | KRefresh, KRefresh
  | KSubRefresh, KSubRefresh => true
  | _, _ => false
  end.

(* what the application handler does when invoked *)
Inductive script := SOk | SErr (code : N) | SDisc (code : N) | SAsync.
(* how an asynchronous callback is eventually completed *)
Inductive result := ROk | RErr (code : N) | RDisc (code : N).

(* what the application's OnCommandRead hook says about a command (called before the handler) *)
Inductive rdres := RdOk | RdErr (code : N) | RdDisc (code : N).

Record cmd := mkCmd {
  c_id : N;
  c_fields : list kind;   (* request fields that are non-nil (protocol.Command is not a oneof) *)
  c_chan : N;             (* channel carried by the request(s), 0 = "" *)
  c_tok : bool;           (* refresh / sub_refresh token non-empty *)
  c_script : script;
  c_read : rdres
}.

Record pend := mkPend { p_tok : N; p_id : N; p_kind : kind; p_chan : N }.

Record cfg := mkCfg {
  g_handlers : list kind;  (* registered application handlers (OnSubscribe, OnRPC, ...) *)
  g_csr : bool             (* client-side refresh for connection and subscriptions *)
}.

Record st := mkSt {
  s_closed : bool; s_unusable : bool; s_auth : bool;
  s_ping : bool;           (* lastPing > 0: a server ping is waiting for its pong *)
  s_subs : list N;         (* channels in Client.channels with flagSubscribed *)
  s_pend : list pend;      (* handler callbacks held by the application *)
  s_next : N               (* number of asynchronous invocations so far (token source) *)
}.

Definition init : st := mkSt false false false false [] [] 0.

Inductive out :=
| OIssue (id : N) (expects : bool)   (* ghost: a command entered dispatchCommand *)
| OHandler (k : kind) (id : N)       (* application handler invoked *)
| OReply (id err : N)                (* reply written, err = 0: result, else error code *)
| OClose (code : N).                 (* connection closed with this disconnect code *)

Definition has (k : kind) (c : cmd) : bool := existsb (kind_eqb k) (c_fields c).
Definition registered (g : cfg) (k : kind) : bool := existsb (kind_eqb k) (g_handlers g).
Definition memN (x : N) (l : list N) : bool := existsb (N.eqb x) l.
Definition delN (x : N) (l : list N) : list N := filter (fun y => negb (y =? x)) l.

(* isPong: cmd.Id == 0 && cmd.Send == nil, whatever else is set *)
Definition is_pong (c : cmd) : bool := (c_id c =? 0) && negb (has KSend c).

(* first if/else chain of dispatchCommand (frame type): no Ping branch *)
Definition frame_order : list kind :=
  [KConnect; KSubscribe; KUnsubscribe; KPublish; KPresence; KPresenceStats; KHistory; KRpc;
   KSend; KRefresh; KSubRefresh].
(* second chain (which handle* runs) *)
Definition handler_order : list kind :=
  [KConnect; KPing; KSubscribe; KUnsubscribe; KPublish; KPresence; KPresenceStats; KHistory;
   KRpc; KSend; KRefresh; KSubRefresh].

Definition first_of (order : list kind) (c : cmd) : option kind := find (fun k => has k c) order.

Definition rd_err (c : cmd) : bool := match c_read c with RdErr _ => true | _ => false end.
Definition rd_ok (c : cmd) : bool := match c_read c with RdOk => true | _ => false end.

(* does this command, once dispatched, call for a reply? (pongs and sends do not, unless the
   OnCommandRead hook refuses the command with a client error) *)
Definition expects (c : cmd) : bool :=
  negb (is_pong c) &&
  match first_of frame_order c, first_of handler_order c with
  | Some _, Some KSend => rd_err c
  | Some _, Some _ => true
  | _, _ => false
  end.

Definition set_closed (s : st) : st :=
  mkSt true (s_unusable s) (s_auth s) (s_ping s) (s_subs s) (s_pend s) (s_next s).
Definition set_unusable (s : st) : st :=
  mkSt (s_closed s) true (s_auth s) (s_ping s) (s_subs s) (s_pend s) (s_next s).
Definition set_auth (s : st) : st :=
  mkSt (s_closed s) (s_unusable s) true (s_ping s) (s_subs s) (s_pend s) (s_next s).
Definition set_ping (s : st) (b : bool) : st :=
  mkSt (s_closed s) (s_unusable s) (s_auth s) b (s_subs s) (s_pend s) (s_next s).
Definition set_subs (s : st) (l : list N) : st :=
  mkSt (s_closed s) (s_unusable s) (s_auth s) (s_ping s) l (s_pend s) (s_next s).
Definition set_pend (s : st) (l : list pend) : st :=
  mkSt (s_closed s) (s_unusable s) (s_auth s) (s_ping s) (s_subs s) l (s_next s).
Definition add_pend (s : st) (id : N) (k : kind) (ch : N) : st :=
  mkSt (s_closed s) (s_unusable s) (s_auth s) (s_ping s) (s_subs s)
       (s_pend s ++ [mkPend (s_next s) id k ch]) (s_next s + 1).

(* channels reserved by subscribe callbacks still held by the application *)
Definition pending_sub (s : st) (ch : N) : bool :=
  existsb (fun p => kind_eqb (p_kind p) KSubscribe && (p_chan p =? ch)) (s_pend s).

(* state change of a successful completion *)
Definition on_ok (s : st) (k : kind) (ch : N) : st :=
  match k with
  | KConnect => set_auth s
  | KSubscribe => set_subs s (ch :: s_subs s)
  | _ => s
  end.

(* what a handle* function did *)
Inductive hres :=
| HErr (code : N)                  (* returned a client error: dispatch writes the error reply *)
| HDisc (code : N)                 (* returned a Disconnect *)
| HSync (inv : bool) (r : result)  (* returned nil after the reply/error/disconnect was produced *)
| HAsync                           (* returned nil, application keeps the callback *)
| HSilent (inv : bool)             (* returned nil, no reply by design (send) *)
| HBlocked.                        (* waits for an in-flight subscribe of the same channel *)

Definition by_script (sc : script) : hres :=
  match sc with
  | SOk => HSync true ROk
  | SErr code => HSync true (RErr code)
  | SDisc code => HSync true (RDisc code)
  | SAsync => HAsync
  end.

(* handle* functions up to the point where the application handler is called *)
Definition run_handler (g : cfg) (s : st) (c : cmd) (k : kind) : hres :=
  let ch := c_chan c in
  match k with
  | KConnect =>
      if s_auth s then HDisc 3501 else
      match c_script c with           (* OnConnecting is synchronous *)
      | SOk | SAsync => HSync true ROk
      | SErr code => HErr code
      | SDisc code => HDisc code
      end
  | KPing => HErr 108
  | KSubscribe =>
      if ch =? 0 then HDisc 3501
      else if negb (registered g KSubscribe) then HErr 108
      else if memN ch (s_subs s) || pending_sub s ch then HErr 105
      else by_script (c_script c)
  | KUnsubscribe =>
      if ch =? 0 then HDisc 3501
      else if pending_sub s ch then HBlocked
      else HSync false ROk
  | KPublish | KPresence | KPresenceStats | KHistory =>
      if negb (registered g k) then HErr 108
      else if ch =? 0 then HDisc 3501
      else by_script (c_script c)
  | KRpc =>
      if negb (registered g KRpc) then HErr 108 else by_script (c_script c)
  | KSend =>
      if negb (registered g KSend) then HDisc 3508 else HSilent true
  | KRefresh =>
      if negb (registered g KRefresh) then HErr 108
      else if negb (c_tok c) then HDisc 3501
      else if negb (g_csr g) then HDisc 3501
      else by_script (c_script c)
  | KSubRefresh =>
      if ch =? 0 then HDisc 3501
      else if negb (memN ch (s_subs s)) then HErr 103
      else if negb (registered g KSubRefresh) then HErr 108
      else if negb (g_csr g) then HDisc 3501
      else if negb (c_tok c) then HErr 107
      else by_script (c_script c)
  end.

(* issueCommandReadEvent comes first: an error from the hook is handled like an error returned
   by the handler (handleCommandDispatchError) and the handler is not run *)
Definition run_handler_rd (g : cfg) (s : st) (c : cmd) (k : kind) : hres :=
  match c_read c with
  | RdOk => run_handler g s c k
  | RdErr code => HErr code
  | RdDisc code => HDisc code
  end.

(* connect has its handler event even when OnConnecting fails *)
Definition connect_invoked (s : st) (c : cmd) (k : kind) : bool :=
  match k with KConnect => negb (s_auth s) && rd_ok c | _ => false end.

Definition state_after (s : st) (k : kind) (ch : N) : st :=
  match k with
  | KUnsubscribe => set_subs s (delN ch (s_subs s))
  | _ => on_ok s k ch
  end.

(* outcome of one HandleCommand: new state, outputs, proceed *)
Definition handle_command (g : cfg) (s : st) (c : cmd) : option (st * list out * bool) :=
  let id := c_id c in
  if s_closed s then Some (s, [], false)
  else if s_unusable s then Some (set_closed s, [OClose 3501], false)
  else
  let iss := OIssue id (expects c) in
  if negb (s_auth s) && negb (has KConnect c) then Some (set_closed s, [iss; OClose 3501], false)
  else if is_pong c then
    if s_ping s then Some (set_ping s false, [iss], true)
    else Some (set_closed s, [iss; OClose 3501], false)
  else
  match first_of frame_order c, first_of handler_order c with
  | Some _, Some k =>
      let hev := if connect_invoked s c k then [OHandler k id] else [] in
      match run_handler_rd g s c k with
      | HBlocked => None
      | HErr code =>
          if has KConnect c
          then Some (set_unusable s, iss :: hev ++ [OReply id code], false)
          else Some (s, iss :: hev ++ [OReply id code], true)
      | HDisc code => Some (set_closed s, iss :: hev ++ [OClose code], false)
      | HSync inv r =>
          let hev := if inv then [OHandler k id] else [] in
          match r with
          | ROk => Some (state_after s k (c_chan c), iss :: hev ++ [OReply id 0], true)
          | RErr code => Some (s, iss :: hev ++ [OReply id code], true)
          | RDisc code => Some (set_closed s, iss :: hev ++ [OClose code], false)
          end
      | HAsync => Some (add_pend s id k (c_chan c), [iss; OHandler k id], true)
      | HSilent inv => Some (s, iss :: (if inv then [OHandler k id] else []), true)
      end
  | _, _ => Some (set_closed s, [iss; OClose 3501], false)
  end.

(* HandleReadFrame: commands in order until one says stop *)
Fixpoint handle_cmds (g : cfg) (s : st) (cs : list cmd) : option (st * list out * bool) :=
  match cs with
  | [] => Some (s, [], true)
  | c :: r =>
      match handle_command g s c with
      | None => None
      | Some (s1, o1, false) => Some (s1, o1, false)
      | Some (s1, o1, true) =>
          match handle_cmds g s1 r with
          | None => None
          | Some (s2, o2, p) => Some (s2, o1 ++ o2, p)
          end
      end
  end.

(* one frame; [malformed] = the stream decoder returned a non-EOF error after [cs].
   Reader stop without a disconnect (failed connect): the transport closes (3000). *)
Definition handle_frame (g : cfg) (s : st) (cs : list cmd) (malformed : bool)
  : option (st * list out) :=
  match handle_cmds g s cs with
  | None => None
  | Some (s1, o1, false) =>
      if s_closed s1 then Some (s1, o1) else Some (set_closed s1, o1 ++ [OClose 3000])
  | Some (s1, o1, true) =>
      if malformed || match cs with [] => true | _ => false end
      then if s_closed s1 then Some (s1, o1) else Some (set_closed s1, o1 ++ [OClose 3501])
      else Some (s1, o1)
  end.

Fixpoint take_pend (tok : N) (l : list pend) : option (pend * list pend) :=
  match l with
  | [] => None
  | p :: r =>
      if p_tok p =? tok then Some (p, r)
      else match take_pend tok r with
           | Some (q, r') => Some (q, p :: r')
           | None => None
           end
  end.

(* the application calls a held callback *)
Definition complete (s : st) (tok : N) (r : result) : st * list out :=
  match take_pend tok (s_pend s) with
  | None => (s, [])
  | Some (p, rest) =>
      let s1 := set_pend s rest in
      if s_closed s then (s1, [])       (* reply is dropped by the closed writer *)
      else match r with
           | ROk => (on_ok s1 (p_kind p) (p_chan p), [OReply (p_id p) 0])
           | RErr code => (s1, [OReply (p_id p) code])
           | RDisc code => (set_closed s1, [OClose code])
           end
  end.

Inductive label :=
| LFrame (cs : list cmd) (malformed : bool)
| LPing                                  (* ping timer fired: Client.sendPing *)
| LComplete (tok : N) (r : result).

Definition step (g : cfg) (s : st) (l : label) : option (st * list out) :=
  match l with
  | LFrame cs m => handle_frame g s cs m
  | LPing => if s_closed s then Some (s, []) else Some (set_ping s true, [])
  | LComplete tok r => Some (complete s tok r)
  end.

(* a run: outputs grouped per label *)
Fixpoint exec (g : cfg) (s : st) (ls : list label) : option (st * list (list out)) :=
  match ls with
  | [] => Some (s, [])
  | l :: r =>
      match step g s l with
      | None => None
      | Some (s1, o1) =>
          match exec g s1 r with
          | None => None
          | Some (s2, os) => Some (s2, o1 :: os)
          end
      end
  end.
