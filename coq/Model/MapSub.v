(* C22: model of the map subscription protocol (server side, over a small model of
   the in-memory map broker) and of a reference client that follows it.

   Mirrors:
     map_broker_memory.go  mapHub.add / remove (stream append + StreamSize trim),
                           expireStreams (stream.Clear), clear (channel dropped,
                           next read creates a new epoch), getState (key-cursor
                           pagination over sorted keys), getStream (since / limit,
                           front of the retained window when the offset is gone)
     internal/memstream    Add trims to size, Get falls back to Front
     node.go               MapStreamRead trim detection (quirk: only Since.Offset > 0
                           and a non-empty result), mapStreamPosition, checkPosition
     client_map.go         handleMapStatePhase (frozen first-page offset, revision
                           filter on later pages, state->live shortcut),
                           handleMapStreamPhase (streamStart capture, close-enough
                           rule), handleMapTransitionToLive (hub add -> stream read
                           limit+1 -> epoch check -> limit check -> merge with
                           buffered -> position), recovery join
     client.go             writePublicationUpdatePosition (epoch / offset checks)

   Abstractions: keys are naturals below [K] (the driver uses fixed-width key
   names so that the broker's lexicographic order is this order), values are
   opaque ids, a tags filter is a per-key visibility predicate (tags of a key
   are stable), epochs are a counter, PUB/SUB delivery to the node is reliable
   and in order (in-memory broker), positioned (recoverable) mode only. *)
From Coq Require Import List Arith Bool NArith.
From Cfg Require Import Model.Merge.
Import ListNotations.

Definition key := nat.
Definition val := N.

(* one entry of the channel stream: publish (Some v) or removal (None) *)
Record change := mkC { ck : key; cv : option val }.

(* ------------------------------------------------------------------ broker *)
Record broker := mkB {
  b_epoch : nat;
  b_log : list change;   (* every change of this epoch; offset = index + 1 *)
  b_lo : nat;            (* first offset still retained in the stream window (window = [lo .. top]) *)
  b_size : nat           (* StreamSize *)
}.

Definition top (b : broker) : nat := length (b_log b).

Definition smap := key -> option (nat * val).     (* key -> (entry offset, value) *)
Definition sempty : smap := fun _ => None.

Fixpoint replay_log (l : list change) (off : nat) (m : smap) : smap :=
  match l with
  | [] => m
  | c :: t =>
      replay_log t (S off)
        (fun k => if Nat.eqb k (ck c)
                  then match cv c with Some v => Some (S off, v) | None => None end
                  else m k)
  end.

Definition state_at (b : broker) (p : nat) : smap := replay_log (firstn p (b_log b)) 0 sempty.
Definition state (b : broker) : smap := state_at b (top b).

Inductive wop :=
| WPub (k : key) (v : val)
| WRem (k : key)            (* Remove / key TTL expiry: suppressed when the key is absent *)
| WExpireStream             (* StreamTTL elapsed: the retained window is cleared, top and epoch stay *)
| WClear.                   (* Clear: channel dropped; the next access creates a new epoch *)

Definition trim_lo (b : broker) (top' : nat) : nat := Nat.max (b_lo b) (S top' - b_size b).

Definition apply_w (b : broker) (w : wop) : broker :=
  match w with
  | WPub k v =>
      let log' := b_log b ++ [mkC k (Some v)] in
      mkB (b_epoch b) log' (trim_lo b (length log')) (b_size b)
  | WRem k =>
      match state b k with
      | None => b
      | Some _ =>
          let log' := b_log b ++ [mkC k None] in
          mkB (b_epoch b) log' (trim_lo b (length log')) (b_size b)
      end
  | WExpireStream => mkB (b_epoch b) (b_log b) (S (top b)) (b_size b)
  | WClear => mkB (S (b_epoch b)) [] 1 (b_size b)
  end.

Definition apply_ws (b : broker) (ws : list wop) : broker := fold_left apply_w ws b.

(* the publications a writer op broadcasts: (offset, change) *)
Definition pubs_between (b b' : broker) : list (nat * change) :=
  if Nat.eqb (b_epoch b) (b_epoch b')
  then combine (seq (S (top b)) (top b' - top b)) (skipn (top b) (b_log b'))
  else [].

(* every broadcast of a list of writer ops, one op after the other, whatever its epoch: the
   subscribe buffer of a client that already is in the hub receives them all (publications made
   before a clear inside the window included) *)
Fixpoint emitted (b : broker) (ws : list wop) : list (nat * change) :=
  match ws with
  | [] => []
  | w :: t => pubs_between b (apply_w b w) ++ emitted (apply_w b w) t
  end.

(* what the subscribe buffer holds at the end of the two windows of a live transition *)
Definition buffered_of (b : broker) (g1 g2 : list wop) : list (nat * change) :=
  let b1 := apply_ws b g1 in
  let b2 := apply_ws b1 g2 in
  if Nat.eqb (b_epoch b1) (b_epoch b) && Nat.eqb (b_epoch b2) (b_epoch b1)
  then pubs_between b b1 ++ pubs_between b1 b2      (* no clear inside the windows *)
  else emitted b (g1 ++ g2).

(* getState page: keys sorted ascending, strictly after the cursor, at most [limit];
   next cursor = last returned key when more remain *)
Definition entries_from (K : nat) (b : broker) (from : nat) : list (key * nat * val) :=
  flat_map (fun k => match state b k with Some (o, v) => [(k, o, v)] | None => [] end)
           (seq from (K - from)).

Definition read_state (K : nat) (b : broker) (cursor : option key) (limit : nat)
  : list (key * nat * val) * option key :=
  let rest := entries_from K b (match cursor with Some c => S c | None => 0 end) in
  let page := firstn limit rest in
  (page, if Nat.ltb limit (length rest)
         then match rev page with (k, _, _) :: _ => Some k | [] => None end
         else None).

(* getStream (forward) with Since: the broker's own part *)
Inductive sread :=
| SErr
| SOk (pubs : list (nat * change)) (top : nat) (epoch : nat).

Definition window (b : broker) (from : nat) : list (nat * change) :=
  (* offsets from .. top that are retained *)
  let start := Nat.max from (b_lo b) in
  combine (seq start (S (top b) - start)) (skipn (start - 1) (b_log b)).

Definition broker_read_stream (b : broker) (since : nat) (ep : option nat) (limit : nat) : sread :=
  match ep with
  | Some e => if Nat.eqb e (b_epoch b) then
                if Nat.eqb (top b) since then SOk [] (top b) (b_epoch b)
                else
                  (* memstream.Get(since+1): beyond top -> nothing; index miss -> Front *)
                  if Nat.ltb (top b) (S since) then SOk [] (top b) (b_epoch b)
                  else
                    let from := if Nat.leb (b_lo b) (S since) then S since else b_lo b in
                    SOk (firstn limit (window b from)) (top b) (b_epoch b)
              else SErr
  | None =>
      if Nat.eqb (top b) since then SOk [] (top b) (b_epoch b)
      else if Nat.ltb (top b) (S since) then SOk [] (top b) (b_epoch b)
      else
        let from := if Nat.leb (b_lo b) (S since) then S since else b_lo b in
        SOk (firstn limit (window b from)) (top b) (b_epoch b)
  end.

(* node.go MapStreamRead: trim detection on top of the broker read.
   fx = false: the code as found (only when Since.Offset > 0 and the result is
   non-empty); fx = true: the proposed rule (a lost prefix or an emptied window
   after any known position: offset > 0 or an epoch given). *)
Definition node_read_stream (fx : bool) (b : broker) (since : nat) (ep : option nat) (limit : nat) : sread :=
  match broker_read_stream b since ep limit with
  | SErr => SErr
  | SOk pubs t e =>
      let first_gap := match pubs with (o, _) :: _ => Nat.ltb (S since) o | [] => false end in
      if fx then
        let known := Nat.ltb 0 since || match ep with Some _ => true | None => false end in
        if known && (first_gap || (match pubs with [] => Nat.ltb since t | _ => false end))
        then SErr else SOk pubs t e
      else
        if Nat.ltb 0 since && first_gap then SErr else SOk pubs t e
  end.

(* ------------------------------------------------------- subscription state *)
Record sst := mkS {
  s_has : bool;                  (* c.mapSubscribing[channel] exists *)
  s_epoch : option nat;          (* state.epoch *)
  s_off : nat;                   (* state.offset (frozen) *)
  s_cap : bool;                  (* offsetCaptured *)
  s_start : nat;                 (* streamStart *)
  s_startcap : bool
}.
Definition s_none : sst := mkS false None 0 false 0 false.

Record live := mkL { l_sub : bool; l_pos : nat; l_epoch : nat }.

Inductive err := EUnrecoverable | EInsufficient | EPermission.

Inductive request :=
| RState (cursor : option key) (limit : nat) (off : nat) (ep : option nat)
| RStream (off : nat) (ep : option nat) (limit : nat)
| RLive (off : nat) (ep : option nat).          (* recovery join: Recover = true *)

Inductive reply :=
| PState (entries : list (key * nat * val)) (cursor : option key) (off : nat) (ep : nat)
| PStream (pubs : list (nat * change)) (off : nat) (ep : nat)
| PLive (entries : list (key * nat * val)) (pubs : list (nat * change)) (off : nat) (ep : nat) (recovered : bool)
| PErr (e : err).

Section Server.
  Variable fx : bool.              (* trim detection variant, see node_read_stream *)
  Variable K : nat.                (* keys are < K *)
  Variable vis : key -> bool.      (* the subscription's tags filters, per key *)
  Variable tlimit : nat.           (* LiveTransitionMaxPublicationLimit (default MaxPageSize = 1000) *)

  Definition vis_entries (l : list (key * nat * val)) := filter (fun e => vis (fst (fst e))) l.
  Definition vis_pubs (l : list (nat * change)) := filter (fun p => vis (ck (snd p))) l.

  (* Model.Merge publication of a stream entry: the id is the offset *)
  Definition to_mpub (p : nat * change) : pub := mkPub (N.of_nat (fst p)) false (N.of_nat (fst p)).

  Definition lookup_pub (l : list (nat * change)) (o : N) : list (nat * change) :=
    filter (fun p => N.eqb (N.of_nat (fst p)) o) l.

  (* handleMapTransitionToLive, positioned.  [g1]: writer ops while the client is
     already in the hub but before the stream read (broadcast AND in the stream);
     [g2]: after the stream read, before the buffer is locked (broadcast only). *)
  Definition transition (b : broker) (since : nat) (sep : option nat) (is_recovery rec_flag : bool)
             (entries : list (key * nat * val)) (g1 g2 : list wop)
    : broker * sst * live * reply :=
    let b1 := apply_ws b g1 in
    match node_read_stream fx b1 since sep (S tlimit) with
    | SErr => (apply_ws b1 g2, s_none, mkL false 0 0, PErr EUnrecoverable)
    | SOk pubs t e =>
        if (is_recovery || match sep with Some _ => true | None => false end)
           && negb (match sep with Some x => Nat.eqb x e | None => false end)
        then (apply_ws b1 g2, s_none, mkL false 0 0, PErr EUnrecoverable)
        else if Nat.ltb tlimit (length pubs)
        then (apply_ws b1 g2, s_none, mkL false 0 0, PErr EUnrecoverable)
        else
          let b2 := apply_ws b1 g2 in
          let buffered := buffered_of b g1 g2 in
          let '(out, maxo, ok) := merge (map to_mpub pubs) (map to_mpub buffered) in
          if negb ok then (b2, s_none, mkL false 0 0, PErr EInsufficient)
          else
            let latest := Nat.max t (Nat.max (N.to_nat maxo)
                                       (match rev out with p :: _ => N.to_nat (p_off p) | [] => 0 end)) in
            let all := pubs ++ buffered in
            let merged := flat_map (fun p => firstn 1 (lookup_pub all (p_off p))) out in
            (b2, s_none, mkL true latest e,
             PLive entries (vis_pubs merged) latest e rec_flag)
    end.

  (* one subscribe request of a client that is not live.
     [g0]: writer ops between the state read and the stream-position probe. *)
  Definition handle (b : broker) (s : sst) (r : request) (g0 g1 g2 : list wop)
    : broker * sst * live * reply :=
    let dead := mkL false 0 0 in
    match r with
    | RState cursor limit off ep =>
        let s1 := match cursor with None => mkS true None 0 false 0 false | Some _ => s end in
        if negb (s_has s1) then (b, s_none, dead, PErr EPermission)
        else
          let rev := negb (Nat.eqb off 0) || match ep with Some _ => true | None => false end in
          (* ReadState validates the epoch of a given revision *)
          if rev && negb (match ep with Some e => Nat.eqb e (b_epoch b) | None => false end)
          then (b, s_none, dead, PErr EUnrecoverable)
          else
            let '(page, next) := read_state K b cursor limit in
            let s2 := match cursor with
                      | None => mkS true (Some (b_epoch b)) (top b) true (s_start s1) (s_startcap s1)
                      | Some _ => s1 end in
            let page1 := if rev then filter (fun e => Nat.leb (snd (fst e)) off) page else page in
            let page2 := vis_entries page1 in
            let frozen := s_cap s2 && match cursor with Some _ => true | None => false end in
            match next with
            | None =>
                let eff_off := if frozen then s_off s2 else top b in
                let eff_ep := if frozen then s_epoch s2 else Some (b_epoch b) in
                let b0 := apply_ws b g0 in
                if Nat.leb (top b0) (eff_off + limit)
                then transition b0 eff_off eff_ep false false page2 g1 g2
                else (b0, s2, dead, PState page2 None (if frozen then s_off s2 else top b) (b_epoch b))
            | Some c =>
                (b, s2, dead, PState page2 (Some c) (if frozen then s_off s2 else top b) (b_epoch b))
            end
    | RStream off ep limit =>
        if negb (s_has s) then (b, s_none, dead, PErr EPermission)
        else if match ep, s_epoch s with Some a, Some c => negb (Nat.eqb a c) | _, _ => false end
        then (b, s_none, dead, PErr EUnrecoverable)
        else
          let s1 := if s_startcap s then s else mkS true (s_epoch s) (s_off s) (s_cap s) (top b) true in
          if Nat.leb (s_start s1) (off + limit)
          then transition b off ep true false [] g1 g2
          else
            match node_read_stream fx b off ep limit with
            | SErr => (b, s_none, dead, PErr EUnrecoverable)
            | SOk pubs t e =>
                let roff := match rev pubs with (o, _) :: _ => o | [] => off end in
                (b, s1, dead, PStream (vis_pubs pubs) roff e)
            end
    | RLive off ep =>
        if match ep, s_epoch s with Some a, Some c => s_has s && negb (Nat.eqb a c) | _, _ => false end
        then (b, s_none, dead, PErr EUnrecoverable)
        else transition b off ep true true [] g1 g2
    end.

  (* live broadcast of one publication: writePublicationUpdatePosition *)
  Definition push (l : live) (e : nat) (p : nat * change) : live * option (nat * change) * bool :=
    (* returns (live', delivered push, insufficient) *)
    if negb (l_sub l) then (l, None, false)
    else if negb (Nat.eqb e (l_epoch l)) then (mkL false 0 0, None, true)
    else if Nat.ltb (S (l_pos l)) (fst p) then (mkL false 0 0, None, true)
    else if Nat.ltb (fst p) (S (l_pos l)) then (l, None, false)
    else (mkL true (fst p) (l_epoch l), if vis (ck (snd p)) then Some p else None, false).

  (* periodic position check *)
  Definition check_position (b : broker) (l : live) : bool :=
    Nat.eqb (l_epoch l) (b_epoch b) && Nat.eqb (l_pos l) (top b).

  (* ---------------------------------------------------------------- client *)
  Inductive cphase := CFresh | CStatePages (cursor : key) | CStreaming | CLive | CTold (e : err).

  Record client := mkCl {
    c_map : key -> option val;
    c_phase : cphase;
    c_off : nat;
    c_ep : option nat;
    c_limit : nat;               (* page size it asks for *)
    c_recovered : list bool      (* recovered flags it was given *)
  }.

  Definition cset (m : key -> option val) (k : key) (v : option val) : key -> option val :=
    fun k' => if Nat.eqb k' k then v else m k'.

  Definition apply_entries (m : key -> option val) (l : list (key * nat * val)) :=
    fold_left (fun m e => cset m (fst (fst e)) (Some (snd e))) l m.
  Definition apply_pubs (m : key -> option val) (l : list (nat * change)) :=
    fold_left (fun m p => cset m (ck (snd p)) (cv (snd p))) l m.

  (* the request the client sends next *)
  Definition next_request (c : client) : option request :=
    match c_phase c with
    | CFresh => Some (RState None (c_limit c) 0 None)
    | CStatePages cur => Some (RState (Some cur) (c_limit c) (c_off c) (c_ep c))
    | CStreaming => Some (RStream (c_off c) (c_ep c) (c_limit c))
    | CLive => None
    | CTold EInsufficient => Some (RLive (c_off c) (c_ep c))     (* resubscribe with recovery from its position *)
    | CTold _ => Some (RState None (c_limit c) 0 None)           (* start over *)
    end.

  Definition on_reply (c : client) (r : reply) : client :=
    match r with
    | PErr e =>
        (* an insufficient-state disconnect only leads to a recovery attempt when the client had
           a live subscription before; otherwise it starts over *)
        let e' := match e, c_phase c with
                  | EInsufficient, CTold EInsufficient => EInsufficient
                  | EInsufficient, _ => EUnrecoverable
                  | _, _ => e
                  end in
        mkCl (c_map c) (CTold e') (c_off c) (c_ep c) (c_limit c) (c_recovered c)
    | PState entries cursor off ep =>
        let fresh := match c_phase c with CStatePages _ => false | _ => true end in
        let m := apply_entries (if fresh then (fun _ => None) else c_map c) entries in
        let off' := if fresh then off else c_off c in
        let ep' := if fresh then Some ep else c_ep c in
        mkCl m (match cursor with Some k => CStatePages k | None => CStreaming end) off' ep' (c_limit c) (c_recovered c)
    | PStream pubs off ep =>
        mkCl (apply_pubs (c_map c) pubs) CStreaming off (Some ep) (c_limit c) (c_recovered c)
    | PLive entries pubs off ep recovered =>
        let fresh := match c_phase c with CFresh | CTold EUnrecoverable | CTold EPermission => true | _ => false end in
        let m := apply_entries (if fresh then (fun _ => None) else c_map c) entries in
        mkCl (apply_pubs m pubs) CLive off (Some ep) (c_limit c) (c_recovered c ++ [recovered])
    end.

  Definition on_push (c : client) (p : nat * change) : client :=
    mkCl (cset (c_map c) (ck (snd p)) (cv (snd p))) (c_phase c) (fst p) (c_ep c) (c_limit c) (c_recovered c).

  Definition on_unsub (c : client) : client :=
    mkCl (c_map c) (CTold EInsufficient) (c_off c) (c_ep c) (c_limit c) (c_recovered c).

  (* ---------------------------------------------------------------- system *)
  Record sys := mkSys { y_b : broker; y_s : sst; y_l : live; y_c : client }.

  Inductive sev :=
  | EvW (w : wop)                          (* a writer op between two client requests (or while live) *)
  | EvReq (g0 g1 g2 : list wop)            (* the client's next request, with writer ops in its windows *)
  | EvCheck                                (* periodic position check of a live subscription *)
  | EvDrop                                 (* the client disconnects; it will come back with recovery *)
  | EvLose (w : wop).                      (* fault: a writer op whose PUB/SUB delivery to this node is lost
                                              (at-most-once broker): the broker changes, nothing is broadcast *)

  (* what the outside sees of one step *)
  Inductive out :=
  | ONone
  | OReply (r : reply)
  | OPushes (ps : list (nat * change)) (unsubscribed : bool).

  (* deliver the broadcasts of one writer op to a live subscription *)
  Fixpoint deliver (l : live) (c : client) (e : nat) (ps : list (nat * change))
    : live * client * list (nat * change) * bool :=
    match ps with
    | [] => (l, c, [], false)
    | p :: t =>
        let '(l', d, ins) := push l e p in
        (* a filtered publication advances the server-side position only *)
        let c1 := match d with Some q => on_push c q | None => c end in
        let c2 := if ins then on_unsub c1 else c1 in
        let '(lf, cf, ds, u) := deliver l' c2 e t in
        (lf, cf, match d with Some q => q :: ds | None => ds end, ins || u)
    end.

  Definition step_out (y : sys) (ev : sev) : sys * out :=
    match ev with
    | EvW w =>
        let b' := apply_w (y_b y) w in
        if l_sub (y_l y) then
          match w with
          | WClear | WExpireStream => (mkSys b' (y_s y) (y_l y) (y_c y), ONone)    (* nothing is broadcast *)
          | _ =>
              let '(l', c', ds, u) := deliver (y_l y) (y_c y) (b_epoch b') (pubs_between (y_b y) b') in
              (mkSys b' (y_s y) l' c', OPushes ds u)
          end
        else (mkSys b' (y_s y) (y_l y) (y_c y), ONone)
    | EvReq g0 g1 g2 =>
        match next_request (y_c y) with
        | None => (y, ONone)
        | Some r =>
            let '(b', s', l', rep) := handle (y_b y) (y_s y) r g0 g1 g2 in
            (mkSys b' s' l' (on_reply (y_c y) rep), OReply rep)
        end
    | EvCheck =>
        if l_sub (y_l y) && negb (check_position (y_b y) (y_l y))
        then (mkSys (y_b y) (y_s y) (mkL false 0 0) (on_unsub (y_c y)), OPushes [] true)
        else (y, ONone)
    | EvDrop =>
        if l_sub (y_l y)
        then (mkSys (y_b y) s_none (mkL false 0 0) (on_unsub (y_c y)), ONone)
        else (y, ONone)
    | EvLose w => (mkSys (apply_w (y_b y) w) (y_s y) (y_l y) (y_c y), ONone)
    end.

  Definition step (y : sys) (ev : sev) : sys := fst (step_out y ev).
  Definition run (y : sys) (l : list sev) : sys := fold_left step l y.

  Fixpoint run_out (y : sys) (l : list sev) : sys * list out :=
    match l with
    | [] => (y, [])
    | ev :: t =>
        let '(y1, o) := step_out y ev in
        let '(y2, os) := run_out y1 t in
        (y2, o :: os)
    end.

  Definition init (size limit : nat) : sys :=
    mkSys (mkB 0 [] 1 size) s_none (mkL false 0 0) (mkCl (fun _ => None) CFresh 0 None limit []).
End Server.
