(* Operations and observables shared by the two broker models of C18
   (Model/RedisBroker.v, Model/MemBroker18.v): the part of centrifuge's Broker
   interface the property talks about. *)
From Coq Require Import List NArith ZArith Bool String.
Import ListNotations.
Open Scope string_scope.

(* PublishOptions (fields the stream brokers look at; durations in WHOLE SECONDS:
   both brokers truncate to seconds, sub-second values are outside the model) *)
Record popts := mkPO {
  po_size : Z;            (* HistorySize (int) *)
  po_ttl : Z;             (* HistoryTTL, s *)
  po_meta_ttl : Z;        (* HistoryMetaTTL, s; 0 = node default *)
  po_idem : string;       (* IdempotencyKey *)
  po_idem_ttl : Z;        (* IdempotentResultTTL, s; 0 = default (300 s) *)
  po_delta : bool;        (* UseDelta *)
  po_version : N;         (* Version (uint64) *)
  po_vepoch : string      (* VersionEpoch *)
}.

Record hfilter := mkHF {
  hf_since : option (N * string);     (* Since: offset, epoch *)
  hf_limit : Z;                       (* Limit: -1 all, 0 none *)
  hf_reverse : bool
}.

Inductive op :=
| OpPublish (ch data : string) (o : popts) (nonce : string)
      (* nonce = what epoch.Generate() returns inside this call, should an epoch be needed *)
| OpHistory (ch : string) (f : hfilter) (meta_ttl : Z) (nonce : string)
| OpRemove (ch : string)
| OpTick (ms : N).                    (* virtual time passes *)

(* HandlePublication(ch, pub, sp, delta, prevPub) as seen by the node *)
Record delivery := mkDel {
  d_ch : string; d_data : string; d_off : N; d_epoch : string; d_delta : bool; d_prev : option string
}.

Inductive result :=
| ResErr                               (* the call returned a non-nil error *)
| ResPublish (off : N) (epoch : string) (suppressed : bool) (reason : N)
      (* reason: 0 none, 1 idempotency, 2 version *)
| ResHistory (pubs : list (N * string)) (off : N) (epoch : string)
      (* publications as (Offset, Data); stream top position *)
| ResUnit.

Definition obs := (result * list delivery)%type.

(* node / broker configuration *)
Record bcfg := mkCfg {
  c_lists : bool;                      (* RedisBrokerConfig.UseLists *)
  c_meta_ttl : Z                       (* node Config.HistoryMetaTTL, s *)
}.

Definition default_idem_ttl : Z := 300.
Definition two64 : N := 18446744073709551616%N.
Definition wrap64 (z : Z) : N := Z.to_N (z mod Z.of_N two64).   (* uint64 arithmetic *)
