(* C16: model of every path that hands publications to one subscriber, each
   parameterised by the two tags-filter verdicts.

   A publication is Model.Merge.pub = (offset, filtered-marker?, id).  [id] is
   an opaque identity of "which publication" (the driver stores it in the
   payload).  The verdict of filter.Match on the publication's tags is NOT
   modelled here (C15 owns filter evaluation): it enters as two tables of ids.

   Mirrors (branch by branch, quirks included):
     hub.go        subShard.broadcastPublication (wasFiltered computation)
     client.go     writePublication / writePublicationUpdatePosition,
                   isStreamRecovered, isCacheRecovered, subscribeCmd (merge,
                   cache "keep last" rule), handleSubRefresh (filter update)
     node.go       recoverCache
     client_map.go handleMapStatePhase / handleMapStreamPhase page filters,
                   handleMapTransitionToLive (positioned and streamless)
     internal/recovery  PubSubSync buffering, MergePublications (= Model.Merge) *)
From Coq Require Import List NArith Bool.
From Cfg Require Import Model.Merge.
Import ListNotations.
Open Scope N_scope.

(* ---------------------------------------------------------------- verdicts *)
(* v_stf / v_ctf : the subscription has a server / client tags filter (non-nil).
   v_s / v_c     : ids whose tags the server / client filter MATCHES
                   (filter.Match(...) = true), as computed by the real matcher. *)
Record verd := mkV { v_stf : bool; v_ctf : bool; v_s : list N; v_c : list N }.

(* publicationFiltered(tags, serverTf) / (tags, tf): a nil filter never excludes *)
Definition s_excl (V : verd) (id : N) : bool := v_stf V && negb (memN id (v_s V)).
Definition c_excl (V : verd) (id : N) : bool := v_ctf V && negb (memN id (v_c V)).

(* The property's notion: admitted by BOTH filters. *)
Definition visible (V : verd) (id : N) : bool := negb (s_excl V id) && negb (c_excl V id).

(* hub.go broadcastPublication: server filter first, client filter only if the
   server filter did not already exclude. *)
Definition was_filtered (V : verd) (id : N) : bool :=
  if s_excl V id then true else c_excl V id.

(* ------------------------------------------------------------ live broadcast *)
Inductive wres := WSkip | WDeliver (id : N) | WInsufficient.

(* "if prep.wasFiltered && !prep.deltaSub { return nil }" then write *)
Definition write_or_skip (V : verd) (delta : bool) (p : pub) : wres :=
  if was_filtered V (p_id p) && negb delta then WSkip else WDeliver (p_id p).

(* Client.writePublication + writePublicationUpdatePosition for a subscribed
   channel outside a subscribe window (epochs equal, no PUB/SUB lag).
   [cur] is channelContext.streamPosition.Offset; returns the new one. *)
Definition live_write (V : verd) (positioned delta : bool) (cur : N) (p : pub) : N * wres :=
  if p_off p =? 0 then (cur, write_or_skip V delta p)            (* pub.Offset == 0 branch *)
  else if negb positioned then (cur, write_or_skip V delta p)    (* !flagPositioning branch *)
  else
    let next := cur + 1 in
    if next <? p_off p then (cur, WInsufficient)                 (* missed message *)
    else if p_off p <? next then (cur, WSkip)                    (* stale *)
    else (p_off p, write_or_skip V delta p).                     (* position advances even when filtered *)

(* What PubSubSync buffers while a subscribe is in flight: writePublication
   hands SyncPublication the marker (offset, Time=-1) when wasFiltered, the
   publication itself otherwise; offset-0 publications never reach the buffer. *)
Definition marker (o : N) : pub := mkPub o true 0.
Definition sync_pub (V : verd) (p : pub) : pub :=
  if was_filtered V (p_id p) then marker (p_off p) else p.
Definition buffered_of (V : verd) (live : list pub) : list pub :=
  map (sync_pub V) (filter (fun p => negb (p_off p =? 0)) live).

(* ------------------------------------------------------------ stream recovery *)
(* client.go isStreamRecovered: either filter excludes => marker *)
Definition mark (V : verd) (p : pub) : pub :=
  if s_excl V (p_id p) || c_excl V (p_id p) then marker (p_off p) else p.

Definition is_stream_recovered (V : verd) (hist : list pub) (top cmd : N) (epoch_ok : bool)
  : option (list pub) :=
  if negb epoch_ok then None
  else
    let recovered :=
      match hist with
      | [] => top =? cmd
      | h :: _ => (p_off h =? cmd + 1) && (p_off (last hist h) =? top)
      end in
    if recovered then Some (map (mark V) hist) else None.

Inductive sres := SDisconnect | SReply (recovered : bool) (pubs : list pub).

(* subscribeCmd, stream recovery mode, non-delta: recovered publications merged
   with the buffered ones; publications only attached when recovered. *)
Definition stream_recovery (V : verd) (hist : list pub) (top cmd : N) (epoch_ok : bool)
           (live : list pub) : sres :=
  let '(recpubs, recovered) :=
    match is_stream_recovered V hist top cmd epoch_ok with
    | Some l => (l, true) | None => ([], false) end in
  let '(out, _, ok) := merge recpubs (buffered_of V live) in
  if negb ok then SDisconnect
  else SReply recovered (if recovered then out else []).

(* ------------------------------------------------------------- cache recovery *)
(* node.go recoverCache over the reversed history (newest first):
   returns (latestPublication, recoveredPublication). *)
Definition recover_cache (V : verd) (hist_rev : list pub) : option pub * option pub :=
  if negb (v_stf V) && negb (v_ctf V) then (hd_error hist_rev, hd_error hist_rev)
  else
    match find (fun p => negb (s_excl V (p_id p) || c_excl V (p_id p))) hist_rev with
    | Some p => (hd_error hist_rev, Some p)
    | None => (None, None)          (* quirk: "latest" is nil too when nothing passes *)
    end.

(* client.go isCacheRecovered *)
Definition is_cache_recovered (latest recd : option pub) (top cmd : N) (epoch_eq : bool)
  : list pub * bool :=
  let same := (0 <? cmd) && (cmd =? top) && epoch_eq in
  match latest with
  | None => ([], same)
  | Some l =>
      let recovered := p_off l =? top in
      if recovered && negb same
      then (match recd with Some r => [r] | None => [] end, true)
      else ([], recovered)
  end.

Fixpoint last_only (l : list pub) : list pub :=
  match l with
  | [] => []
  | [x] => [x]
  | _ :: t => last_only t
  end.

Definition cache_recovery (V : verd) (hist_rev : list pub) (top cmd : N) (epoch_eq : bool)
           (req_delta : bool) (live : list pub) : sres :=
  let '(latest, recd) := recover_cache V hist_rev in
  let '(recpubs, recovered) := is_cache_recovered latest recd top cmd epoch_eq in
  let '(out, _, ok) := merge recpubs (buffered_of V live) in
  if negb ok then SDisconnect
  else
    (* "RecoveryModeCache && len > 1 && req.Delta == ''": keep the last one. The test is on the
       delta type REQUESTED by the client (req_delta), also when the channel refused it. *)
    let out' := if req_delta then out
                else match out with _ :: _ :: _ => last_only out | _ => out end in
    SReply recovered (if recovered then out' else []).

(* ------------------------------------------------------------------ map pages *)
Definition keep_s (V : verd) (l : list pub) : list pub :=
  if v_stf V then filter (fun p => memN (p_id p) (v_s V)) l else l.
Definition keep_c (V : verd) (l : list pub) : list pub :=
  if v_ctf V then filter (fun p => memN (p_id p) (v_c V)) l else l.

(* handleMapStatePhase: revision filter (only when the request carries a
   position), then server filter, then client filter. *)
Definition map_state_page (V : verd) (rev : option N) (pubs : list pub) : list pub :=
  let p1 := match rev with
            | Some r => filter (fun p => p_off p <=? r) pubs
            | None => pubs end in
  keep_c V (keep_s V p1).

(* handleMapStreamPhase intermediate page *)
Definition map_stream_page (V : verd) (pubs : list pub) : list pub :=
  keep_c V (keep_s V pubs).

(* ------------------------------------------------------- map live transition *)
Inductive mres := MUnrecoverable | MInsufficient | MReply (pubs : list pub).

(* handleMapTransitionToLive, positioned: stream read (limit+1) -> limit check
   -> merge with buffered -> server filter -> client filter.  [limit = 0] = no limit. *)
Definition map_live_positioned (V : verd) (limit : N) (stream : list pub) (live : list pub) : mres :=
  if (0 <? limit) && (limit <? N.of_nat (length stream)) then MUnrecoverable
  else
    let '(out, _, ok) := merge stream (buffered_of V live) in
    if negb ok then MInsufficient
    else MReply (keep_c V (keep_s V out)).

(* streamless branch: buffered publications used directly (no merge), filtered.
   Markers in the buffer carry no tags: their verdict is the filters' verdict
   on the empty tag set, looked up under id 0. *)
Definition map_live_streamless (V : verd) (live : list pub) : list pub :=
  keep_c V (keep_s V (buffered_of V live)).

(* -------------------------------------------- sub refresh: server filter update *)
(* hub.updateServerTagsFilter (sub found): changed iff the hash differs (or the
   subscription had no server filter); handleSubRefresh: changed on a map
   subscription => Unsubscribe(StateInvalidated).  [newf]: the refresh reply
   carries a filter (nil = "no change"). *)
Definition update_server_filter (had same_hash : bool) : bool :=
  if had && same_hash then false else true.
Definition sub_refresh_invalidates (is_map newf had same_hash : bool) : bool :=
  newf && update_server_filter had same_hash && is_map.

(* --------------------------------------------------------- path inventory *)
(* Every producer of publications towards a subscriber found in the sources is
   classified by translators/gen_delivery_paths.py into one of these. *)
Inductive dpath :=
| PLive              (* hub broadcast -> writePublication *)
| PStreamRecovery    (* subscribeCmd, stream mode *)
| PCacheRecovery     (* subscribeCmd, cache mode *)
| PMapState          (* map state pages (incl. the state part of state->live) *)
| PMapStream         (* map stream pages *)
| PMapLive           (* map live transition, positioned *)
| PMapStreamless     (* map live transition, streamless buffered *)
| POutAppProvided    (* SubscribeReply.Publications / Client.WritePublication: supplied by the application *)
| POutHistoryRPC     (* history command reply: not a subscription delivery *)
| POutKeyed.         (* shared-poll keyed pushes: no tags, no tags filters (wasFiltered never set) *)

Definition in_scope (p : dpath) : bool :=
  match p with
  | POutAppProvided | POutHistoryRPC | POutKeyed => false
  | _ => true
  end.
