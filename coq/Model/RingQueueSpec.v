(* Specification of the queue written from the property text: an abstract FIFO
   (a list, oldest first) with a closed flag.  Nothing here knows about rings,
   capacities or resizing. *)
From Coq Require Import List NArith ZArith Bool Arith.
From Cfg Require Import Model.RingQueue.
Import ListNotations.

Record fifo := mkFifo { fl : list item; fclosed : bool }.

Definition fifo_new : fifo := mkFifo [] false.

Definition size_of (l : list item) : Z := fold_right (fun i z => (Z.of_N (it_len i) + z)%Z) 0%Z l.

Definition fcount (n : nat) (maxItems : option nat) : nat :=
  match maxItems with None => n | Some m => Nat.min n m end.

(* output of an operation and the state after it *)
Definition fstep (f : fifo) (o : qop) : fifo * qout :=
  match o with
  | OpAdd i => if fclosed f then (f, OutBool false) else (mkFifo (fl f ++ [i]) false, OutBool true)
  | OpAddMany is => if fclosed f then (f, OutBool false) else (mkFifo (fl f ++ is) false, OutBool true)
  | OpRemove =>
      match fl f with
      | [] => (f, OutItem None)
      | i :: l => (mkFifo l (fclosed f), OutItem (Some i))
      end
  | OpRemoveMany m =>
      match fl f with
      | [] => (f, OutItems None)
      | _ => let k := fcount (length (fl f)) m in
             (mkFifo (skipn k (fl f)) (fclosed f), OutItems (Some (firstn k (fl f))))
      end
  | OpRemoveManyInto b m | OpRemoveManyIntoShrink b m =>
      match fl f with
      | [] => (f, OutItems None)
      | _ => let k := Nat.min (fcount (length (fl f)) m) b in
             (mkFifo (skipn k (fl f)) (fclosed f), OutItems (Some (firstn k (fl f))))
      end
  | OpFinishCollect _ | OpShrinkFire => (f, OutUnit)
  | OpClose => (mkFifo [] true, OutUnit)
  | OpCloseRemaining => if fclosed f then (f, OutRemaining []) else (mkFifo [] true, OutRemaining (fl f))
  end.

(* the observers the specification talks about: Len, Size, Closed (not Cap) *)
Definition fobserve (f : fifo) : nat * Z * bool := (length (fl f), size_of (fl f), fclosed f).

Fixpoint frun (f : fifo) (ops : list qop) : list (qout * (nat * Z * bool)) :=
  match ops with
  | [] => []
  | o :: ops' => let '(f1, r) := fstep f o in (r, fobserve f1) :: frun f1 ops'
  end.

Definition obs_proj (o : qobs) : nat * Z * bool := (ob_len o, ob_size o, ob_closed o).
