(* What the peer of a writing endpoint must read (property C30): for every write operation that
   returned without error, the message with the same type and bytes, in order; a pong per ping;
   the close frame ends the stream.  Written over the operations, independent of framing. *)
From Coq Require Import List NArith Bool.
From Cfg Require Import Gen.WsConst Model.WsUtf8 Model.WsFrame Model.WsWrite Model.WsReadSpec.
Import ListNotations.
Open Scope N_scope.

Definition chunk_bytes (c : chunk) : bytes :=
  match c with CWrite p => p | CString p => p | CReadFrom p => p | CReadFromE p => p end.

(* the application data of an operation *)
Definition op_type (o : wop) : N :=
  match o with OpMessage t _ | OpStream t _ | OpControl t _ | OpPrepared t _ _ | OpZ t _ _ | OpPreparedZ t _ _ _ => t end.
Definition op_data (o : wop) : bytes :=
  match o with
  | OpMessage _ d | OpControl _ d | OpPrepared _ d _ | OpZ _ d _ | OpPreparedZ _ d _ _ => d
  | OpStream _ cs => flat_map chunk_bytes cs
  end.

(* what the peer's decoder reports for one successfully written message *)
Definition message_events (t : N) (d : bytes) : list sevent :=
  if (t =? 1) || (t =? 2) then [SMsg t d]
  else if t =? 9 then [SPong d]
  else if t =? 10 then []
  else (* close *)
    match d with
    | a :: b :: text => [SEnd (OClosed (a * 256 + b) text)]
    | _ => [SEnd (OClosed 1005 [])]
    end.

(* ops paired with "did it return nil" *)
Fixpoint ops_events (ops : list wop) (oks : list bool) : list sevent :=
  match ops, oks with
  | o :: ops', ok :: oks' =>
      (if ok then message_events (op_type o) (op_data o) else []) ++ ops_events ops' oks'
  | _, _ => []
  end.

(* the stream ends at the first terminal event; otherwise the decoder runs into the end of the bytes *)
Fixpoint close_at_end (es : list sevent) : list sevent :=
  match es with
  | [] => [SEnd OEof]
  | SEnd o :: _ => [SEnd o]
  | e :: r => e :: close_at_end r
  end.

(* the peer of a server is a client and vice versa; same negotiated extension, no limits *)
Definition peer_cfg (cfg : wcfg) : scfg := mkScfg (negb (wc_server cfg)) (wc_compress cfg) 0 0 no_avail.

(* ---- with writers the application left open: the message of an open writer is finished (and so
   must be read by the peer) when a later NextWriter / WriteMessage begins a new message *)
Fixpoint xops_events (pending : list sevent) (ops : list xop) (oks : list bool) : list sevent :=
  match ops, oks with
  | x :: ops', ok :: oks' =>
      match x with
      | XOp _ o =>
          let flushed := if begins_message o then pending else [] in
          let pending' := if begins_message o then [] else pending in
          flushed ++ (if ok then message_events (op_type o) (op_data o) else []) ++ xops_events pending' ops' oks'
      | XOpen typ cs =>
          pending ++ xops_events (if ok then message_events typ (flat_map chunk_bytes cs) else []) ops' oks'
      end
  | _, _ => []
  end.

(* a write may only be refused for a reason the API documents: 1 invalid control frame (control
   types only), 2 bad message type (neither data nor control), 3 a close frame was sent before *)
Definition xop_type (x : xop) : N := match x with XOp _ o => op_type o | XOpen t _ => t end.
Fixpoint errs_justified (closed : bool) (ops : list xop) (errs : list N) : bool :=
  match ops, errs with
  | x :: ops', e :: errs' =>
      let t := xop_type x in
      let isdata := (t =? 1) || (t =? 2) in
      let isctl := (t =? 8) || (t =? 9) || (t =? 10) in
      ((e =? 0) || ((e =? 1) && isctl) || ((e =? 2) && negb isdata && negb isctl) || ((e =? 3) && closed))
      && errs_justified (closed || ((t =? 8) && (e =? 0))) ops' errs'
  | [], [] => true
  | _, _ => false
  end.
