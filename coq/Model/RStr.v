(* Byte strings (Coq [string]) helpers shared by the Redis / Lua / RedisBroker
   models of C18: decimal printing and parsing (strconv.Itoa / ParseUint /
   Redis string2ll), searching, slicing.  Definitions only. *)
From Coq Require Import List NArith ZArith Bool String Ascii.
From Coq Require Import Decimal DecimalString DecimalN DecimalZ.
Import ListNotations.
Open Scope string_scope.

(* ---------- decimal ---------- *)
Definition dec (n : N) : string := NilEmpty.string_of_uint (N.to_uint n).

(* digits only, at least one digit (leading zeros accepted, like strconv.ParseUint) *)
Definition parse_dec (s : string) : option N :=
  match s with
  | EmptyString => None
  | _ => match NilEmpty.uint_of_string s with
         | Some d => Some (N.of_uint d)
         | None => None
         end
  end.

Definition zdec (z : Z) : string :=
  match z with
  | Zneg p => "-" ++ dec (Npos p)
  | _ => dec (Z.to_N z)
  end.

(* optional '-' then digits (leading zeros accepted) *)
Definition parse_zdec (s : string) : option Z :=
  match parse_dec s with
  | Some n => Some (Z.of_N n)
  | None =>
      match s with
      | String "-" r => match parse_dec r with Some n => Some (- Z.of_N n)%Z | None => None end
      | _ => None
      end
  end.

(* strconv.ParseInt / Atoi: additionally accepts a leading '+' *)
Definition parse_goint (s : string) : option Z :=
  match s with
  | String "+" r => match parse_dec r with Some n => Some (Z.of_N n) | None => None end
  | _ => parse_zdec s
  end.

(* Redis string2ll: canonical decimal only (no '+', no leading zeros, no "-0"),
   within int64.  Canonicity is checked by re-printing. *)
Definition parse_ll (s : string) : option Z :=
  match parse_zdec s with
  | Some z => if (String.eqb (zdec z) s && (-9223372036854775808 <=? z)%Z && (z <=? 9223372036854775807)%Z)%bool
              then Some z else None
  | None => None
  end.

(* ---------- searching / slicing ---------- *)
Fixpoint sdrop (n : nat) (s : string) : string :=
  match n, s with
  | O, _ => s
  | S n', String _ r => sdrop n' r
  | S _, EmptyString => EmptyString
  end.

Fixpoint stake (n : nat) (s : string) : string :=
  match n, s with
  | O, _ => EmptyString
  | S n', String c r => String c (stake n' r)
  | S _, EmptyString => EmptyString
  end.

Fixpoint is_prefix (p s : string) : bool :=
  match p, s with
  | EmptyString, _ => true
  | String a p', String b s' => Ascii.eqb a b && is_prefix p' s'
  | String _ _, EmptyString => false
  end.

(* position of the first occurrence of [p] in [s] (bytes.Index / strings.Index) *)
Fixpoint sindex (p s : string) : option nat :=
  if is_prefix p s then Some O
  else match s with
       | EmptyString => None
       | String _ r => match sindex p r with Some k => Some (S k) | None => None end
       end.

Fixpoint sindex_char (c : ascii) (s : string) : option nat :=
  match s with
  | EmptyString => None
  | String a r => if Ascii.eqb a c then Some O
                  else match sindex_char c r with Some k => Some (S k) | None => None end
  end.

Fixpoint has_char (c : ascii) (s : string) : bool :=
  match s with
  | EmptyString => false
  | String a r => Ascii.eqb a c || has_char c r
  end.

Definition slen (s : string) : N := N.of_nat (String.length s).

Fixpoint sconcat (l : list string) : string :=
  match l with [] => "" | x :: r => x ++ sconcat r end.

(* ASCII lower-casing (Redis command names are case-insensitive) *)
Definition lower_ascii (c : ascii) : ascii :=
  let n := nat_of_ascii c in
  if (Nat.leb 65 n && Nat.leb n 90)%bool then ascii_of_nat (n + 32) else c.
Fixpoint lower (s : string) : string :=
  match s with EmptyString => EmptyString | String c r => String (lower_ascii c) (lower r) end.

(* list of bytes (as N) <-> string, used by the harness to pass arbitrary bytes *)
Fixpoint of_bytes (l : list N) : string :=
  match l with [] => EmptyString | b :: r => String (ascii_of_N b) (of_bytes r) end.
Fixpoint to_bytes (s : string) : list N :=
  match s with EmptyString => [] | String c r => N_of_ascii c :: to_bytes r end.
