(* Model of the Go side of /repo/broker_redis.go (single standalone shard, no
   cluster, PUB/SUB on): how Publish / History / RemoveHistory build KEYS and
   ARGV, which script or plain command they send, how replies are parsed back
   (rueidis AsInt64 / ToString / ToArray), historyStream / historyList
   post-processing, and how a PUB/SUB message becomes a HandlePublication call
   (extractPushData, parseDeltaPush, handleRedisClientMessage).
   The protobuf encoding of a Publication is abstracted: [marshal data delta] is
   a one-byte envelope (it only has to be injective and never to start with
   "__", as a protobuf message cannot); Time / Info / Tags are not observed.
   Parametrised by the implementation of the five scripts ([scripts]), so that it
   runs over the shallow scripts (theorems) or the interpreted ones (tie). *)
From Coq Require Import List NArith ZArith Bool String Ascii.
From Cfg Require Import Model.RStr Model.LuaNum Model.Redis Model.RedisScripts Model.BrokerApi18.
Import ListNotations.
Open Scope string_scope.

Definition prefix := "centrifuge".
Definition message_prefix := prefix ++ ".client.".
Definition message_channel (ch : string) : string := message_prefix ++ ch.
Definition result_key (ch idem : string) : string := prefix ++ ".result." ++ ch ++ "." ++ idem.
Definition list_key (ch : string) : string := prefix ++ ".list." ++ ch.
Definition stream_key (ch : string) : string := prefix ++ ".stream." ++ ch.
Definition meta_key (lists : bool) (ch : string) : string :=
  prefix ++ (if lists then ".list.meta." else ".stream.meta.") ++ ch.

(* strconv.Itoa(int(x)) *)
Definition itoa (z : Z) : string := zdec z.
Definition int_of_u64 (v : N) : Z :=
  if (v <? 9223372036854775808)%N then Z.of_N v else (Z.of_N v - 18446744073709551616)%Z.

(* protobuf envelope abstraction *)
Definition marshal (data : string) (delta : bool) : string :=
  String (if delta then "001"%char else "000"%char) data.
Definition unmarshal (s : string) : option (string * bool) :=
  match s with
  | String c r => if Ascii.eqb c "001"%char then Some (r, true)
                  else if Ascii.eqb c "000"%char then Some (r, false) else None
  | EmptyString => None
  end.

(* ---------- rueidis reply accessors ---------- *)
Inductive perr := PNil | PErr.                (* redis nil / any other error *)
Definition as_array (r : reply) : perr + list reply :=
  match r with RArr l => inr l | RNil => inl PNil | _ => inl PErr end.
Definition parse_int64 (s : string) : option Z :=
  match parse_goint s with
  | Some z => if int64_ok z then Some z else None
  | None => None
  end.
Definition to_string (r : reply) : perr + string :=
  match r with RBulk s | RStatus s => inr s | RNil => inl PNil | _ => inl PErr end.
Definition as_int64 (r : reply) : perr + Z :=
  match r with
  | RInt z => inr z
  | _ => match to_string r with
         | inr s => match parse_int64 s with Some z => inr z | None => inl PErr end
         | inl e => inl e
         end
  end.

(* ---------- extractPushData / parseDeltaPush ---------- *)
Inductive push :=
| PushPub (data : string) (off : N) (epoch : string) (delta : bool) (prev : string)
| PushOther                                  (* join / leave *)
| PushBad.                                   (* !ok (or a Go panic, see C33) *)

Definition parse_u64go (s : string) : option N :=       (* strconv.ParseUint(s, 10, 64) *)
  match s with
  | String "+" _ => None
  | _ => match parse_dec s with Some n => if (n <? two64)%N then Some n else None | None => None end
  end.
Definition atoi (s : string) : option Z := parse_int64 s.

Definition parse_delta_push (content : string) : push :=
  if negb (is_prefix "d1:" content) then PushBad else
  let input := sdrop 3 content in
  match sindex_char ":" input with
  | None => PushBad
  | Some i1 =>
      match parse_u64go (stake i1 input) with
      | None => PushBad
      | Some off =>
          let input := sdrop (S i1) input in
          match sindex_char ":" input with
          | None => PushBad
          | Some i2 =>
              let epoch := stake i2 input in
              let input := sdrop (S i2) input in
              match sindex_char ":" input with
              | None => PushBad
              | Some i3 =>
                  match atoi (stake i3 input) with
                  | None => PushBad
                  | Some plen =>
                      let input := sdrop (S i3) input in
                      if (plen <? 0)%Z then PushBad                                (* slice bounds panic *)
                      else if (Z.of_nat (String.length input) <=? plen)%Z then PushBad  (* "shorter" error or [len+1:] panic *)
                      else
                        let prev := stake (Z.to_nat plen) input in
                        let input := sdrop (S (Z.to_nat plen)) input in
                        match sindex_char ":" input with
                        | None => PushBad
                        | Some i4 =>
                            match atoi (stake i4 input) with
                            | None => PushBad
                            | Some len =>
                                let input := sdrop (S i4) input in
                                if ((len <? 0) || (Z.of_nat (String.length input) <? len))%Z then PushBad
                                else PushPub (stake (Z.to_nat len) input) off epoch true prev
                            end
                        end
                  end
              end
          end
      end
  end.

Definition extract_push_data (data : string) : push :=
  if negb (is_prefix "__" data) then PushPub data 0 "" false "" else
  let content := sdrop 2 data in
  match content with
  | EmptyString => PushBad
  | String c _ =>
      if (Ascii.eqb c "j" || Ascii.eqb c "l")%bool then
        match sindex "__" content with
        | Some (S _) => PushOther
        | _ => PushBad
        end
      else if Ascii.eqb c "p" then
        match sindex "__" content with
        | Some (S p') =>
            let p := S p' in
            let header := stake p content in
            let rest := sdrop (p + 2) content in
            if Nat.ltb (String.length header) 3 then PushBad          (* stringHeader[3:] panics *)
            else
              let h := sdrop 3 header in
              match sindex_char ":" h with
              | Some (S d') =>
                  let d := S d' in
                  match parse_u64go (stake d h) with
                  | Some off => PushPub rest off (sdrop (S d) h) false ""
                  | None => PushBad
                  end
              | _ => PushBad
              end
        | _ => PushBad
        end
      else if Ascii.eqb c "d" then parse_delta_push content
      else PushBad
  end.

(* handleRedisClientMessage for one PUB/SUB message (non-cluster): the resulting
   HandlePublication call, if any *)
Definition handle_message (chid msg : string) : option delivery :=
  match extract_push_data msg with
  | PushPub pd off epoch delta prevp =>
      let ch := if is_prefix message_prefix chid then sdrop (String.length message_prefix) chid else chid in
      if String.eqb ch "" then None else
      match unmarshal pd with
      | None => None                                     (* UnmarshalVT error: message dropped *)
      | Some (data, pdelta) =>
          let delta := (delta || pdelta)%bool in
          if (delta && negb (String.eqb prevp ""))%bool then
            match unmarshal prevp with
            | None => None                               (* prevPub.UnmarshalVT error: message dropped *)
            | Some (pdata, _) => Some (mkDel ch data off epoch true (Some pdata))
            end
          else Some (mkDel ch data off epoch delta None)
      end
  | _ => None
  end.

Fixpoint deliveries (out : list (string * string)) : list delivery :=
  match out with
  | [] => []
  | (c, m) :: r => match handle_message c m with Some d => d :: deliveries r | None => deliveries r end
  end.

(* ---------- Publish ---------- *)
Definition result_expire (o : popts) : string :=
  if String.eqb (po_idem o) "" then ""
  else if (po_idem_ttl o =? 0)%Z then itoa default_idem_ttl else itoa (po_idem_ttl o).

Definition history_on (o : popts) : bool := ((0 <? po_size o) && (0 <? po_ttl o))%Z.

Definition meta_ttl_of (cfg : bcfg) (op_ttl : Z) : Z := if (op_ttl =? 0)%Z then c_meta_ttl cfg else op_ttl.

Definition publish_keys (cfg : bcfg) (ch : string) (o : popts) : list string :=
  [if c_lists cfg then list_key ch else stream_key ch; meta_key (c_lists cfg) ch; result_key ch (po_idem o)].

Definition publish_args (cfg : bcfg) (ch data : string) (o : popts) (nonce : string) : list string :=
  [marshal data false;
   itoa (if c_lists cfg then po_size o - 1 else po_size o);
   itoa (po_ttl o);
   message_channel ch;
   itoa (meta_ttl_of cfg (po_meta_ttl o));
   nonce;
   "publish";
   result_expire o;
   if po_delta o then "1" else "";
   if (0 <? po_version o)%N then itoa (int_of_u64 (po_version o)) else "0";
   po_vepoch o].

Definition parse_publish_reply (r : reply) : result :=
  match as_array r with
  | inl _ => ResErr
  | inr l =>
      let n := List.length l in
      if negb (Nat.eqb n 2 || Nat.eqb n 3 || Nat.eqb n 4)%bool then ResErr else
      match as_int64 (nth 0 l RNil), to_string (nth 1 l RNil) with
      | inr off, inr ep =>
          let offn := wrap64 off in
          match (if Nat.leb 3 n then to_string (nth 2 l RNil) else inr "") with
          | inl _ => ResErr
          | inr fc =>
              match (if Nat.leb 4 n then to_string (nth 3 l RNil) else inr "") with
              | inl _ => ResErr
              | inr sk =>
                  if String.eqb sk "1" then ResPublish offn ep true 2
                  else if String.eqb fc "1" then ResPublish offn ep true 1
                  else ResPublish offn ep false 0
              end
          end
      | _, _ => ResErr
      end
  end.

(* ARGV of broker_history_stream.lua as built by historyStream *)
Definition history_stream_args (cfg : bcfg) (f : hfilter) (mttl : Z) (nonce : string) : list string :=
  let '(include0, offset) :=
    match hf_since f with
    | Some (so, _) =>
        if hf_reverse f then let o := wrap64 (Z.of_N so - 1) in ((if (o =? 0)%N then "0" else "1"), o)
        else ("1", wrap64 (Z.of_N so + 1))
    | None => ("1", 0%N)
    end in
  let include := if (hf_limit f =? 0)%Z then "0" else include0 in
  let limit := if (0 <? hf_limit f)%Z then hf_limit f else 0%Z in
  [include; dec offset; itoa limit; if hf_reverse f then "1" else "0"; itoa (meta_ttl_of cfg mttl); nonce].

(* ARGV of broker_history_list.lua as built by historyList (opts.MetaTTL is ignored there) *)
Definition history_list_args (cfg : bcfg) (f : hfilter) (nonce : string) : list string :=
  let '(include, rbound) := if (hf_limit f =? 0)%Z then ("0", "0") else ("1", "-1") in
  [include; rbound; itoa (c_meta_ttl cfg); nonce].

Section WithScripts.
Variable SC : scripts.
Variable cfg : bcfg.

Definition rb_publish (st : rstate) (ch data : string) (o : popts) (nonce : string) : rstate * result :=
  if negb (history_on o) then
    if String.eqb (result_expire o) "" then
      let '(st', r) := redis_call st ["publish"; message_channel ch; marshal data (po_delta o)] in
      (st', match r with RErr _ | RNil => ResErr | _ => ResPublish 0 "" false 0 end)
    else
      let '(st', r) := s_publish_idempotent SC [result_key ch (po_idem o)]
                         [marshal data (po_delta o); message_channel ch; "publish"; result_expire o] st in
      (st', match r with RErr _ | RNil => ResErr | _ => ResPublish 0 "" false 0 end)
        (* resp.Error(): a nil reply (RNil) also counts as an error in rueidis; the cached
           {offset, epoch} reply of the idempotent script is not looked at (finding nohist-idem) *)
  else
    let '(st', r) := (if c_lists cfg then s_add_list SC else s_add_stream SC)
                       (publish_keys cfg ch o) (publish_args cfg ch data o nonce) st in
    (st', parse_publish_reply r).

(* ---------- History ---------- *)
Definition parse_position (l : list reply) : option (N * string) :=
  match (match as_int64 (nth 0 l RNil) with inr z => Some z | inl PNil => Some 0%Z | inl PErr => None end),
        to_string (nth 1 l RNil) with
  | Some offs, inr ep => Some (wrap64 offs, ep)
  | _, _ => None
  end.

Fixpoint find_d_field (fv : list reply) : option string :=
  match fv with
  | k :: v :: r =>
      if String.eqb (match to_string k with inr s => s | inl _ => "" end) "d"
      then Some (match to_string v with inr s => s | inl _ => "" end)
      else find_d_field r
  | _ => None
  end.

Definition parse_stream_entry (e : reply) : option (N * string) :=
  match as_array e with
  | inr [idr; fvr] =>
      match to_string idr, as_array fvr with
      | inr id, inr fv =>
          match find_d_field fv with
          | None => None
          | Some pd =>
              match sindex "-" id with
              | Some (S h') =>
                  match parse_u64go (stake (S h') id), unmarshal pd with
                  | Some off, Some (data, _) => Some (off, data)
                  | _, _ => None
                  end
              | _ => None
              end
          end
      | _, _ => None
      end
  | _ => None
  end.

Fixpoint parse_all {A B} (f : A -> option B) (l : list A) : option (list B) :=
  match l with
  | [] => Some []
  | x :: r => match f x, parse_all f r with Some y, Some ys => Some (y :: ys) | _, _ => None end
  end.

Definition rb_history_stream (st : rstate) (ch : string) (f : hfilter) (mttl : Z) (nonce : string) : rstate * result :=
  let args := history_stream_args cfg f mttl nonce in
  let include := nth 0 args "" in
  let '(st', r) := s_history_stream SC [stream_key ch; meta_key false ch] args st in
  (st',
   match as_array r with
   | inl _ => ResErr
   | inr l =>
       if Nat.ltb (List.length l) 2 then ResErr else
       match parse_position l with
       | None => ResErr
       | Some (off, ep) =>
           if (String.eqb include "1" && Nat.eqb (List.length l) 3)%bool then
             match as_array (nth 2 l RNil) with
             | inl _ => ResErr
             | inr vs => match parse_all parse_stream_entry vs with
                         | Some pubs => ResHistory pubs off ep
                         | None => ResErr
                         end
             end
           else ResHistory [] off ep
       end
   end).

Definition parse_list_value (v : reply) : option (N * string) :=
  match to_string v with
  | inr s =>
      match extract_push_data s with
      | PushPub pd off _ _ _ =>
          match unmarshal pd with Some (data, _) => Some (off, data) | None => None end
      | _ => None
      end
  | inl _ => None
  end.

(* index of the first publication with Offset = since or since+1 (historyList) *)
Fixpoint list_position (pubs : list (N * string)) (since next : N) (i : nat) : option nat :=
  match pubs with
  | [] => None
  | (o, _) :: r => if (o =? since)%N then Some (S i) else if (o =? next)%N then Some i
                   else list_position r since next (S i)
  end.

Definition take_limit {A} (limit : Z) (l : list A) : list A :=
  if (0 <=? limit)%Z then firstn (Z.to_nat limit) l else l.

Definition rb_history_list (st : rstate) (ch : string) (f : hfilter) (nonce : string) : rstate * result :=
  let args := history_list_args cfg f nonce in
  let include := nth 0 args "" in
  let '(st', r) := s_history_list SC [list_key ch; meta_key true ch] args st in
  (st',
   match as_array r with
   | inl _ => ResErr
   | inr l =>
       if Nat.ltb (List.length l) 2 then ResErr else
       match parse_position l with
       | None => ResErr
       | Some (off, ep) =>
           if (String.eqb include "0" || Nat.eqb (List.length l) 2)%bool then ResHistory [] off ep else
           match as_array (nth 2 l RNil) with
           | inl _ => ResErr
           | inr vs =>
               match parse_all parse_list_value (rev vs) with
               | None => ResErr
               | Some pubs =>
                   match hf_since f with
                   | None => ResHistory (take_limit (hf_limit f) pubs) off ep
                   | Some (so, se) =>
                       if ((off =? so)%N && String.eqb se ep)%bool then ResHistory [] off ep
                       else if (off <? so)%N then ResHistory [] off ep
                       else
                         match list_position pubs so (wrap64 (Z.of_N so + 1)) 0 with
                         | Some p => ResHistory (take_limit (hf_limit f) (skipn p pubs)) off ep
                         | None => ResHistory (take_limit (hf_limit f) pubs) off ep
                         end
                   end
               end
           end
       end
   end).

Definition rb_remove (st : rstate) (ch : string) : rstate * result :=
  let '(st', r) := redis_call st ["del"; if c_lists cfg then list_key ch else stream_key ch] in
  (st', match r with RErr _ => ResErr | _ => ResUnit end).

(* one broker call; PUB/SUB messages produced by it are delivered to the node
   (which is assumed subscribed to every channel) *)
Definition rb_step (st : rstate) (o : op) : rstate * obs :=
  let st0 := clear_outbox st in
  let '(st', res) :=
    match o with
    | OpPublish ch data po nonce => rb_publish st0 ch data po nonce
    | OpHistory ch f mttl nonce =>
        if c_lists cfg then rb_history_list st0 ch f nonce else rb_history_stream st0 ch f mttl nonce
    | OpRemove ch => rb_remove st0 ch
    | OpTick ms => (tick st0 ms, ResUnit)
    end in
  (clear_outbox st', (res, deliveries (outbox st'))).

Fixpoint rb_run (st : rstate) (ops : list op) : list obs :=
  match ops with
  | [] => []
  | o :: r => let '(st', ob) := rb_step st o in ob :: rb_run st' r
  end.

End WithScripts.

Definition redis_run (cfg : bcfg) (ops : list op) : list obs := rb_run shallow cfg rinit ops.
