(* Model of the in-memory stream broker:
     /repo/internal/memstream/stream.go   (Stream: Add / Get / Clear)
     /repo/broker_memory.go               (MemoryBroker.Publish, result cache,
                                           historyHub.add / getLocked / remove,
                                           expireStreams / removeStreams /
                                           expireResultCache loop bodies)
   Executable, no proofs here.

   Conventions
   * channels, publication payloads, idempotency keys, stream epochs and
     version epochs are opaque identities (N).  Epoch id 0 is the empty
     string; stream epochs are drawn from a fresh-name counter (the code
     calls epoch.Generate(), a random string: only "same / different" is
     observable, the driver canonicalises strings to first-seen indices).
   * the clock [h_now] is in milliseconds.  The history hub works in whole
     seconds (time.Now().Unix(), int64(d.Seconds())), the idempotency result
     cache in milliseconds (UnixMilli, seconds*1000).  Durations are given
     in milliseconds.
   * Go maps are total functions N -> option _ (pointwise updates).  Each of
     the two expiry priority queues of historyHub holds exactly one entry per
     key of its deadline map (an entry is pushed only when the key is absent
     from the map and dropped only together with the key), so a deadline map
     and its queue are modelled as ONE map channel -> (current deadline,
     priority of the queued entry) ([h_exp], [h_rem]).
     A sweep pops every entry whose PRIORITY is due: if the current deadline is
     due as well the channel is handled, otherwise the entry is re-pushed with
     the current deadline.  Note the quirk this mirrors: when a deadline is
     moved EARLIER (a later publish with a shorter TTL) the queued priority
     stays at the older, later instant and the sweep acts only then.
     The nextExpireCheck / nextRemoveCheck guards are transparent (they are
     always <= the smallest queued priority) and are not modelled.
   * uint64 wrap-around is modelled where an adversarial input reaches it
     (since.Offset+1, since.Offset-1); the top offset itself is unbounded
     (2^64 publications are out of reach).
   * stream.Add is modelled AFTER the fix /verif/fixes/C19-*.patch: the stored
     top version / version epoch are only replaced by a versioned publish
     (version > 0), and a version-suppressed publish returns before any
     bookkeeping.  [s_add_unfixed] / [hub_add_unfixed] keep the behaviour of
     the unpatched code for the refutation witnesses of C19. *)
From Coq Require Import List NArith ZArith Bool.
Import ListNotations.
Open Scope N_scope.

Definition U64 : N := 18446744073709551616.
Definition wadd1 (x : N) : N := if x =? U64 - 1 then 0 else x + 1.
Definition wsub1 (x : N) : N := if x =? 0 then U64 - 1 else x - 1.

(* ---------------------------------------------------------------- memstream *)

Record item := mkItem { i_off : N; i_id : N }.

Record stream := mkStream {
  s_top : N;               (* top offset *)
  s_items : list item;     (* list.List, oldest first; index = lookup by offset *)
  s_epoch : N;
  s_ver : N;               (* version.Version *)
  s_vep : N                (* version.Epoch *)
}.

Definition s_new (e : N) : stream := mkStream 0 [] e 0 0.

(* for s.list.Len() > size { remove Front } *)
Definition trim (size : nat) (l : list item) : list item :=
  skipn (length l - size) l.

Definition s_add (s : stream) (id : N) (size : nat) (ver vep : N) : stream :=
  let top := s_top s + 1 in
  mkStream top (trim size (s_items s ++ [mkItem top id])) (s_epoch s)
           (if 0 <? ver then ver else s_ver s)
           (if 0 <? ver then vep else s_vep s).

(* the unpatched Add: s.version = AppVersion{version, versionEpoch} always *)
Definition s_add_unfixed (s : stream) (id : N) (size : nat) (ver vep : N) : stream :=
  let top := s_top s + 1 in
  mkStream top (trim size (s_items s ++ [mkItem top id])) (s_epoch s) ver vep.

Definition s_clear (s : stream) : stream :=
  mkStream (s_top s) [] (s_epoch s) (s_ver s) (s_vep s).

(* index[offset] followed by walking Next(): the suffix starting at the
   element carrying [off]. *)
Fixpoint find_suffix (off : N) (l : list item) : option (list item) :=
  match l with
  | [] => None
  | it :: r => if i_off it =? off then Some l else find_suffix off r
  end.

(* index[offset] followed by walking Prev(): the element carrying [off] and
   everything before it, newest first. *)
Fixpoint find_prefix_rev (off : N) (acc l : list item) : option (list item) :=
  match l with
  | [] => None
  | it :: r => if i_off it =? off then Some (it :: acc)
               else find_prefix_rev off (it :: acc) r
  end.

(* the result loop: first element, then "if limit >= 0 && i >= limit break" *)
Definition take (limit : Z) (l : list item) : list item :=
  if (limit <? 0)%Z then l
  else if (Z.of_nat (length l) <=? limit)%Z then l   (* = firstn, without building a huge unary number *)
  else firstn (Z.to_nat limit) l.

Definition sget (s : stream) (off : N) (useOff : bool) (limit : Z) (reverse : bool)
  : list item :=
  if useOff && (s_top s + 1 <=? off) then [] else
  let start :=           (* elements visited from el on; [] when el == nil *)
    if useOff then
      if reverse then
        match find_prefix_rev off [] (s_items s) with Some p => p | None => [] end
      else
        match find_suffix off (s_items s) with Some p => p | None => s_items s end
    else if reverse then rev (s_items s) else s_items s in
  if (limit =? 0)%Z then [] else take limit start.

(* ------------------------------------------------------------- operations *)

Record popts := mkPopts {
  po_size : Z;      (* HistorySize (int) *)
  po_ttl : N;       (* HistoryTTL, ms *)
  po_meta : N;      (* HistoryMetaTTL, ms (0 = hub default) *)
  po_key : N;       (* IdempotencyKey, 0 = "" *)
  po_rttl : N;      (* IdempotentResultTTL, ms (0 = default 300 s) *)
  po_ver : N;       (* Version *)
  po_vep : N        (* VersionEpoch, 0 = "" *)
}.

Record hfilter := mkFilter {
  f_since : option (N * N);   (* Since: offset, epoch *)
  f_limit : Z;
  f_rev : bool
}.

Inductive op :=
| Publish (ch id : N) (o : popts)
| History (ch : N) (f : hfilter) (meta : N)     (* meta = HistoryOptions.MetaTTL, ms *)
| Remove (ch : N)
| Advance (d : N)                                (* the clock moves by d ms *)
| SweepExpire                                    (* one due iteration of expireStreams *)
| SweepRemove                                    (* one due iteration of removeStreams *)
| SweepCache.                                    (* one due iteration of expireResultCache *)

(* a delivery = one eventHandler.HandlePublication call:
   channel, payload, pub.Offset, position offset, position epoch *)
Record deliv := mkDeliv { d_ch : N; d_id : N; d_poff : N; d_off : N; d_ep : N }.

Inductive out :=
| OPub (off ep : N) (supp : N) (dl : list deliv)  (* supp: 0 no, 1 idempotency, 2 version *)
| OHist (items : list item) (top ep : N)
| OUnit
| OErr (code : N).   (* an error / panic observed on the implementation; the model never produces it *)

(* ------------------------------------------------------- hub + result cache *)

Record hub := mkHub {
  h_streams : N -> option stream;
  h_exp : N -> option (N * N);           (* expires[ch] (s), priority of ch's expireQueue entry *)
  h_rem : N -> option (N * N);           (* removes[ch] (s), priority of ch's removeQueue entry *)
  h_cache : N -> N -> option (N * N * N);(* ch, key -> offset, epoch, ExpireAt ms *)
  h_now : N;                             (* ms *)
  h_fresh : N;                           (* next stream epoch *)
  h_meta : N                             (* hub-level historyMetaTTL, ms *)
}.

Definition upd {A} (m : N -> option A) (k : N) (v : option A) : N -> option A :=
  fun x => if x =? k then v else m x.

Definition hub_init (now meta : N) : hub :=
  mkHub (fun _ => None) (fun _ => None) (fun _ => None) (fun _ _ => None) now 1 meta.

Definition now_s (h : hub) : N := h_now h / 1000.
Definition secs (ms : N) : N := ms / 1000.

Definition h_expires (h : hub) (ch : N) : option N := option_map fst (h_exp h ch).
Definition h_removes (h : hub) (ch : N) : option N := option_map fst (h_rem h ch).

Definition eff_meta (h : hub) (m : N) : N := if m =? 0 then h_meta h else m.

(* "if _, ok := m[ch]; !ok { heap.Push(&q, {ch, v}) }; m[ch] = v":
   the queued priority is kept when the key exists *)
Definition set_deadline (m : N -> option (N * N)) (ch v : N) : N -> option (N * N) :=
  upd m ch (Some (v, match m ch with Some (_, q) => q | None => v end)).

(* "if historyMetaTTL > 0 { removes[ch] = now + seconds }" *)
Definition touch_meta (h : hub) (ch m : N) : N -> option (N * N) :=
  let m' := eff_meta h m in
  if 0 <? m' then set_deadline (h_rem h) ch (now_s h + secs m') else h_rem h.

Definition ver_skip (s : stream) (o : popts) : bool :=
  (0 <? po_ver o) && ((po_vep o =? 0) || (po_vep o =? s_vep s)) && (po_ver o <=? s_ver s).

(* the deadline bookkeeping of historyHub.add *)
Definition book (h : hub) (ch : N) (o : popts) (streams : N -> option stream) (fresh : N) : hub :=
  mkHub streams
        (set_deadline (h_exp h) ch (now_s h + secs (po_ttl o)))
        (touch_meta h ch (po_meta o))
        (h_cache h) (h_now h) fresh (h_meta h).

(* historyHub.add (UseDelta = false): hub', position, skip *)
Definition hub_add (h : hub) (ch id : N) (o : popts) : hub * (N * N) * bool :=
  let size := Z.to_nat (po_size o) in
  match h_streams h ch with
  | Some s =>
      if ver_skip s o then (h, (s_top s, s_epoch s), true)
      else
        let s' := s_add s id size (po_ver o) (po_vep o) in
        (book h ch o (upd (h_streams h) ch (Some s')) (h_fresh h), (s_top s', s_epoch s'), false)
  | None =>
      let s' := s_add (s_new (h_fresh h)) id size (po_ver o) (po_vep o) in
      (book h ch o (upd (h_streams h) ch (Some s')) (h_fresh h + 1), (s_top s', s_epoch s'), false)
  end.

(* the unpatched historyHub.add: expiry bookkeeping precedes the version check
   and Add overwrites the stored version *)
Definition hub_add_unfixed (h : hub) (ch id : N) (o : popts) : hub * (N * N) * bool :=
  let size := Z.to_nat (po_size o) in
  match h_streams h ch with
  | Some s =>
      if ver_skip s o then (book h ch o (h_streams h) (h_fresh h), (s_top s, s_epoch s), true)
      else
        let s' := s_add_unfixed s id size (po_ver o) (po_vep o) in
        (book h ch o (upd (h_streams h) ch (Some s')) (h_fresh h), (s_top s', s_epoch s'), false)
  | None =>
      let s' := s_add_unfixed (s_new (h_fresh h)) id size (po_ver o) (po_vep o) in
      (book h ch o (upd (h_streams h) ch (Some s')) (h_fresh h + 1), (s_top s', s_epoch s'), false)
  end.

(* getResultFromCache: a stored result whose ExpireAt <= now is a miss *)
Definition cache_get (h : hub) (ch key : N) : option (N * N) :=
  match h_cache h ch key with
  | Some (off, ep, exp) => if exp <=? h_now h then None else Some (off, ep)
  | None => None
  end.

Definition result_secs (o : popts) : N :=
  if po_rttl o =? 0 then 300 else secs (po_rttl o).

(* saveResultToCache *)
Definition cache_save (h : hub) (ch key : N) (pos : N * N) (rs : N) : hub :=
  mkHub (h_streams h) (h_exp h) (h_rem h)
        (fun c k => if (c =? ch) && (k =? key)
                    then Some (fst pos, snd pos, h_now h + rs * 1000)
                    else h_cache h c k)
        (h_now h) (h_fresh h) (h_meta h).

Definition save_if_keyed (h : hub) (ch : N) (o : popts) (pos : N * N) : hub :=
  if po_key o =? 0 then h else cache_save h ch (po_key o) pos (result_secs o).

Definition history_on (o : popts) : bool := (0 <? po_size o)%Z && (0 <? po_ttl o).

(* MemoryBroker.Publish, parametrised by the add function *)
Definition publish_with (add : hub -> N -> N -> popts -> hub * (N * N) * bool)
           (h : hub) (ch id : N) (o : popts) : hub * out :=
  match (if po_key o =? 0 then None else cache_get h ch (po_key o)) with
  | Some (off, ep) => (h, OPub off ep 1 [])
  | None =>
      if history_on o then
        let '(h1, (off, ep), skip) := add h ch id o in
        if skip then (h1, OPub off ep 2 [])
        else (save_if_keyed h1 ch o (off, ep), OPub off ep 0 [mkDeliv ch id off off ep])
      else
        (save_if_keyed h ch o (0, 0), OPub 0 0 0 [mkDeliv ch id 0 0 0])
  end.

Definition publish := publish_with hub_add.
Definition publish_unfixed := publish_with hub_add_unfixed.

(* historyHub.getLocked *)
Definition hub_get (h : hub) (ch : N) (f : hfilter) (meta : N) : hub * out :=
  let rems := touch_meta h ch meta in
  match h_streams h ch with
  | None =>
      (mkHub (upd (h_streams h) ch (Some (s_new (h_fresh h)))) (h_exp h) rems
             (h_cache h) (h_now h) (h_fresh h + 1) (h_meta h),
       OHist [] 0 (h_fresh h))
  | Some s =>
      let items :=
        match f_since f with
        | None => if (f_limit f =? 0)%Z then [] else sget s 0 false (f_limit f) (f_rev f)
        | Some (so, se) =>
            if negb (f_rev f) && (s_top s =? so) && (se =? s_epoch s) then []
            else sget s (if f_rev f then wsub1 so else wadd1 so) true (f_limit f) (f_rev f)
        end in
      (mkHub (h_streams h) (h_exp h) rems (h_cache h) (h_now h) (h_fresh h) (h_meta h),
       OHist items (s_top s) (s_epoch s))
  end.

(* historyHub.remove *)
Definition hub_remove (h : hub) (ch : N) : hub :=
  match h_streams h ch with
  | Some s => mkHub (upd (h_streams h) ch (Some (s_clear s))) (h_exp h) (h_rem h)
                    (h_cache h) (h_now h) (h_fresh h) (h_meta h)
  | None => h
  end.

(* One channel's view of a sweep loop.  The channel's queue entry (priority q)
   is popped when q is due; if the current deadline d is due too ("exp <=
   expireAt", or, after the re-push with priority exp, "exp <= exp") the
   channel is handled and its key deleted; otherwise the entry is re-pushed
   with the current deadline.  (The "!ok -> continue" branch is unreachable:
   a key leaves the map only together with its entry.)
   Result: fires?, new map value. *)
Definition sweep1 (now : N) (e : option (N * N)) : bool * option (N * N) :=
  match e with
  | None => (false, None)
  | Some (d, q) =>
      if q <=? now then
        if d <=? now then (true, None) else (false, Some (d, d))
      else (false, e)
  end.

(* expireStreams body: Clear keeps top, epoch and version *)
Definition sweep_expire (h : hub) : hub :=
  mkHub (fun c => let s := h_streams h c in
                  if fst (sweep1 (now_s h) (h_exp h c))
                  then match s with Some s => Some (s_clear s) | None => None end
                  else s)
        (fun c => snd (sweep1 (now_s h) (h_exp h c)))
        (h_rem h) (h_cache h) (h_now h) (h_fresh h) (h_meta h).

(* removeStreams body: the stream and its removes entry are forgotten
   (expires[ch] and its queue entry stay behind) *)
Definition sweep_remove (h : hub) : hub :=
  mkHub (fun c => if fst (sweep1 (now_s h) (h_rem h c)) then None else h_streams h c)
        (h_exp h)
        (fun c => snd (sweep1 (now_s h) (h_rem h c)))
        (h_cache h) (h_now h) (h_fresh h) (h_meta h).

(* expireResultCache body *)
Definition sweep_cache (h : hub) : hub :=
  mkHub (h_streams h) (h_exp h) (h_rem h)
        (fun c k => match h_cache h c k with
                    | Some (off, ep, exp) => if exp <=? h_now h then None else Some (off, ep, exp)
                    | None => None
                    end)
        (h_now h) (h_fresh h) (h_meta h).

Definition advance (h : hub) (d : N) : hub :=
  mkHub (h_streams h) (h_exp h) (h_rem h) (h_cache h) (h_now h + d) (h_fresh h) (h_meta h).

Definition step_with (pb : hub -> N -> N -> popts -> hub * out) (h : hub) (o : op) : hub * out :=
  match o with
  | Publish ch id po => pb h ch id po
  | History ch f meta => hub_get h ch f meta
  | Remove ch => (hub_remove h ch, OUnit)
  | Advance d => (advance h d, OUnit)
  | SweepExpire => (sweep_expire h, OUnit)
  | SweepRemove => (sweep_remove h, OUnit)
  | SweepCache => (sweep_cache h, OUnit)
  end.

Definition step := step_with publish.
Definition step_unfixed := step_with publish_unfixed.

Fixpoint run_with (st : hub -> op -> hub * out) (h : hub) (ops : list op) : hub * list out :=
  match ops with
  | [] => (h, [])
  | o :: r => let '(h1, x) := st h o in
              let '(h2, xs) := run_with st h1 r in (h2, x :: xs)
  end.

Definition run := run_with step.
Definition run_unfixed := run_with step_unfixed.

(* Deadlines of a channel never move earlier: the condition under which the
   queued priorities never exceed the current deadlines, i.e. under which
   "due" means what the specification says.  It holds for every sequence in
   which each channel is always published with one history TTL and accessed
   with one metadata TTL (the clock is monotone). *)
Definition dl_ok (d : option N) (v : N) : bool :=
  match d with Some e => e <=? v | None => true end.
Definition meta_ok (h : hub) (ch m : N) : bool :=
  let m' := eff_meta h m in
  if 0 <? m' then dl_ok (h_removes h ch) (now_s h + secs m') else true.
Definition mono_ok (h : hub) (o : op) : bool :=
  match o with
  | Publish ch _ po =>
      negb (history_on po) ||
      (dl_ok (h_expires h ch) (now_s h + secs (po_ttl po)) && meta_ok h ch (po_meta po))
  | History ch _ m => meta_ok h ch m
  | _ => true
  end.
Fixpoint run_mono (h : hub) (ops : list op) : bool :=
  match ops with
  | [] => true
  | o :: r => mono_ok h o && run_mono (fst (step h o)) r
  end.
