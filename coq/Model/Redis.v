(* Model of the Redis commands called by /repo/internal/redis_lua/broker_*.lua
   and by broker_redis.go directly (DEL, PUBLISH, XRANGE), written from the
   Redis command reference (7.x semantics): a keyspace of typed values with
   millisecond expiry on a VIRTUAL clock, lazy expiry on access, an outbox for
   PUBLISH / SPUBLISH.  Forms of a command that the scripts do not use answer
   an explicit "MODEL-UNSUPPORTED" error instead of guessing.
   TRUSTED: this file is the specification of Redis used by C18 (and C23). *)
From Coq Require Import List NArith ZArith Bool String Ascii.
From Cfg Require Import Model.RStr.
Import ListNotations.
Open Scope string_scope.

Inductive reply :=
| RInt (z : Z) | RBulk (s : string) | RNil | RStatus (s : string) | RErr (s : string)
| RArr (l : list reply).

Definition sid := (N * N)%type.                       (* stream id ms-seq *)
Record sentry := mkEntry { e_id : sid; e_fv : list string }.   (* flat field,value,... *)

Inductive rval :=
| VStr (s : string)
| VHash (h : list (string * string))
| VList (l : list string)
| VStream (es : list sentry) (last : sid)
| VZSet (z : list (string * Z)).        (* member -> score; integer scores only *)

Record rkey := mkKey { k_val : rval; k_exp : option N }.         (* absolute ms *)

Record rstate := mkR {
  store : list (string * rkey);
  now : N;                                             (* virtual clock, ms *)
  outbox : list (string * string)                      (* (channel, message), oldest first *)
}.

Definition rinit : rstate := mkR [] 0 [].

(* ---------- keyspace ---------- *)
Fixpoint sfind {A} (k : string) (l : list (string * A)) : option A :=
  match l with
  | [] => None
  | (k', v) :: r => if String.eqb k k' then Some v else sfind k r
  end.
Fixpoint sput {A} (k : string) (v : A) (l : list (string * A)) : list (string * A) :=
  match l with
  | [] => [(k, v)]
  | (k', v') :: r => if String.eqb k k' then (k, v) :: r else (k', v') :: sput k v r
  end.
Fixpoint sdel {A} (k : string) (l : list (string * A)) : list (string * A) :=
  match l with
  | [] => []
  | (k', v') :: r => if String.eqb k k' then sdel k r else (k', v') :: sdel k r
  end.

Definition live (nw : N) (rk : rkey) : bool :=
  match k_exp rk with Some e => (nw <? e)%N | None => true end.

(* what a command sees: expired keys do not exist *)
Definition getk (st : rstate) (k : string) : option rkey :=
  match sfind k (store st) with
  | Some rk => if live (now st) rk then Some rk else None
  | None => None
  end.
Definition putk (st : rstate) (k : string) (rk : rkey) : rstate :=
  mkR (sput k rk (store st)) (now st) (outbox st).
Definition delk (st : rstate) (k : string) : rstate :=
  mkR (sdel k (store st)) (now st) (outbox st).
(* update the value, keeping the TTL of a live key (a new key has none) *)
Definition setval (st : rstate) (k : string) (v : rval) : rstate :=
  putk st k (mkKey v (match getk st k with Some rk => k_exp rk | None => None end)).

Definition tick (st : rstate) (ms : N) : rstate := mkR (store st) (now st + ms) (outbox st).
Definition clear_outbox (st : rstate) : rstate := mkR (store st) (now st) [].

Definition wrongtype := RErr "WRONGTYPE Operation against a key holding the wrong kind of value".
Definition arity (c : string) := RErr ("ERR wrong number of arguments for '" ++ c ++ "' command").
Definition notint := RErr "ERR value is not an integer or out of range".
Definition unsupported (c : string) := RErr ("MODEL-UNSUPPORTED " ++ c).

(* ---------- hashes ---------- *)
Definition get_hash (st : rstate) (k : string) : option (option (list (string * string))) :=
  match getk st k with                        (* None = wrong type *)
  | None => Some None
  | Some rk => match k_val rk with VHash h => Some (Some h) | _ => None end
  end.

Fixpoint hset_pairs (h : list (string * string)) (fv : list string) (added : Z)
  : option (list (string * string) * Z) :=
  match fv with
  | [] => Some (h, added)
  | f :: v :: r =>
      hset_pairs (sput f v h) r (match sfind f h with Some _ => added | None => (added + 1)%Z end)
  | _ => None
  end.

Definition cmd_hset (st : rstate) (args : list string) : rstate * reply :=
  match args with
  | k :: (_ :: _ :: _) as fv =>
      match get_hash st k with
      | None => (st, wrongtype)
      | Some oh =>
          match hset_pairs (match oh with Some h => h | None => [] end) fv 0 with
          | Some (h', n) => (setval st k (VHash h'), RInt n)
          | None => (st, arity "hset")
          end
      end
  | _ => (st, arity "hset")
  end.

Definition bulk_opt (o : option string) : reply := match o with Some s => RBulk s | None => RNil end.

Definition cmd_hget (st : rstate) (args : list string) : rstate * reply :=
  match args with
  | [k; f] =>
      match get_hash st k with
      | None => (st, wrongtype)
      | Some None => (st, RNil)
      | Some (Some h) => (st, bulk_opt (sfind f h))
      end
  | _ => (st, arity "hget")
  end.

Definition cmd_hmget (st : rstate) (args : list string) : rstate * reply :=
  match args with
  | k :: (_ :: _) as fs =>
      match get_hash st k with
      | None => (st, wrongtype)
      | Some oh => let h := match oh with Some h => h | None => [] end in
                   (st, RArr (map (fun f => bulk_opt (sfind f h)) fs))
      end
  | _ => (st, arity "hmget")
  end.

Definition int64_ok (z : Z) : bool := ((-9223372036854775808 <=? z) && (z <=? 9223372036854775807))%Z.

Definition cmd_hincrby (st : rstate) (args : list string) : rstate * reply :=
  match args with
  | [k; f; incr] =>
      match parse_ll incr with
      | None => (st, notint)
      | Some d =>
          match get_hash st k with
          | None => (st, wrongtype)
          | Some oh =>
              let h := match oh with Some h => h | None => [] end in
              match (match sfind f h with Some s => parse_ll s | None => Some 0%Z end) with
              | None => (st, RErr "ERR hash value is not an integer")
              | Some cur =>
                  let v := (cur + d)%Z in
                  if int64_ok v then (setval st k (VHash (sput f (zdec v) h)), RInt v)
                  else (st, RErr "ERR increment or decrement would overflow")
              end
          end
      end
  | _ => (st, arity "hincrby")
  end.

(* ---------- generic ---------- *)
Definition cmd_expire (st : rstate) (args : list string) : rstate * reply :=
  match args with
  | [k; secs] =>
      match parse_ll secs with
      | None => (st, notint)
      | Some s =>
          match getk st k with
          | None => (st, RInt 0)
          | Some rk =>
              if (s <=? 0)%Z then (delk st k, RInt 1)            (* already in the past: key is deleted *)
              else (putk st k (mkKey (k_val rk) (Some (now st + Z.to_N s * 1000)%N)), RInt 1)
          end
      end
  | _ :: _ :: _ :: _ => (st, unsupported "EXPIRE with options")
  | _ => (st, arity "expire")
  end.

Fixpoint del_keys (st : rstate) (ks : list string) (n : Z) : rstate * Z :=
  match ks with
  | [] => (st, n)
  | k :: r => match getk st k with
              | Some _ => del_keys (delk st k) r (n + 1)%Z
              | None => del_keys (delk st k) r n
              end
  end.
Definition cmd_del (st : rstate) (args : list string) : rstate * reply :=
  match args with
  | [] => (st, arity "del")
  | _ => let '(st', n) := del_keys st args 0 in (st', RInt n)
  end.

Definition cmd_publish (name : string) (st : rstate) (args : list string) : rstate * reply :=
  match args with
  | [ch; msg] => (mkR (store st) (now st) (outbox st ++ [(ch, msg)])%list, RInt 0)
      (* the integer is the number of receiving clients; it is not used by the scripts' callers
         (broker_redis.go only looks at resp.Error()), the model answers 0 *)
  | _ => (st, arity name)
  end.

(* ---------- lists ---------- *)
Definition get_list (st : rstate) (k : string) : option (option (list string)) :=
  match getk st k with
  | None => Some None
  | Some rk => match k_val rk with VList l => Some (Some l) | _ => None end
  end.

Definition cmd_lpush (st : rstate) (args : list string) : rstate * reply :=
  match args with
  | k :: (_ :: _) as vs =>
      match get_list st k with
      | None => (st, wrongtype)
      | Some ol => let l := (rev vs ++ (match ol with Some l => l | None => [] end))%list in
                   (setval st k (VList l), RInt (Z.of_nat (List.length l)))
      end
  | _ => (st, arity "lpush")
  end.

(* Redis index normalisation for LRANGE / LTRIM: returns (start, count) of the kept slice *)
Definition norm_range (len start stop : Z) : Z * Z :=
  let start := if (start <? 0)%Z then Z.max 0 (len + start) else start in
  let stop := if (stop <? 0)%Z then (len + stop)%Z else stop in
  if ((stop <? start) || (len <=? start))%Z then (0, 0)%Z
  else let stop := if (len <=? stop)%Z then (len - 1)%Z else stop in (start, stop - start + 1)%Z.

Definition slice {A} (l : list A) (start cnt : Z) : list A :=
  firstn (Z.to_nat cnt) (skipn (Z.to_nat start) l).

Definition cmd_lrange (st : rstate) (args : list string) : rstate * reply :=
  match args with
  | [k; a; b] =>
      match parse_ll a, parse_ll b with
      | Some a, Some b =>
          match get_list st k with
          | None => (st, wrongtype)
          | Some None => (st, RArr [])
          | Some (Some l) =>
              let '(s, c) := norm_range (Z.of_nat (List.length l)) a b in
              (st, RArr (map RBulk (slice l s c)))
          end
      | _, _ => (st, notint)
      end
  | _ => (st, arity "lrange")
  end.

Definition cmd_ltrim (st : rstate) (args : list string) : rstate * reply :=
  match args with
  | [k; a; b] =>
      match parse_ll a, parse_ll b with
      | Some a, Some b =>
          match get_list st k with
          | None => (st, wrongtype)
          | Some None => (st, RStatus "OK")
          | Some (Some l) =>
              let '(s, c) := norm_range (Z.of_nat (List.length l)) a b in
              match slice l s c with
              | [] => (delk st k, RStatus "OK")                (* an emptied list key is removed *)
              | l' => (setval st k (VList l'), RStatus "OK")
              end
          end
      | _, _ => (st, notint)
      end
  | _ => (st, arity "ltrim")
  end.

Definition cmd_lindex (st : rstate) (args : list string) : rstate * reply :=
  match args with
  | [k; i] =>
      match parse_ll i with
      | Some i =>
          match get_list st k with
          | None => (st, wrongtype)
          | Some None => (st, RNil)
          | Some (Some l) =>
              let i' := if (i <? 0)%Z then (Z.of_nat (List.length l) + i)%Z else i in
              if (i' <? 0)%Z then (st, RNil) else (st, bulk_opt (nth_error l (Z.to_nat i')))
          end
      | None => (st, notint)
      end
  | _ => (st, arity "lindex")
  end.

(* ---------- streams ---------- *)
Definition u64max : N := 18446744073709551615%N.
Definition parse_u64 (s : string) : option N :=
  match parse_dec s with
  | Some n => if (n <=? u64max)%N then Some n else None
  | None => None
  end.

Definition sid_lt (a b : sid) : bool :=
  ((fst a <? fst b) || ((fst a =? fst b) && (snd a <? snd b)))%N.
Definition sid_le (a b : sid) : bool := sid_lt a b || ((fst a =? fst b) && (snd a =? snd b))%N.
Definition sid_str (i : sid) : string := dec (fst i) ++ "-" ++ dec (snd i).

(* "ms-seq" or "ms" (missing seq := [dflt]) *)
Definition parse_sid (s : string) (dflt : N) : option sid :=
  match sindex_char "-" s with
  | Some p => match parse_u64 (stake p s), parse_u64 (sdrop (S p) s) with
              | Some a, Some b => Some (a, b)
              | _, _ => None
              end
  | None => match parse_u64 s with Some a => Some (a, dflt) | None => None end
  end.

Definition get_stream (st : rstate) (k : string) : option (option (list sentry * sid)) :=
  match getk st k with
  | None => Some None
  | Some rk => match k_val rk with VStream es l => Some (Some (es, l)) | _ => None end
  end.

Definition trim_maxlen (es : list sentry) (n : Z) : list sentry :=
  skipn (List.length es - Z.to_nat n) es.

(* MAXLEN ~ n: approximate trimming only evicts whole macro nodes; with the default
   stream-node-max-entries = 100 (the byte limit of a node is not modelled) the oldest
   entries are dropped in blocks of 100 while at least n entries remain. *)
Definition trim_approx (es : list sentry) (n : Z) : list sentry :=
  skipn (((List.length es - Z.to_nat n) / 100) * 100) es.

Definition badid := RErr "ERR Invalid stream ID specified as stream command argument".

(* XADD key [MAXLEN n] id f v [f v ...]   (id explicit or "*") *)
Definition cmd_xadd (st : rstate) (args : list string) : rstate * reply :=
  let go (k : string) (maxlen : option (bool * Z)) (ids : string) (fv : list string) : rstate * reply :=
    if (Nat.eqb (List.length fv) 0 || Nat.odd (List.length fv))%bool then (st, arity "xadd") else
    match get_stream st k with
    | None => (st, wrongtype)
    | Some os =>
        let '(es, last) := match os with Some x => x | None => ([], (0, 0)%N) end in
        let oid := if String.eqb ids "*"
                   then Some (if (fst last <? now st)%N then (now st, 0%N) else (fst last, (snd last + 1)%N))
                   else if has_char "*" ids then None
                   else parse_sid ids 0 in
        match oid with
        | None => (st, if has_char "*" ids then unsupported "XADD ms-*" else badid)
        | Some id =>
            if ((fst id =? 0) && (snd id =? 0))%N
            then (st, RErr "ERR The ID specified in XADD must be greater than 0-0")
            else if sid_le id last
            then (st, RErr "ERR The ID specified in XADD is equal or smaller than the target stream top item")
            else
              let es' := (es ++ [mkEntry id fv])%list in
              let es'' := match maxlen with
                          | Some (false, n) => trim_maxlen es' n
                          | Some (true, n) => trim_approx es' n
                          | None => es'
                          end in
              (setval st k (VStream es'' id), RBulk (sid_str id))
        end
    end in
  match args with
  | k :: m :: n :: ids :: fv =>
      if String.eqb (lower m) "maxlen" then
        if (String.eqb n "=" || String.eqb n "~")%bool then
          match ids :: fv with
          | n2 :: ids2 :: fv2 =>
              match parse_ll n2 with
              | Some n' => if (n' <? 0)%Z then (st, RErr "ERR The MAXLEN argument must be >= 0.")
                           else go k (Some (String.eqb n "~", n')) ids2 fv2
              | None => (st, notint)
              end
          | _ => (st, arity "xadd")
          end
        else match parse_ll n with
             | Some n' => if (n' <? 0)%Z then (st, RErr "ERR The MAXLEN argument must be >= 0.")
                          else go k (Some (false, n')) ids fv
             | None => (st, notint)
             end
      else if existsb (String.eqb (lower m)) ["minid"; "nomkstream"; "limit"] then (st, unsupported "XADD option")
      else go k None m (n :: ids :: fv)
  | k :: ids :: fv => go k None ids fv
  | _ => (st, arity "xadd")
  end.

Definition entry_reply (e : sentry) : reply :=
  RArr [RBulk (sid_str (e_id e)); RArr (map RBulk (e_fv e))].

(* start / end of a range; "-" and "+" are the minimum / maximum ids *)
Definition parse_bound (s : string) (dflt : N) : option (option sid) :=   (* None = unsupported form *)
  if String.eqb s "-" then Some (Some (0, 0)%N)
  else if String.eqb s "+" then Some (Some (u64max, u64max))
  else if is_prefix "(" s then None
  else Some (parse_sid s dflt).

Definition parse_count (rest : list string) : option (option (option Z)) :=
  (* None: syntax error; Some None: unsupported; Some (Some c): c = None means no limit *)
  match rest with
  | [] => Some (Some None)
  | [c; n] => if String.eqb (lower c) "count"
              then match parse_ll n with Some z => Some (Some (Some z)) | None => None end
              else None
  | _ => None
  end.

Definition limit_list {A} (c : option Z) (l : list A) : list A :=
  match c with
  | None => l
  | Some z => if (z <=? 0)%Z then [] else firstn (Z.to_nat z) l
  end.

Definition cmd_xrange_gen (rev_ : bool) (st : rstate) (args : list string) : rstate * reply :=
  let name := if rev_ then "xrevrange" else "xrange" in
  match args with
  | k :: a :: b :: rest =>
      let '(lo_s, hi_s) := if rev_ then (b, a) else (a, b) in
      match parse_bound lo_s 0, parse_bound hi_s u64max, parse_count rest with
      | None, _, _ | _, None, _ => (st, unsupported "exclusive range")
      | _, _, None => (st, RErr "ERR syntax error")
      | Some None, _, _ | _, Some None, _ => (st, badid)
      | Some (Some lo), Some (Some hi), Some cnt =>
          match get_stream st k with
          | None => (st, wrongtype)
          | Some None => (st, RArr [])
          | Some (Some (es, _)) =>
              let sel := filter (fun e => sid_le lo (e_id e) && sid_le (e_id e) hi) es in
              let sel' := if rev_ then rev sel else sel in
              (st, RArr (map entry_reply (limit_list (match cnt with Some c => c | None => None end) sel')))
          end
      end
  | _ => (st, arity name)
  end.

(* ---------- more hash / generic commands (map broker scripts) ---------- *)
Definition cmd_pexpire (st : rstate) (args : list string) : rstate * reply :=
  match args with
  | [k; ms] =>
      match parse_ll ms with
      | None => (st, notint)
      | Some s =>
          match getk st k with
          | None => (st, RInt 0)
          | Some rk =>
              if (s <=? 0)%Z then (delk st k, RInt 1)
              else (putk st k (mkKey (k_val rk) (Some (now st + Z.to_N s)%N)), RInt 1)
          end
      end
  | _ :: _ :: _ :: _ => (st, unsupported "PEXPIRE with options")
  | _ => (st, arity "pexpire")
  end.

Definition cmd_exists (st : rstate) (args : list string) : rstate * reply :=
  match args with
  | [] => (st, arity "exists")
  | _ => (st, RInt (Z.of_nat (List.length (filter (fun k => match getk st k with Some _ => true | None => false end) args))))
  end.

Definition hash_or_empty (oh : option (list (string * string))) := match oh with Some h => h | None => [] end.

Definition cmd_hlen (st : rstate) (args : list string) : rstate * reply :=
  match args with
  | [k] => match get_hash st k with
           | None => (st, wrongtype)
           | Some oh => (st, RInt (Z.of_nat (List.length (hash_or_empty oh))))
           end
  | _ => (st, arity "hlen")
  end.

Definition cmd_hexists (st : rstate) (args : list string) : rstate * reply :=
  match args with
  | [k; f] => match get_hash st k with
              | None => (st, wrongtype)
              | Some oh => (st, RInt (match sfind f (hash_or_empty oh) with Some _ => 1 | None => 0 end))
              end
  | _ => (st, arity "hexists")
  end.

Definition cmd_hdel (st : rstate) (args : list string) : rstate * reply :=
  match args with
  | k :: (_ :: _) as fs =>
      match get_hash st k with
      | None => (st, wrongtype)
      | Some None => (st, RInt 0)
      | Some (Some h) =>
          let h' := fold_left (fun acc f => sdel f acc) fs h in
          let n := Z.of_nat (List.length h - List.length h') in
          match h' with
          | [] => (delk st k, RInt n)                  (* an emptied hash key is removed *)
          | _ => (setval st k (VHash h'), RInt n)
          end
      end
  | _ => (st, arity "hdel")
  end.

Fixpoint flat_kv (h : list (string * string)) : list reply :=
  match h with [] => [] | (f, v) :: r => RBulk f :: RBulk v :: flat_kv r end.

Definition cmd_hgetall (st : rstate) (args : list string) : rstate * reply :=
  match args with
  | [k] => match get_hash st k with
           | None => (st, wrongtype)
           | Some oh => (st, RArr (flat_kv (hash_or_empty oh)))
           end
  | _ => (st, arity "hgetall")
  end.

(* HSCAN key cursor [COUNT n]: modelled as the behaviour of a small (listpack encoded) hash:
   everything is returned by the first call with cursor "0"; any other cursor is not produced
   by this model and answers "unsupported". *)
Definition cmd_hscan (st : rstate) (args : list string) : rstate * reply :=
  match args with
  | k :: cur :: rest =>
      if negb (String.eqb cur "0") then (st, unsupported "HSCAN with a non-zero cursor") else
      match rest with
      | [] | [_; _] =>
          match get_hash st k with
          | None => (st, wrongtype)
          | Some oh => (st, RArr [RBulk "0"; RArr (flat_kv (hash_or_empty oh))])
          end
      | _ => (st, RErr "ERR syntax error")
      end
  | _ => (st, arity "hscan")
  end.

(* ---------- sorted sets (integer scores) ---------- *)
Definition get_zset (st : rstate) (k : string) : option (option (list (string * Z))) :=
  match getk st k with
  | None => Some None
  | Some rk => match k_val rk with VZSet z => Some (Some z) | _ => None end
  end.
Definition zset_or_empty (oz : option (list (string * Z))) := match oz with Some z => z | None => [] end.

(* Redis orders members by (score, member bytes) *)
Fixpoint str_ltb (a b : string) : bool :=
  match a, b with
  | _, EmptyString => false
  | EmptyString, String _ _ => true
  | String x a', String y b' =>
      let nx := nat_of_ascii x in let ny := nat_of_ascii y in
      if Nat.ltb nx ny then true else if Nat.ltb ny nx then false else str_ltb a' b'
  end.
Definition zle (a b : string * Z) : bool :=
  ((snd a <? snd b)%Z || ((snd a =? snd b)%Z && negb (str_ltb (fst b) (fst a))))%bool.
Fixpoint zinsert (x : string * Z) (l : list (string * Z)) : list (string * Z) :=
  match l with
  | [] => [x]
  | y :: r => if zle x y then x :: l else y :: zinsert x r
  end.
Definition zsorted (z : list (string * Z)) : list (string * Z) := fold_right zinsert [] z.

(* scores: canonical decimal integers only *)
Definition parse_score (s : string) : option Z := parse_ll s.

Fixpoint zadd_pairs (z : list (string * Z)) (sm : list string) (added : Z) : option (option (list (string * Z) * Z)) :=
  match sm with                              (* None: syntax; Some None: unsupported score *)
  | [] => Some (Some (z, added))
  | sc :: m :: r =>
      match parse_score sc with
      | None => Some None
      | Some v => zadd_pairs (sput m v z) r (match sfind m z with Some _ => added | None => (added + 1)%Z end)
      end
  | _ => None
  end.

Definition cmd_zadd (st : rstate) (args : list string) : rstate * reply :=
  match args with
  | k :: (_ :: _ :: _) as sm =>
      match get_zset st k with
      | None => (st, wrongtype)
      | Some oz =>
          match zadd_pairs (zset_or_empty oz) sm 0 with
          | Some (Some (z', n)) => (setval st k (VZSet z'), RInt n)
          | Some None => (st, unsupported "ZADD options or non-integer score")
          | None => (st, RErr "ERR syntax error")
          end
      end
  | _ => (st, arity "zadd")
  end.

Definition cmd_zrem (st : rstate) (args : list string) : rstate * reply :=
  match args with
  | k :: (_ :: _) as ms =>
      match get_zset st k with
      | None => (st, wrongtype)
      | Some None => (st, RInt 0)
      | Some (Some z) =>
          let z' := fold_left (fun acc m => sdel m acc) ms z in
          let n := Z.of_nat (List.length z - List.length z') in
          match z' with
          | [] => (delk st k, RInt n)
          | _ => (setval st k (VZSet z'), RInt n)
          end
      end
  | _ => (st, arity "zrem")
  end.

Definition cmd_zscore (st : rstate) (args : list string) : rstate * reply :=
  match args with
  | [k; m] => match get_zset st k with
              | None => (st, wrongtype)
              | Some oz => (st, match sfind m (zset_or_empty oz) with Some v => RBulk (zdec v) | None => RNil end)
              end
  | _ => (st, arity "zscore")
  end.

Definition cmd_zcard (st : rstate) (args : list string) : rstate * reply :=
  match args with
  | [k] => match get_zset st k with
           | None => (st, wrongtype)
           | Some oz => (st, RInt (Z.of_nat (List.length (zset_or_empty oz))))
           end
  | _ => (st, arity "zcard")
  end.

Fixpoint zreply (withscores : bool) (l : list (string * Z)) : list reply :=
  match l with
  | [] => []
  | (m, v) :: r => if withscores then RBulk m :: RBulk (zdec v) :: zreply withscores r
                   else RBulk m :: zreply withscores r
  end.

(* ZRANGE / ZREVRANGE key start stop [WITHSCORES]  (rank ranges only) *)
Definition cmd_zrange_gen (rev_ : bool) (st : rstate) (args : list string) : rstate * reply :=
  match args with
  | k :: a :: b :: rest =>
      let ws := match rest with [w] => if String.eqb (lower w) "withscores" then Some true else None
                              | [] => Some false | _ => None end in
      match ws, parse_ll a, parse_ll b with
      | None, _, _ => (st, unsupported "ZRANGE options")
      | Some w, Some a, Some b =>
          match get_zset st k with
          | None => (st, wrongtype)
          | Some oz =>
              let l := zsorted (zset_or_empty oz) in
              let l := if rev_ then rev l else l in
              let '(s, c) := norm_range (Z.of_nat (List.length l)) a b in
              (st, RArr (zreply w (slice l s c)))
          end
      | _, _, _ => (st, notint)
      end
  | _ => (st, arity (if rev_ then "zrevrange" else "zrange"))
  end.

(* Z[REV]RANGEBYSCORE key min max [WITHSCORES] [LIMIT offset count]   (integer, "-inf", "+inf" and
   "(" exclusive integer bounds; for the REV form the arguments are max min) *)
Inductive sbound := SInf (neg : bool) | SVal (excl : bool) (v : Z).
Definition parse_sbound (s : string) : option sbound :=
  if String.eqb (lower s) "-inf" then Some (SInf true)
  else if (String.eqb (lower s) "+inf" || String.eqb (lower s) "inf")%bool then Some (SInf false)
  else match s with
       | String "(" r => match parse_ll r with Some v => Some (SVal true v) | None => None end
       | _ => match parse_ll s with Some v => Some (SVal false v) | None => None end
       end.
Definition ge_lo (lo : sbound) (v : Z) : bool :=
  match lo with SInf n => n | SVal true b => (b <? v)%Z | SVal false b => (b <=? v)%Z end.
Definition le_hi (hi : sbound) (v : Z) : bool :=
  match hi with SInf n => negb n | SVal true b => (v <? b)%Z | SVal false b => (v <=? b)%Z end.

Fixpoint byscore_opts (rest : list string) (ws : bool) (lim : option (Z * Z)) : option (option (bool * option (Z * Z))) :=
  match rest with                          (* None: syntax error; Some None: unsupported *)
  | [] => Some (Some (ws, lim))
  | w :: r =>
      if String.eqb (lower w) "withscores" then byscore_opts r true lim
      else if String.eqb (lower w) "limit" then
        match r with
        | o :: c :: r' => match parse_ll o, parse_ll c with
                          | Some o', Some c' => byscore_opts r' ws (Some (o', c'))
                          | _, _ => Some None
                          end
        | _ => None
        end
      else None
  end.

Definition cmd_zrangebyscore_gen (rev_ : bool) (st : rstate) (args : list string) : rstate * reply :=
  match args with
  | k :: a :: b :: rest =>
      let '(lo_s, hi_s) := if rev_ then (b, a) else (a, b) in
      match parse_sbound lo_s, parse_sbound hi_s, byscore_opts rest false None with
      | _, _, None => (st, RErr "ERR syntax error")
      | Some lo, Some hi, Some (Some (ws, lim)) =>
          match get_zset st k with
          | None => (st, wrongtype)
          | Some oz =>
              let l := filter (fun mv => ge_lo lo (snd mv) && le_hi hi (snd mv))%bool (zsorted (zset_or_empty oz)) in
              let l := if rev_ then rev l else l in
              let l := match lim with
                       | None => l
                       | Some (o, c) => if (o <? 0)%Z then [] else
                                        let l' := skipn (Z.to_nat o) l in
                                        if (c <? 0)%Z then l' else firstn (Z.to_nat c) l'
                       end in
              (st, RArr (zreply ws l))
          end
      | _, _, _ => (st, unsupported "ZRANGEBYSCORE bound / option form")
      end
  | _ => (st, arity (if rev_ then "zrevrangebyscore" else "zrangebyscore"))
  end.

(* ---------- dispatch (what redis.call / a client connection can reach) ---------- *)
Definition redis_call (st : rstate) (argv : list string) : rstate * reply :=
  match argv with
  | [] => (st, RErr "ERR empty command")
  | c :: args =>
      let c := lower c in
      if String.eqb c "hset" then cmd_hset st args
      else if String.eqb c "hget" then cmd_hget st args
      else if String.eqb c "hmget" then cmd_hmget st args
      else if String.eqb c "hincrby" then cmd_hincrby st args
      else if String.eqb c "expire" then cmd_expire st args
      else if String.eqb c "del" then cmd_del st args
      else if String.eqb c "publish" then cmd_publish "publish" st args
      else if String.eqb c "spublish" then cmd_publish "spublish" st args
      else if String.eqb c "lpush" then cmd_lpush st args
      else if String.eqb c "lrange" then cmd_lrange st args
      else if String.eqb c "ltrim" then cmd_ltrim st args
      else if String.eqb c "lindex" then cmd_lindex st args
      else if String.eqb c "xadd" then cmd_xadd st args
      else if String.eqb c "xrange" then cmd_xrange_gen false st args
      else if String.eqb c "xrevrange" then cmd_xrange_gen true st args
      else if String.eqb c "pexpire" then cmd_pexpire st args
      else if String.eqb c "exists" then cmd_exists st args
      else if String.eqb c "hlen" then cmd_hlen st args
      else if String.eqb c "hexists" then cmd_hexists st args
      else if String.eqb c "hdel" then cmd_hdel st args
      else if String.eqb c "hgetall" then cmd_hgetall st args
      else if String.eqb c "hscan" then cmd_hscan st args
      else if String.eqb c "zadd" then cmd_zadd st args
      else if String.eqb c "zrem" then cmd_zrem st args
      else if String.eqb c "zscore" then cmd_zscore st args
      else if String.eqb c "zcard" then cmd_zcard st args
      else if String.eqb c "zrange" then cmd_zrange_gen false st args
      else if String.eqb c "zrevrange" then cmd_zrange_gen true st args
      else if String.eqb c "zrangebyscore" then cmd_zrangebyscore_gen false st args
      else if String.eqb c "zrevrangebyscore" then cmd_zrangebyscore_gen true st args
      else (st, RErr ("ERR unknown command '" ++ c ++ "' (not in the C18 model)"))
  end.
