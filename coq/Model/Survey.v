(* Executable model of Node.Survey / handleSurveyResponse (/repo/node.go) as a labelled transition
   system.  A survey owns a buffered channel of capacity numNodes registered under its id; remote
   responses are delivered by handleSurveyResponse with a NON-blocking send (dropped when the id is
   unknown or the buffer is full); the local handler's reply is a BLOCKING send on the same channel;
   a collector goroutine receives one response at a time into a map keyed by node uid and stops when the
   map has numNodes entries or the context is done; Survey then returns the map and ctx.Err() and
   unregisters the id.
   Atomic actions: one surveyMu section, one channel operation, one select of the collector.
   Node uids and payloads are numbers; the local node has uid 0.  No proofs in this file. *)
From Coq Require Import List NArith Bool Arith.
Import ListNotations.

Record resp := mkResp { r_uid : N; r_val : N }.

Inductive phase :=
| Handling            (* registered; the local survey handler is being called, the collector is not started yet *)
| Collecting          (* collector goroutine running *)
| Finished            (* collector returned (complete or context done); wg.Wait about to return *)
| Returned.           (* Survey returned and unregistered the id *)

Record sv := mkSv {
  s_num : nat;                 (* numNodes = capacity of the channel = size at which the collector stops *)
  s_buf : list resp;           (* channel content, oldest first *)
  s_results : list (N * N);    (* results map: uid -> value, at most one entry per uid *)
  s_phase : phase;
  s_cancelled : bool;          (* ctx.Done() is closed *)
  s_local : option N;          (* a local reply not yet sent (the handler has not called back yet) *)
  s_ret : option (list (N * N) * bool);   (* what Survey returned: results, ctx.Err() <> nil *)
  s_accepted : list resp       (* ghost: every response ever put into the channel *)
}.

Record nst := mkN {
  n_next : nat;                       (* n.surveyID *)
  n_surveys : list (nat * sv)         (* every survey started so far, keyed by id, newest binding first;
                                         an id is in n.surveyRegistry iff its phase is not Returned *)
}.

Definition n_init : nst := mkN 0 [].

Fixpoint find_sv (l : list (nat * sv)) (id : nat) : option sv :=
  match l with
  | [] => None
  | (i, s) :: l' => if i =? id then Some s else find_sv l' id
  end.

Definition set_sv (st : nst) (id : nat) (s : sv) : nst := mkN (n_next st) ((id, s) :: n_surveys st).

(* results[uid] = v *)
Fixpoint map_put (m : list (N * N)) (uid v : N) : list (N * N) :=
  match m with
  | [] => [(uid, v)]
  | (u, x) :: m' => if N.eqb u uid then (u, v) :: m' else (u, x) :: map_put m' uid v
  end.

Inductive slabel :=
| LStart (numNodes : nat) (local : option N)   (* Survey called: id := ++surveyID, channel registered; [local] = the
                                                  reply the local handler will give (None: this node is not surveyed) *)
| LHandlerDone (id : nat)                      (* the local handler call returns (it may or may not have replied yet);
                                                  the collector goroutine is started *)
| LLocal (id : nat)                            (* the local handler's callback: blocking send *)
| LDeliver (uid : N) (id : nat) (v : N)        (* handleSurveyResponse(uid, {Id: id, ...}) *)
| LCollect (id : nat)                          (* collector: case resp := <-surveyChan *)
| LCancel (id : nat)                           (* the context of survey id is done (deadline / cancel) *)
| LDeadline (id : nat)                         (* collector: case <-ctx.Done() *)
| LReturn (id : nat).                          (* wg.Wait() returns; results and ctx.Err() returned; id unregistered *)

Definition sstep (st : nst) (l : slabel) : option nst :=
  match l with
  | LStart num local =>
      (* numNodes >= 1: a running node is in its own registry (with numNodes = 0 the channel would be
         unbuffered and a synchronous local reply would deadlock before the collector starts) *)
      if num =? 0 then None else
      let id := S (n_next st) in
      Some (mkN id ((id, mkSv num [] [] (match local with Some _ => Handling | None => Collecting end)
                              false local None []) :: n_surveys st))
  | LHandlerDone id =>
      match find_sv (n_surveys st) id with
      | Some s =>
          match s_phase s with
          | Handling => Some (set_sv st id (mkSv (s_num s) (s_buf s) (s_results s) Collecting (s_cancelled s)
                                                 (s_local s) (s_ret s) (s_accepted s)))
          | _ => None
          end
      | None => None
      end
  | LLocal id =>
      match find_sv (n_surveys st) id with
      | Some s =>
          match s_local s with
          | Some v =>
              if length (s_buf s) <? s_num s then
                Some (set_sv st id (mkSv (s_num s) (s_buf s ++ [mkResp 0 v]) (s_results s) (s_phase s) (s_cancelled s)
                                         None (s_ret s) (s_accepted s ++ [mkResp 0 v])))
              else None        (* the send blocks *)
          | None => None
          end
      | None => None
      end
  | LDeliver uid id v =>
      match find_sv (n_surveys st) id with
      | Some s =>
          match s_phase s with
          | Returned => Some st                                   (* id no longer registered: ignored *)
          | _ => if length (s_buf s) <? s_num s then
                   Some (set_sv st id (mkSv (s_num s) (s_buf s ++ [mkResp uid v]) (s_results s) (s_phase s) (s_cancelled s)
                                            (s_local s) (s_ret s) (s_accepted s ++ [mkResp uid v])))
                 else Some st                                     (* default branch: dropped *)
          end
      | None => Some st                                           (* unknown id: ignored *)
      end
  | LCollect id =>
      match find_sv (n_surveys st) id with
      | Some s =>
          match s_phase s, s_buf s with
          | Collecting, r :: buf' =>
              let res := map_put (s_results s) (r_uid r) (r_val r) in
              Some (set_sv st id (mkSv (s_num s) buf' res
                                       (if length res =? s_num s then Finished else Collecting)
                                       (s_cancelled s) (s_local s) (s_ret s) (s_accepted s)))
          | _, _ => None
          end
      | None => None
      end
  | LCancel id =>
      match find_sv (n_surveys st) id with
      | Some s => Some (set_sv st id (mkSv (s_num s) (s_buf s) (s_results s) (s_phase s) true (s_local s) (s_ret s) (s_accepted s)))
      | None => None
      end
  | LDeadline id =>
      match find_sv (n_surveys st) id with
      | Some s =>
          match s_phase s with
          | Collecting => if s_cancelled s then
                            Some (set_sv st id (mkSv (s_num s) (s_buf s) (s_results s) Finished true (s_local s) (s_ret s) (s_accepted s)))
                          else None
          | _ => None
          end
      | None => None
      end
  | LReturn id =>
      match find_sv (n_surveys st) id with
      | Some s =>
          match s_phase s with
          | Finished => Some (set_sv st id (mkSv (s_num s) (s_buf s) (s_results s) Returned (s_cancelled s) (s_local s)
                                                 (Some (s_results s, s_cancelled s)) (s_accepted s)))
          | _ => None
          end
      | None => None
      end
  end.

Fixpoint srun (st : nst) (sched : list slabel) : option nst :=
  match sched with
  | [] => Some st
  | l :: sched' => match sstep st l with Some st1 => srun st1 sched' | None => None end
  end.

(* distinct uids among responses *)
Fixpoint uids (l : list resp) (acc : list N) : list N :=
  match l with
  | [] => acc
  | r :: l' => uids l' (if existsb (N.eqb (r_uid r)) acc then acc else acc ++ [r_uid r])
  end.
