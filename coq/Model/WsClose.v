(* Executable model of the close-frame rules of /repo/internal/websocket/conn.go
   (isValidReceivedCloseCode, FormatCloseMessage, WriteControl for close frames, recordCloseCode/CloseCode,
   the CloseMessage branch of advanceFrame, handleProtocolError, defaultCloseHandler)
   and of websocketTransport.Close in /repo/handler_websocket.go.
   One server-side connection; events are processed one at a time (WriteControl holds the write
   lock c.mu for the write itself, recordCloseCode is one compare-and-swap).  No proofs here. *)
From Coq Require Import List NArith Bool.
From Cfg Require Import Gen.WsConst Model.WsUtf8.
Import ListNotations.
Open Scope N_scope.

Definition bytes := list N.

(* Go map lookup validReceivedCloseCodes[code]: missing key => false *)
Fixpoint table_lookup (t : list (N * bool)) (code : N) : bool :=
  match t with
  | [] => false
  | (k, v) :: t' => if k =? code then v else table_lookup t' code
  end.

Definition is_valid_received_close_code (code : N) : bool :=
  table_lookup valid_received_close_codes code
  || ((close_code_range_lo <=? code) && (code <=? close_code_range_hi)).

(* FormatCloseMessage(closeCode int, text string); closeCode is truncated by uint16() *)
Definition format_close_message (code : N) (text : bytes) : bytes :=
  if code =? c_CloseNoStatusReceived then []
  else ((code / 256) mod 256) :: (code mod 256) :: text.

(* binary.BigEndian.Uint16 of the first two payload bytes *)
Definition be16 (a b : N) : N := a * 256 + b.

(* ---- connection state relevant to close frames *)
Record cstate := mkC {
  recorded : N;         (* Conn.closeCode: 0 = none; code + 65536 when incoming *)
  close_sent : bool;    (* writeErr == ErrCloseSent *)
  write_failed : bool;  (* writeErr == error of a write on the closed net.Conn *)
  read_dead : bool;     (* readErr != nil *)
  t_closed : bool       (* websocketTransport.closed, which implies the net.Conn is closed *)
}.
Definition c_init : cstate := mkC 0 false false false false.

Definition record_close_code (st : cstate) (code : N) (incoming : bool) : cstate :=
  if (code =? 0) || (record_close_code_max <? code) then st
  else if recorded st =? 0 then
    mkC (if incoming then code + 65536 else code) (close_sent st) (write_failed st) (read_dead st) (t_closed st)
  else st.

(* Conn.CloseCode() *)
Definition close_code (st : cstate) : N * bool :=
  if recorded st =? 0 then (0, false) else (recorded st mod 65536, 65536 <=? recorded st).

(* what an event puts on the wire: close frames as their payloads *)
Inductive wres :=
| WOk                  (* WriteControl returned nil *)
| WTooLong             (* errInvalidControlFrame *)
| WCloseSent           (* ErrCloseSent: a close frame was written earlier *)
| WNetErr.             (* the net.Conn is closed: write error, kept in writeErr *)

(* WriteControl(CloseMessage, data, deadline) on a server connection whose write lock is free *)
Definition write_control_close (st : cstate) (data : bytes) : cstate * list bytes * wres :=
  if c_maxControlFramePayloadSize <? N.of_nat (length data) then (st, [], WTooLong)
  else
    let code := match data with a :: b :: _ => be16 a b | _ => c_CloseNoStatusReceived end in
    let st1 := record_close_code st code false in
    if close_sent st1 then (st1, [], WCloseSent)
    else if write_failed st1 then (st1, [], WNetErr)
    else if t_closed st1 then (mkC (recorded st1) false true (read_dead st1) true, [], WNetErr)
    else (mkC (recorded st1) true false (read_dead st1) false, [data], WOk).

Inductive rres :=
| RClose (code : N) (text : bytes)     (* *CloseError returned by ReadMessage *)
| RProtoErr                            (* errors.New("websocket: ...") after handleProtocolError *)
| RNone.                               (* event not executed (reader already failed or connection closed) *)

(* handleProtocolError(message): close 1002 with the message cut to the control frame size *)
Definition handle_protocol_error (st : cstate) (message : bytes) : cstate * list bytes :=
  let data := firstn (N.to_nat c_maxControlFramePayloadSize) (format_close_message c_CloseProtocolError message) in
  let '(st1, w, _) := write_control_close st data in (st1, w).

(* advanceFrame, case CloseMessage, for a control payload of at most 125 bytes.
   The text of the protocol error message is not modelled (any bytes): [msg] is a parameter. *)
Definition recv_close (st : cstate) (payload msg : bytes) : cstate * list bytes * rres :=
  if read_dead st || t_closed st then (st, [], RNone)
  else
    let dead s := mkC (recorded s) (close_sent s) (write_failed s) true (t_closed s) in
    match payload with
    | a :: b :: text =>
        let code := be16 a b in
        if negb (is_valid_received_close_code code) then
          let '(st1, w) := handle_protocol_error st msg in (dead st1, w, RProtoErr)
        else if negb (utf8_valid text) then
          let '(st1, w) := handle_protocol_error st msg in (dead st1, w, RProtoErr)
        else
          let st1 := record_close_code st code true in
          let '(st2, w, _) := write_control_close st1 (format_close_message code []) in
          (dead st2, w, RClose code text)
    | [_] =>
        (* one byte: no room for a status code; rejected by the source when Gen.close_body1_rejected *)
        if close_body1_rejected then
          let '(st1, w) := handle_protocol_error st msg in (dead st1, w, RProtoErr)
        else
          let code := c_CloseNoStatusReceived in
          let st1 := record_close_code st code true in
          let '(st2, w, _) := write_control_close st1 (format_close_message code []) in
          (dead st2, w, RClose code [])
    | [] =>
        let code := c_CloseNoStatusReceived in
        let st1 := record_close_code st code true in
        let '(st2, w, _) := write_control_close st1 (format_close_message code []) in
        (dead st2, w, RClose code [])
    end.

(* websocketTransport.Close(disconnect): at most once; no frame for DisconnectConnectionClosed;
   otherwise FormatCloseMessage + WriteControl; the connection is closed afterwards in every branch. *)
Definition transport_close (st : cstate) (code : N) (reason : bytes) : cstate * list bytes :=
  if t_closed st then (st, [])
  else
    let st0 := mkC (recorded st) (close_sent st) (write_failed st) (read_dead st) true in
    if code =? disconnect_connection_closed_code then (st0, [])
    else
      (* the write happens before conn.Close(): evaluate WriteControl on the still open connection *)
      let '(st1, w, _) := write_control_close st (format_close_message code reason) in
      (mkC (recorded st1) (close_sent st1) (write_failed st1) (read_dead st1) true, w).

Inductive event :=
| EvWriteClose (data : bytes)                 (* application: conn.WriteControl(CloseMessage, data, ...) *)
| EvTransportClose (code : N) (reason : bytes)(* handler: transport.Close(Disconnect{code, reason}) *)
| EvRecvClose (payload msg : bytes).          (* peer close frame read by ReadMessage *)

Inductive obs :=
| OWrite (frames : list bytes) (r : wres)
| OTransport (frames : list bytes)
| ORecv (frames : list bytes) (r : rres).

Definition step (st : cstate) (e : event) : cstate * obs :=
  match e with
  | EvWriteClose data => let '(st1, w, r) := write_control_close st data in (st1, OWrite w r)
  | EvTransportClose code reason => let '(st1, w) := transport_close st code reason in (st1, OTransport w)
  | EvRecvClose payload msg => let '(st1, w, r) := recv_close st payload msg in (st1, ORecv w r)
  end.

Fixpoint run_events (st : cstate) (es : list event) : cstate * list obs :=
  match es with
  | [] => (st, [])
  | e :: es' => let '(st1, o) := step st e in
                let '(st2, os) := run_events st1 es' in (st2, o :: os)
  end.
