(* C37 — the property text as a decidable predicate over labels and observations (events of
   each label + what the connection holds afterwards):
   * a connection never holds more client channels (subscribed or reserved by a subscribe in
     flight) than the channel limit; at the limit a further client subscribe gets limit
     exceeded (106) and a server-side one disconnects with 3505;
   * a client subscribe for a channel name longer than the maximum is rejected (107) without
     reserving anything or calling the application, whatever the subscription type;
   * a connection whose queued bytes exceed the queue limit is closed as slow (3008), and
     not before. *)
From Coq Require Import List NArith Bool.
From Cfg Require Import Model.Limits.
Import ListNotations.
Open Scope N_scope.

Record snap := mkSnap { sn_closed : bool; sn_held : N; sn_q : N }.
Definition snap_of (s : st) : snap := mkSnap (closed s) (held s) (q s).
Definition snap0 : snap := mkSnap false 0 0.

Definition out_eqb (a b : out) : bool :=
  match a, b with
  | OReply x, OReply y | OClose x, OClose y | OHandler x, OHandler y => x =? y
  | _, _ => false
  end.
Fixpoint outs_eqb (a b : list out) : bool :=
  match a, b with
  | [], [] => true
  | x :: a', y :: b' => out_eqb x y && outs_eqb a' b'
  | _, _ => false
  end.
Definition has_close (l : list out) : bool :=
  existsb (fun o => match o with OClose _ => true | _ => false end) l.

Definition step_spec (g : cfg) (p : snap) (l : label) (o : list out) (sn : snap) : bool :=
  (* never more than the limit *)
  ((g_limit g =? 0) || (sn_held sn <=? g_limit g)) &&
  (if sn_closed p then outs_eqb o [] else
   match l with
   | LSub n len rt sc =>
       if (0 <? g_maxlen g) && (g_maxlen g <? len)
       then outs_eqb o [OReply 107] && (sn_held sn =? sn_held p)
       else if (0 <? g_limit g) && (g_limit g <=? sn_held p)
       then (outs_eqb o [OReply 106] || outs_eqb o [OReply 105]) && (sn_held sn =? sn_held p)
       else true
   | LSrvSub n =>
       if (0 <? g_limit g) && (g_limit g <=? sn_held p) then outs_eqb o [OClose 3505] else negb (has_close o)
   | LEnqueue size =>
       if (0 <? g_maxq g) && (g_maxq g <? sn_q p + size) then outs_eqb o [OClose 3008]
       else outs_eqb o [] && (sn_q sn =? sn_q p + size)
   | _ => negb (has_close o)
   end).

(* connect with more server-side subscriptions than the limit disconnects with 3505; otherwise
   the connection starts with exactly those *)
Definition connect_spec (g : cfg) (subs : list N) (o : list out) (sn : snap) : bool :=
  if (0 <? g_limit g) && (g_limit g <? N.of_nat (length subs))
  then outs_eqb o [OClose 3505] && sn_closed sn
  else outs_eqb o [] && negb (sn_closed sn) && (sn_held sn =? N.of_nat (length subs)).

Fixpoint steps_spec (g : cfg) (p : snap) (ls : list label) (os : list (list out)) (sns : list snap) : bool :=
  match ls, os, sns with
  | [], [], [] => true
  | l :: ls', o :: os', sn :: sns' => step_spec g p l o sn && steps_spec g sn ls' os' sns'
  | _, _, _ => false
  end.
