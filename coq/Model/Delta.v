(* C14: model of fossil-delta encoding of publications towards one subscriber
   and of the reference client that reconstructs payloads.

   Everything is parametric in the byte-string type and in the two libraries:
     create/apply  = github.com/shadowspore/fossil-delta  Create / Apply
     esc/unesc     = segmentio json.Escape / JSON string decoding on the client
   (their round-trip contracts are hypotheses of the proofs, never axioms; the
   driver samples them on every pair it meets).

   Mirrors:
     hub.go     getDeltaPub (patch vs full when |patch| >= |data|, JSON escaping),
                broadcastPublication (broker prevPub / medium localPrevPub)
     client.go  writePublication / writePublicationUpdatePosition (first-full rule
                flagDeltaAllowed, broker vs local delta by path, filtered
                publications ARE sent to delta subscribers), subscribeCmd
                (isStreamRecovered markers stripped, makeRecoveredPubsDeltaFossil,
                flagDeltaAllowed after recovery), makeRecoveredMapPubsDeltaFossil
     channel_medium.go  KeepLatestPublication local base
     client_map.go      state pages (escaped full), live transition, per-key base
     map_broker_memory.go  per-key prevPub *)
From Coq Require Import List Bool Arith.
Import ListNotations.

Section DeltaModel.
  Variable bytes : Type.
  Variable blen : bytes -> nat.
  Variable create : bytes -> bytes -> bytes.          (* create base target = patch *)
  Variable apply : bytes -> bytes -> option bytes.    (* apply base patch *)
  Variable esc unesc : bytes -> bytes.
  Variable json : bool.                               (* transport protocol of the subscriber *)

  Record wire := mkW { w_delta : bool; w_data : bytes }.

  Definition enc (d : bytes) : bytes := if json then esc d else d.
  Definition dec (d : bytes) : bytes := if json then unesc d else d.

  (* hub.go getDeltaPub for a fossil subscriber *)
  Definition get_delta_pub (prev : option bytes) (full : bytes) : wire :=
    match prev with
    | Some b =>
        let patch := create b full in
        if Nat.leb (blen full) (blen patch) then mkW false (enc full) else mkW true (enc patch)
    | None => mkW false (enc full)
    end.

  (* fullData of a fossil subscriber (escaped for JSON) *)
  Definition full_pub (full : bytes) : wire := mkW false (enc full).

  (* client.go makeRecoveredPubsDeltaFossil: first full, then a sequential chain *)
  Fixpoint recovered_chain (prev : bytes) (l : list bytes) : list wire :=
    match l with
    | [] => []
    | d :: t => get_delta_pub (Some prev) d :: recovered_chain d t
    end.
  Definition make_recovered (l : list bytes) : list wire :=
    match l with
    | [] => []
    | d :: t => full_pub d :: recovered_chain d t
    end.

  (* ---------------------------------------------------------------- client *)
  (* the reference client of the property text: full => replace, delta => apply
     to what it holds (per stream / per map key) *)
  Definition client_step (held : option bytes) (w : wire) : option bytes :=
    let raw := dec (w_data w) in
    if w_delta w then match held with Some h => apply h raw | None => None end
    else Some raw.

  (* one delivery as seen by the client: what it held, what arrived, which
     published payload this push stands for *)
  Record event := mkE { e_held : option bytes; e_wire : wire; e_expect : bytes }.
  Definition event_result (e : event) : option bytes := client_step (e_held e) (e_wire e).

  (* feed a list of (wire, expected) to the client *)
  Fixpoint client_feed (held : option bytes) (l : list (wire * bytes)) : option bytes * list event :=
    match l with
    | [] => (held, [])
    | (w, x) :: t =>
        let h' := client_step held w in
        let '(hf, ev) := client_feed h' t in
        (hf, mkE held w x :: ev)
    end.

  (* ------------------------------------------------- positioned stream channel *)
  (* a publication in the broker's history stream: payload, whether this
     subscriber's tags filters admit it, whether the publisher asked for delta
     (PublishOptions.UseDelta: only then the broker hands prevPub over) *)
  Record spub := mkSP { sd : bytes; svis : bool; sud : bool }.

  Record pst := mkPS {
    p_stream : list spub;      (* history, oldest first; offset = index + 1 (no trimming) *)
    p_sub : bool;              (* subscribed (channel context present) *)
    p_pos : nat;               (* channelContext.streamPosition.Offset *)
    p_allowed : bool;          (* flagDeltaAllowed *)
    p_held : option bytes;     (* client: payload it holds for the stream *)
    p_cpos : nat               (* client: its stream position *)
  }.

  Inductive pact :=
  | PPub (p : spub) (deliver : bool)     (* publish; PUB/SUB delivery to this node may be lost *)
  | PRedeliver (k : nat)                 (* duplicated / late PUB/SUB delivery of offset k *)
  | PSubscribe (recover avail : bool)    (* (re)subscribe; avail: history still reaches the client's position *)
  | PDrop.                               (* unsubscribe / connection lost *)

  Definition nth_pub (s : list spub) (off : nat) : option spub :=
    match off with 0 => None | S i => nth_error s i end.

  (* Hub broadcast of the publication at offset [off] to the subscriber:
     writePublicationUpdatePosition, positioned branch.  Delta subscribers are
     sent filtered publications too. *)
  Definition p_deliver (st : pst) (off : nat) : pst * list event :=
    if negb (p_sub st) then (st, [])
    else
      match nth_pub (p_stream st) off with
      | None => (st, [])
      | Some pub =>
          if Nat.ltb (S (p_pos st)) off then
            (* missed message: insufficient state -> unsubscribe push *)
            (mkPS (p_stream st) false (p_pos st) (p_allowed st) (p_held st) (p_cpos st), [])
          else if Nat.ltb off (S (p_pos st)) then (st, [])           (* stale: skipped *)
          else
            let prev := if sud pub then option_map sd (nth_pub (p_stream st) (off - 1)) else None in
            let w := if p_allowed st then get_delta_pub prev (sd pub) else full_pub (sd pub) in
            let h' := client_step (p_held st) w in
            (mkPS (p_stream st) true off true h' off, [mkE (p_held st) w (sd pub)])
      end.

  (* offsets cmd+1 .. top with their publications *)
  Fixpoint with_offsets (from : nat) (l : list spub) : list (nat * spub) :=
    match l with [] => [] | p :: t => (S from, p) :: with_offsets (S from) t end.

  Definition last_off (dflt : nat) (l : list (nat * spub)) : nat :=
    match rev l with [] => dflt | (o, _) :: _ => o end.

  (* subscribeCmd for a fossil subscriber, stream recovery mode.
     [fx] = the tree contains the guard "delta allowed after recovery only when the
     reply ends with the publication at the start position" (see Props/C14.v);
     fx = false is the code as found. *)
  Definition p_subscribe (fx : bool) (st : pst) (recover avail : bool) : pst * list event :=
    let top := length (p_stream st) in
    if p_sub st then (st, [])
    else if recover && avail then
      let cmd := p_cpos st in
      let hist := with_offsets cmd (skipn cmd (p_stream st)) in
      let vis := filter (fun op => svis (snd op)) hist in          (* markers stripped by the merge *)
      let wires := make_recovered (map (fun op => sd (snd op)) vis) in
      let '(h', ev) := client_feed (p_held st) (combine wires (map (fun op => sd (snd op)) vis)) in
      let base := last_off cmd vis in
      let allowed := if fx then (match vis with [] => false | _ => Nat.eqb base top end) else true in
      (mkPS (p_stream st) true top allowed h' base, ev)
    else if recover then
      (* unrecoverable position: no publications, client told recovered=false *)
      (mkPS (p_stream st) true top false (p_held st) top, [])
    else
      (* fresh subscription: the client starts with nothing *)
      (mkPS (p_stream st) true top false None top, []).

  Definition p_step (fx : bool) (st : pst) (a : pact) : pst * list event :=
    match a with
    | PPub p deliver =>
        let st' := mkPS (p_stream st ++ [p]) (p_sub st) (p_pos st) (p_allowed st) (p_held st) (p_cpos st) in
        if deliver then p_deliver st' (length (p_stream st')) else (st', [])
    | PRedeliver k => p_deliver st k
    | PSubscribe recover avail => p_subscribe fx st recover avail
    | PDrop => (mkPS (p_stream st) false (p_pos st) (p_allowed st) (p_held st) (p_cpos st), [])
    end.

  Fixpoint p_run (fx : bool) (st : pst) (l : list pact) : pst * list event :=
    match l with
    | [] => (st, [])
    | a :: t =>
        let '(st1, e1) := p_step fx st a in
        let '(st2, e2) := p_run fx st1 t in
        (st2, e1 ++ e2)
    end.

  Definition p_init : pst := mkPS [] false 0 false None 0.

  (* ------------------------------------- unpositioned / offset-less stream channel *)
  (* localDeltaData path: the base is the channel medium's latestPublication
     (KeepLatestPublication), nil without a medium. *)
  Record ust := mkUS {
    u_keep : bool;             (* medium with KeepLatestPublication for the channel *)
    u_latest : option bytes;   (* medium.latestPublication *)
    u_sub : bool;
    u_allowed : bool;
    u_held : option bytes
  }.

  Inductive uact :=
  | UPub (d : bytes) (ud : bool) (deliver : bool)   (* lost deliveries never reach the node: medium and client both miss them *)
  | USubscribe
  | UDrop (medium_gone : bool).                     (* last subscriber left: the medium is dropped *)

  Definition u_step (st : ust) (a : uact) : ust * list event :=
    match a with
    | UPub d ud deliver =>
        if negb deliver then (st, [])
        else
          let lprev := if u_keep st && ud then u_latest st else None in
          let latest' := if u_keep st then Some d else u_latest st in
          if u_sub st then
            let w := if u_allowed st then get_delta_pub lprev d else full_pub d in
            (mkUS (u_keep st) latest' true true (client_step (u_held st) w), [mkE (u_held st) w d])
          else (mkUS (u_keep st) latest' false (u_allowed st) (u_held st), [])
    | USubscribe =>
        if u_sub st then (st, []) else (mkUS (u_keep st) (u_latest st) true false None, [])
    | UDrop gone =>
        (mkUS (u_keep st) (if gone then None else u_latest st) false false (u_held st), [])
    end.

  Fixpoint u_run (st : ust) (l : list uact) : ust * list event :=
    match l with
    | [] => (st, [])
    | a :: t =>
        let '(st1, e1) := u_step st a in
        let '(st2, e2) := u_run st1 t in
        (st2, e1 ++ e2)
    end.

  Definition u_init (keep : bool) : ust := mkUS keep None false false None.

  (* --------------------------------------------------------------- map channel *)
  (* keys are natural numbers; per-key payloads *)
  Definition kmap := nat -> option bytes.
  Definition kset (m : kmap) (k : nat) (v : option bytes) : kmap :=
    fun k' => if Nat.eqb k' k then v else m k'.
  Definition kempty : kmap := fun _ => None.

  Record mpub := mkMP { mk : nat; mdata : option bytes (* None = removal *); mvis : bool; mud : bool }.

  (* client.go makeRecoveredMapPubsDeltaFossil: per-key chain, removals reset the base *)
  Fixpoint make_recovered_map (prev : kmap) (l : list mpub) : list (nat * option wire) :=
    match l with
    | [] => []
    | p :: t =>
        match mdata p with
        | None => (mk p, None) :: make_recovered_map (kset prev (mk p) None) t
        | Some d =>
            let w := match prev (mk p) with
                     | None => full_pub d
                     | Some b => get_delta_pub (Some b) d
                     end in
            (mk p, Some w) :: make_recovered_map (kset prev (mk p) (Some d)) t
        end
    end.

  (* the reference client for a map: per key *)
  Definition mclient_step (held : kmap) (k : nat) (w : option wire) : kmap * option (option bytes) :=
    match w with
    | None => (kset held k None, None)                    (* removal *)
    | Some w => let r := client_step (held k) w in (kset held k r, Some r)
    end.

  Record mevent := mkME { me_key : nat; me_held : option bytes; me_wire : wire; me_expect : bytes }.
  Definition mevent_result (e : mevent) : option bytes := client_step (me_held e) (me_wire e).

  Fixpoint mclient_feed (held : kmap) (l : list (nat * option wire * option bytes)) : kmap * list mevent :=
    match l with
    | [] => (held, [])
    | (k, w, x) :: t =>
        let '(held', _) := mclient_step held k w in
        let '(hf, ev) := mclient_feed held' t in
        (hf, match w, x with
             | Some w', Some x' => mkME k (held k) w' x' :: ev
             | _, _ => ev
             end)
    end.

  Record mst := mkMS {
    m_state : kmap;            (* broker: current entry data per key *)
    m_vis : nat -> bool;       (* broker: does the subscriber's filter admit the current entry of the key *)
    m_keys : list nat;         (* broker: keys that ever had an entry (what a state read enumerates) *)
    m_log : list mpub;         (* stream since the client's saved position (changes it has not been given) *)
    m_top : nat;               (* broker: stream top offset *)
    m_pos : nat;               (* server: the subscription's position *)
    m_sub : bool;
    m_held : kmap              (* client *)
  }.

  Inductive mact :=
  | MPub (p : mpub) (deliver : bool)   (* publish (mdata = Some) or remove (None); delivery may be lost *)
  | MSubscribeState                    (* full subscribe: state snapshot (+ empty catch-up) *)
  | MRecover                           (* recovery join from the saved position: stream catch-up only *)
  | MDrop.

  Definition add_key (k : nat) (ks : list nat) : list nat :=
    if existsb (Nat.eqb k) ks then ks else k :: ks.

  (* [filtered]: the subscription has a tags filter (then state / catch-up drop
     what the filter excludes, while live delta pushes are sent regardless). *)
  Definition m_snapshot (filtered : bool) (st : mst) : list (nat * option wire * option bytes) :=
    flat_map (fun k =>
      match m_state st k with
      | Some d => if negb filtered || m_vis st k then [(k, Some (full_pub d), Some d)] else []
      | None => []
      end) (m_keys st).

  Definition m_step (filtered : bool) (st : mst) (a : mact) : mst * list mevent :=
    match a with
    | MPub p deliver =>
        let prev := if mud p then m_state st (mk p) else None in
        let state' := kset (m_state st) (mk p) (mdata p) in
        let vis' := fun k => if Nat.eqb k (mk p) then mvis p else m_vis st k in
        let keys' := add_key (mk p) (m_keys st) in
        let top' := S (m_top st) in
        if m_sub st && deliver then
          if Nat.eqb (S (m_pos st)) top' then
            match mdata p with
            | None => (mkMS state' vis' keys' [] top' top' true (kset (m_held st) (mk p) None), [])
            | Some d =>
                let w := get_delta_pub prev d in       (* map: flagDeltaAllowed from the start *)
                let r := client_step (m_held st (mk p)) w in
                (mkMS state' vis' keys' [] top' top' true (kset (m_held st) (mk p) r),
                 [mkME (mk p) (m_held st (mk p)) w d])
            end
          else
            (* offset gap after a lost delivery: insufficient state, unsubscribed *)
            (mkMS state' vis' keys' (m_log st ++ [p]) top' (m_pos st) false (m_held st), [])
        else (mkMS state' vis' keys' (m_log st ++ [p]) top' (m_pos st) (m_sub st) (m_held st), [])
    | MSubscribeState =>
        if m_sub st then (st, [])
        else
          let '(h', ev) := mclient_feed kempty (m_snapshot filtered st) in
          (mkMS (m_state st) (m_vis st) (m_keys st) [] (m_top st) (m_top st) true h', ev)
    | MRecover =>
        if m_sub st then (st, [])
        else
          let log := if filtered then filter mvis (m_log st) else m_log st in
          let wires := make_recovered_map kempty log in
          let '(h', ev) := mclient_feed (m_held st) (combine wires (map mdata log)) in
          (mkMS (m_state st) (m_vis st) (m_keys st) [] (m_top st) (m_top st) true h', ev)
    | MDrop => (mkMS (m_state st) (m_vis st) (m_keys st) (m_log st) (m_top st) (m_pos st) false (m_held st), [])
    end.

  Fixpoint m_run (filtered : bool) (st : mst) (l : list mact) : mst * list mevent :=
    match l with
    | [] => (st, [])
    | a :: t =>
        let '(st1, e1) := m_step filtered st a in
        let '(st2, e2) := m_run filtered st1 t in
        (st2, e1 ++ e2)
    end.

  Definition m_init : mst := mkMS kempty (fun _ => true) [] [] 0 0 false kempty.

  (* ---------------- paginated map subscribe, wire level (correspondence only) ----------------
     What each reply of a PAGINATED map subscribe of a delta subscriber carries, given what the
     broker returned for it: state pages and intermediate stream pages are full payloads, the
     publications of the live transition (stream read merged with the subscribe buffer) are a
     per-key chain starting from nothing, a live broadcast is a delta against the broker's previous
     entry of the key.  That the client then holds the right base is
     Proofs/DeltaMapSub.v (over the protocol model of C22). *)
  Inductive qact :=
  | QWrite (p : mpub)                        (* writer op that is not pushed live to the client (not live, or buffered) *)
  | QStart                                   (* first request of a full subscribe: the client forgets what it held *)
  | QPage (es : list (nat * bytes))          (* state page entries as returned by the broker *)
  | QStream (ps : list mpub)                 (* intermediate stream page *)
  | QLive (ps : list mpub)                   (* publications of the reply that goes live *)
  | QPush (p : mpub).                        (* live broadcast delivered to the client *)

  Record qst := mkQ { q_state : kmap; q_held : kmap }.

  Definition q_step (st : qst) (a : qact) : qst * list mevent :=
    match a with
    | QWrite p => (mkQ (kset (q_state st) (mk p) (mdata p)) (q_held st), [])
    | QStart => (mkQ (q_state st) kempty, [])
    | QPage es =>
        let '(h', ev) := mclient_feed (q_held st) (map (fun e => (fst e, Some (full_pub (snd e)), Some (snd e))) es) in
        (mkQ (q_state st) h', ev)
    | QStream ps =>
        let '(h', ev) := mclient_feed (q_held st) (map (fun p => (mk p, option_map full_pub (mdata p), mdata p)) ps) in
        (mkQ (q_state st) h', ev)
    | QLive ps =>
        let '(h', ev) := mclient_feed (q_held st) (combine (make_recovered_map kempty ps) (map mdata ps)) in
        (mkQ (q_state st) h', ev)
    | QPush p =>
        let prev := if mud p then q_state st (mk p) else None in
        let state' := kset (q_state st) (mk p) (mdata p) in
        match mdata p with
        | None => (mkQ state' (kset (q_held st) (mk p) None), [])
        | Some d =>
            let w := get_delta_pub prev d in
            (mkQ state' (kset (q_held st) (mk p) (client_step (q_held st (mk p)) w)),
             [mkME (mk p) (q_held st (mk p)) w d])
        end
    end.

  Fixpoint q_run (st : qst) (l : list qact) : qst * list mevent :=
    match l with
    | [] => (st, [])
    | a :: t =>
        let '(st1, e1) := q_step st a in
        let '(st2, e2) := q_run st1 t in
        (st2, e1 ++ e2)
    end.

  Definition q_init : qst := mkQ kempty kempty.

  Fixpoint replay (h : kmap) (l : list mpub) : kmap :=
    match l with
    | [] => h
    | p :: t => replay (kset h (mk p) (mdata p)) t
    end.

End DeltaModel.
