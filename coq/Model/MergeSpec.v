(* Specification of C39, written from the property text and independent of the
   code's algorithm (no sort, no single-pass dedup): everything is phrased over
   the *sets* of real and placeholder offsets of [rec ++ buf]. *)
From Coq Require Import List NArith Bool Sorting.Sorted.
From Cfg Require Import Model.Merge.
Import ListNotations.
Open Scope N_scope.

Definition real_offs (l : list pub) : list N :=
  map p_off (filter (fun p => negb (p_filt p)) l).
Definition marker_offs (l : list pub) : list N :=
  map p_off (filter p_filt l).
Definition max_off (l : list pub) : N := fold_right N.max 0 (map p_off l).

(* A hole: two real offsets a < b with no real offset strictly between them
   (consecutive in the merged result) and some offset strictly between them
   that no filtered placeholder covers. *)
Definition Hole (all : list pub) : Prop :=
  exists a b o,
    In a (real_offs all) /\ In b (real_offs all) /\ a < o /\ o < b /\
    (forall c, In c (real_offs all) -> ~ (a < c /\ c < b)) /\
    ~ In o (marker_offs all).

Definition MergeSpec (rec buf : list pub) (out : list pub) (maxo : N) (ok : bool) : Prop :=
  let all := rec ++ buf in
  (ok = false <-> (buf <> [] /\ Hole all)) /\
  (ok = true ->
     StronglySorted N.lt (map p_off out) /\
     NoDup (map p_off out) /\
     (forall p, In p out -> p_filt p = false /\ In p all) /\
     (forall o, In o (map p_off out) <-> In o (real_offs all)) /\
     maxo = max_off all).

(* Decidable version used as the oracle on implementation output. *)
Fixpoint strict_sorted (l : list N) : bool :=
  match l with
  | a :: (b :: _) as t => (a <? b) && strict_sorted t
  | _ => true
  end.

Definition pub_eqb (p q : pub) : bool :=
  (p_off p =? p_off q) && Bool.eqb (p_filt p) (p_filt q) && (p_id p =? p_id q).

Definition subsetN (a b : list N) : bool := forallb (fun x => memN x b) a.

(* consecutive real offsets a<b (no real offset between) with an uncovered o *)
Definition hole_b (all : list pub) : bool :=
  let R := real_offs all in
  let M := marker_offs all in
  existsb (fun a =>
    existsb (fun b =>
      (a <? b) &&
      negb (existsb (fun c => (a <? c) && (c <? b)) R) &&
      negb (range_covered (a + 1) b M)) R) R.

Definition merge_spec_b (rec buf out : list pub) (maxo : N) (ok : bool) : bool :=
  let all := rec ++ buf in
  let h := (match buf with [] => false | _ => true end) && hole_b all in
  if h then negb ok
  else ok &&
       strict_sorted (map p_off out) &&
       forallb (fun p => negb (p_filt p) && existsb (pub_eqb p) all) out &&
       subsetN (real_offs all) (map p_off out) &&
       (maxo =? max_off all).
