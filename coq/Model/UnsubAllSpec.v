(* C28 — specification written from the property text / the doc comment of
   Node.Unsubscribe ("If a channel is empty string then user will be unsubscribed
   from all channels") and of UnsubscribeOptions (narrowers combine with AND and
   still apply when the channel is empty), independent of how the code iterates.

   Observation of a node after the call: per connection the channels still held by
   the client (Client.channels) and the channels for which the hub still routes to
   it, both listed in the order of the initial state; plus the bag of effects. *)
From Coq Require Import List NArith Bool Arith.
From Cfg Require Import Model.UnsubAll.
Import ListNotations.
Open Scope N_scope.

Record oconn := mkOConn { oc_id : N; oc_chans : list N; oc_hub : list N }.

(* Which connections the call addresses (property text: "every matching connection"). *)
Definition targeted (t : target) (c : conn) : bool :=
  (if t_user t =? 0 then t_allusers t || (cn_user c =? 0) else cn_user c =? t_user t)
  && ((t_client t =? 0) || (t_client t =? cn_id c))
  && ((t_session t =? 0) || (t_session t =? cn_session c))
  && (if t_haslf t then cn_lf c else true)
  && negb (cn_closed c).

(* "the usual per-channel unsubscribe effects (callbacks, leave, presence removal,
   unsubscribe push)": what a single-channel unsubscribe of that subscription does. *)
Inductive usual_effect (cid code : N) (chn : chan) : ev -> Prop :=
| ue_callback : usual_effect cid code chn (EvCallback cid (ch_name chn) (ch_server chn) code)
| ue_push : usual_effect cid code chn (EvPush cid (ch_name chn) code)
| ue_leave : ch_joinleave chn = true -> usual_effect cid code chn (EvLeave cid (ch_name chn))
| ue_presence : ch_presence chn = true -> usual_effect cid code chn (EvPresenceRemove cid (ch_name chn)).

Definition ev_eqb (a b : ev) : bool :=
  match a, b with
  | EvPresenceRemove c1 h1, EvPresenceRemove c2 h2 => (c1 =? c2) && (h1 =? h2)
  | EvLeave c1 h1, EvLeave c2 h2 => (c1 =? c2) && (h1 =? h2)
  | EvCallback c1 h1 s1 k1, EvCallback c2 h2 s2 k2 =>
      (c1 =? c2) && (h1 =? h2) && Bool.eqb s1 s2 && (k1 =? k2)
  | EvPush c1 h1 k1, EvPush c2 h2 k2 => (c1 =? c2) && (h1 =? h2) && (k1 =? k2)
  | _, _ => false
  end.

Definition countb (e : ev) (l : list ev) : nat := length (filter (ev_eqb e) l).

Definition names (c : conn) : list N := map ch_name (cn_chans c).

(* Well-formed node state: client ids unique, channel names (established and reserved)
   unique per connection (both are Go map keys). *)
Definition wf (s : list conn) : Prop :=
  NoDup (map cn_id s) /\ forall c, In c s -> NoDup (snapshot c).

(* subscribe attempts of a connection which the application rejects *)
Definition cancelled (c : conn) : list chan := map fst (filter (fun a => negb (snd a)) (cn_inflight c)).

Record UnsubAllSpec (t : target) (code : N) (s : list conn) (o : list oconn) (evs : list ev) : Prop := {
  sp_ids : map oc_id o = map cn_id s;
  (* every matching connection ends without channels (and without hub routing) *)
  sp_targeted : forall c oc, In (c, oc) (combine s o) -> targeted t c = true ->
                  oc_chans oc = [] /\ oc_hub oc = [];
  (* other connections keep all their subscriptions, incl. the attempts that succeed *)
  sp_frame : forall c oc, In (c, oc) (combine s o) -> targeted t c = false ->
                  oc_chans oc = names (resolve c) /\ oc_hub oc = names (resolve c);
  (* each usual effect of each subscription (established, or established by an attempt in
     flight) of a matching connection happened exactly once *)
  sp_effects : forall c chn e, In c s -> targeted t c = true -> In chn (cn_chans (resolve c)) ->
                  usual_effect (cn_id c) code chn e -> countb e evs = 1%nat;
  (* a cancelled attempt gets at most its unsubscribe push *)
  sp_cancelled : forall c chn, In c s -> targeted t c = true -> In chn (cancelled c) ->
                  (countb (EvPush (cn_id c) (ch_name chn) code) evs <= 1)%nat;
  (* and nothing else happened *)
  sp_only : forall e, In e evs -> exists c chn, In c s /\ targeted t c = true /\
                  ((In chn (cn_chans (resolve c)) /\ usual_effect (cn_id c) code chn e) \/
                   (In chn (cancelled c) /\ e = EvPush (cn_id c) (ch_name chn) code))
}.

(* ---- decidable version (the oracle) ---- *)

Fixpoint eqb_listN (a b : list N) : bool :=
  match a, b with
  | [], [] => true
  | x :: a', y :: b' => (x =? y) && eqb_listN a' b'
  | _, _ => false
  end.

Definition usual_effects_l (cid code : N) (chn : chan) : list ev :=
  [EvCallback cid (ch_name chn) (ch_server chn) code; EvPush cid (ch_name chn) code] ++
  (if ch_joinleave chn then [EvLeave cid (ch_name chn)] else []) ++
  (if ch_presence chn then [EvPresenceRemove cid (ch_name chn)] else []).

Definition conn_ok (t : target) (c : conn) (oc : oconn) : bool :=
  if targeted t c
  then match oc_chans oc, oc_hub oc with [], [] => true | _, _ => false end
  else eqb_listN (oc_chans oc) (names (resolve c)) && eqb_listN (oc_hub oc) (names (resolve c)).

Fixpoint conns_ok (t : target) (s : list conn) (o : list oconn) : bool :=
  match s, o with
  | [], [] => true
  | c :: s', oc :: o' => (oc_id oc =? cn_id c) && conn_ok t c oc && conns_ok t s' o'
  | _, _ => false
  end.

Definition effects_ok (t : target) (code : N) (s : list conn) (evs : list ev) : bool :=
  forallb (fun c =>
    if targeted t c then
      forallb (fun chn => forallb (fun e => Nat.eqb (countb e evs) 1) (usual_effects_l (cn_id c) code chn))
              (cn_chans (resolve c)) &&
      forallb (fun chn => Nat.leb (countb (EvPush (cn_id c) (ch_name chn) code) evs) 1) (cancelled c)
    else true) s.

Definition only_ok (t : target) (code : N) (s : list conn) (evs : list ev) : bool :=
  forallb (fun e =>
    existsb (fun c => targeted t c &&
      (existsb (fun chn => existsb (ev_eqb e) (usual_effects_l (cn_id c) code chn)) (cn_chans (resolve c)) ||
       existsb (fun chn => ev_eqb e (EvPush (cn_id c) (ch_name chn) code)) (cancelled c))) s) evs.

Definition unsub_all_spec_b (t : target) (code : N) (s : list conn) (o : list oconn) (evs : list ev) : bool :=
  conns_ok t s o && effects_ok t code s evs && only_ok t code s evs.
