(* Specification of per-channel batching written from the property text (no timers, no buffers):
   what ONE flush must contain, given the items added to the channel since its previous flush. *)
From Coq Require Import List NArith ZArith Bool Arith.
From Cfg Require Import Model.ChanWriter.
Import ListNotations.

(* the newest publication of each key, in last-update order:
   keep a publication iff no later one in the list has the same key *)
Fixpoint newest (l : list citem) : list citem :=
  match l with
  | [] => []
  | x :: l' => if existsb (fun y => N.eqb (ci_key y) (ci_key x)) l' then newest l' else x :: newest l'
  end.

Definition pubs (l : list citem) : list citem := filter ci_pub l.
Definition nonpubs (l : list citem) : list citem := filter (fun x => negb (ci_pub x)) l.

(* the batch one flush delivers for the items [pending] added since the previous flush *)
Definition flush_spec (latest : bool) (pending : list citem) : list citem :=
  if latest then nonpubs pending ++ newest (pubs pending) else pending.

(* number of items a writer holds for [pending] (what MaxSize is compared with) *)
Definition held_count (latest : bool) (pending : list citem) : nat := length (flush_spec latest pending).
