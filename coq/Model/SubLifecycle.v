(* Model/SubLifecycle.v — labelled transition system of ONE connection's
   subscription life cycle on one node (client.go / hub.go / node.go), shared by
   C04 C05 C06 C07 C08 C26.  Executable, no proofs here.

   Granularity: one action = one lock section (c.mu, subLock(ch) incl. the
   Broker.Subscribe / Broker.Unsubscribe call made under it, connectMu and
   presenceMu are modelled as held/free flags across several actions) or one
   call into a driver-replaceable interface (Broker, PresenceManager,
   Transport.Close, event handlers).  Anchors (function names in /repo):
     attempt thread  : handleSubscribe, validateSubscribeRequest,
                       Client.Subscribe, subscribeCmd, commitSubscription,
                       onSubscribeErrorGen, removeSubscribePresence,
                       publishJoinAndPresence, writeDisconnectOrErrorFlush
     unsubscribe     : Client.Unsubscribe, handleUnsubscribe, unsubscribe
     close           : close
     presence tick   : updatePresence, updateChannelPresence,
                       compensateRacedPresence
     connect         : connectCmd (without connect-time subscriptions),
                       triggerConnect
     node            : addSubscription, removeSubscription (+ dissolver job),
                       subShard.addSub/removeSub, addClient/removeClient
   Not modelled: map / shared-poll subscriptions, positioning and recovery
   (PubSubSync), connect-time server-side subscriptions, channel limits,
   expiration, per-channel writers, the async unsubscribe spawned by ticks,
   the concurrent tick variant, channel mediums.
   Other connections are abstracted to a per-channel counter [others] with
   atomic add/remove actions (their own addSubscription/removeSubscription).

   Ghost components (never read by a transition's guard or real effect):
   [gst], the generation annotations inside [ev], [a_owned]. *)
From Coq Require Import List NArith ZArith Bool.
Import ListNotations.
Open Scope N_scope.

Definition ch := N.
Definition gen := N.
Definition tid := N.

(* ---- association lists (Go maps that are iterated) ---- *)
Definition amap (V : Type) := list (ch * V).
Fixpoint lookup {V} (k : ch) (m : amap V) : option V :=
  match m with
  | [] => None
  | (k', v) :: m' => if k =? k' then Some v else lookup k m'
  end.
Fixpoint remove {V} (k : ch) (m : amap V) : amap V :=
  match m with
  | [] => []
  | (k', v) :: m' => if k =? k' then remove k m' else (k', v) :: remove k m'
  end.
Definition insert {V} (k : ch) (v : V) (m : amap V) : amap V := (k, v) :: remove k m.
Definition keys {V} (m : amap V) : list ch := map fst m.

Definition upd {V} (f : N -> V) (k : N) (v : V) : N -> V :=
  fun x => if x =? k then v else f x.

(* ---- client side ---- *)
Record opts := mkOpts { o_pres : bool; o_jl : bool }.
Definition no_opts := mkOpts false false.

(* ChannelContext: subGen, flagSubscribed, flagServerSide, subscribingCh != nil,
   flagEmitPresence / flagEmitJoinLeave. *)
Record ctx := mkCtx { c_gen : gen; c_sub : bool; c_srv : bool; c_gate : bool; c_opts : opts }.
Definition zero_ctx := mkCtx 0 false false false no_opts.

Inductive status_t := Connecting | Connected | Closed.
Definition is_closed (s : status_t) : bool := match s with Closed => true | _ => false end.
Definition is_connected (s : status_t) : bool := match s with Connected => true | _ => false end.
Definition is_connecting (s : status_t) : bool := match s with Connecting => true | _ => false end.

(* Observable events in global order; the generation is a ghost annotation. *)
Inductive ev :=
| EvSubCb (c : ch) (g : gen)       (* OnSubscribe handler invoked *)
| EvCommit (t : tid) (c : ch) (g : gen) (jl : bool)
                                   (* ghost: thread t's commitSubscription installed the context (jl = emits join/leave) *)
| EvJoin (t : tid) (c : ch) (g : gen)        (* Broker.PublishJoin, called by thread t *)
| EvJoinSkipped (t : tid) (c : ch) (g : gen) (* ghost: Client.Subscribe returned before its join (push not enqueued) *)
| EvLeave (c : ch) (g : gen)       (* Broker.PublishLeave *)
| EvUnsubCb (c : ch) (g : gen)     (* OnUnsubscribe handler *)
| EvDelete (c : ch) (g : gen)      (* ghost: unsubscribe() removed generation g's context from c.channels *)
| EvUnsubSkipped (c : ch) (g : gen) (* ghost: a subscribed context was torn down while no OnUnsubscribe handler is registered *)
| EvConnectCb | EvDisconnectCb | EvAliveCb.

(* ---- threads ---- *)
Inductive akind := Cli | Srv.

Inductive apc :=
| PReserve | PHandler | PGenStamp | PPreAdd | PHubAdd1 | PHubAdd2 | PPostAdd | PPresAdd | PCommit
| PLostHubRem | PLostPresRem
| PClosedHubRem | PClosedPresRem | PClosedGate
| PRelease | PPush | PJoin
| PFailPres | PErrDelete | PErrHubRem | PErrGate | PErrOut.

Record att := mkAtt {
  a_ch : ch; a_kind : akind; a_opts : opts; a_pc : apc;
  a_own : gen;            (* generation minted by this attempt's reservation *)
  a_use : gen;            (* generation read back by subscribeCmd (c.channels[ch].subGen) *)
  a_padded : bool;        (* presenceAdded *)
  a_cap : option gen;     (* captured subscribingCh, identified by the generation that created it *)
  a_disc : bool;          (* the failure is a Disconnect (client path spawns close) *)
  a_owned : bool          (* ghost: onSubscribeErrorGen found its own reservation *)
}.

Inductive upc := UStart | USnap | UWait | UDelete | UPres | ULeave | UHubRem | UHandler.
Record urec := mkU {
  u_ch : ch; u_pc : upc;
  u_tgt : gen;            (* targetSubGen *)
  u_ctx : ctx;            (* chCtx snapshot (re-read after the wait gate) *)
  u_rm : gen;             (* removedSubGen *)
  u_wg : gen              (* the subscribingCh being waited on *)
}.
Definition new_u (c : ch) (pc : upc) := mkU c pc 0 zero_ctx 0 0.

Inductive cpc := CStart | CLock | CFlip | CRemove | CWriter | CTransport | CPresLock | CLoop | CDisc | CEnd.
Record crec := mkC { k_pc : cpc; k_prev : status_t; k_rest : list ch; k_cur : option urec }.

Inductive tpc := TCas | TLock | TSnap | TAlive | TCheck | TAdd | TComp | TCompRem | TEnd.
Record trec := mkT {
  t_pc : tpc;
  t_todo : list (ch * gen);   (* snapshot items (channel, ctx.subGen) not yet processed *)
  t_added : list (ch * gen);  (* items with presenceAdded *)
  t_rem : list ch         (* raced items still to be removed *)
}.

Inductive kpc := KCheck | KAuth | KShut | KFinal | KTrigLock | KTrigCheck | KEnter | KHandler | KSet.

Inductive thread :=
| TAtt (a : att) | TUns (u : urec) | TCls (k : crec) | TTck (t : trec) | TCon (pc : kpc) | TJob (c : ch).

(* ghost life cycle of a generation *)
Inductive gstate := GNone | GRes (t : tid) (c : ch) | GLive (c : ch) | GTear (t : tid) (c : ch) | GDead.

Record st := mkSt {
  status : status_t;
  authed : bool;
  closing : bool;
  chans : amap ctx;
  genctr : N;
  gclosed : gen -> bool;
  cmu : bool;
  pmu : bool;
  pinfl : bool;
  kstarted : bool;
  slock : ch -> bool;
  hub : ch -> option gen;
  others : ch -> N;
  reg : bool;
  pres : ch -> bool;
  bsub : ch -> bool;
  jobs : list ch;
  gconn : Z;
  gsub : ch -> Z;
  trace : list ev;
  thr : tid -> option thread;
  next_ext : N;
  next_int : N;
  panicked : bool;
  wclosed : bool;
  hreg : bool;
  shut : bool;
  gst : gen -> gstate
}.

Definition set_status (v : status_t) (s : st) : st :=
  mkSt v (authed s) (closing s) (chans s) (genctr s) (gclosed s) (cmu s) (pmu s) (pinfl s) (kstarted s) (slock s) (hub s) (others s) (reg s) (pres s) (bsub s) (jobs s) (gconn s) (gsub s) (trace s) (thr s) (next_ext s) (next_int s) (panicked s) (wclosed s) (hreg s) (shut s) (gst s).
Definition set_authed (v : bool) (s : st) : st :=
  mkSt (status s) v (closing s) (chans s) (genctr s) (gclosed s) (cmu s) (pmu s) (pinfl s) (kstarted s) (slock s) (hub s) (others s) (reg s) (pres s) (bsub s) (jobs s) (gconn s) (gsub s) (trace s) (thr s) (next_ext s) (next_int s) (panicked s) (wclosed s) (hreg s) (shut s) (gst s).
Definition set_closing (v : bool) (s : st) : st :=
  mkSt (status s) (authed s) v (chans s) (genctr s) (gclosed s) (cmu s) (pmu s) (pinfl s) (kstarted s) (slock s) (hub s) (others s) (reg s) (pres s) (bsub s) (jobs s) (gconn s) (gsub s) (trace s) (thr s) (next_ext s) (next_int s) (panicked s) (wclosed s) (hreg s) (shut s) (gst s).
Definition set_chans (v : amap ctx) (s : st) : st :=
  mkSt (status s) (authed s) (closing s) v (genctr s) (gclosed s) (cmu s) (pmu s) (pinfl s) (kstarted s) (slock s) (hub s) (others s) (reg s) (pres s) (bsub s) (jobs s) (gconn s) (gsub s) (trace s) (thr s) (next_ext s) (next_int s) (panicked s) (wclosed s) (hreg s) (shut s) (gst s).
Definition set_genctr (v : N) (s : st) : st :=
  mkSt (status s) (authed s) (closing s) (chans s) v (gclosed s) (cmu s) (pmu s) (pinfl s) (kstarted s) (slock s) (hub s) (others s) (reg s) (pres s) (bsub s) (jobs s) (gconn s) (gsub s) (trace s) (thr s) (next_ext s) (next_int s) (panicked s) (wclosed s) (hreg s) (shut s) (gst s).
Definition set_gclosed (v : gen -> bool) (s : st) : st :=
  mkSt (status s) (authed s) (closing s) (chans s) (genctr s) v (cmu s) (pmu s) (pinfl s) (kstarted s) (slock s) (hub s) (others s) (reg s) (pres s) (bsub s) (jobs s) (gconn s) (gsub s) (trace s) (thr s) (next_ext s) (next_int s) (panicked s) (wclosed s) (hreg s) (shut s) (gst s).
Definition set_cmu (v : bool) (s : st) : st :=
  mkSt (status s) (authed s) (closing s) (chans s) (genctr s) (gclosed s) v (pmu s) (pinfl s) (kstarted s) (slock s) (hub s) (others s) (reg s) (pres s) (bsub s) (jobs s) (gconn s) (gsub s) (trace s) (thr s) (next_ext s) (next_int s) (panicked s) (wclosed s) (hreg s) (shut s) (gst s).
Definition set_pmu (v : bool) (s : st) : st :=
  mkSt (status s) (authed s) (closing s) (chans s) (genctr s) (gclosed s) (cmu s) v (pinfl s) (kstarted s) (slock s) (hub s) (others s) (reg s) (pres s) (bsub s) (jobs s) (gconn s) (gsub s) (trace s) (thr s) (next_ext s) (next_int s) (panicked s) (wclosed s) (hreg s) (shut s) (gst s).
Definition set_pinfl (v : bool) (s : st) : st :=
  mkSt (status s) (authed s) (closing s) (chans s) (genctr s) (gclosed s) (cmu s) (pmu s) v (kstarted s) (slock s) (hub s) (others s) (reg s) (pres s) (bsub s) (jobs s) (gconn s) (gsub s) (trace s) (thr s) (next_ext s) (next_int s) (panicked s) (wclosed s) (hreg s) (shut s) (gst s).
Definition set_kstarted (v : bool) (s : st) : st :=
  mkSt (status s) (authed s) (closing s) (chans s) (genctr s) (gclosed s) (cmu s) (pmu s) (pinfl s) v (slock s) (hub s) (others s) (reg s) (pres s) (bsub s) (jobs s) (gconn s) (gsub s) (trace s) (thr s) (next_ext s) (next_int s) (panicked s) (wclosed s) (hreg s) (shut s) (gst s).
Definition set_slock (v : ch -> bool) (s : st) : st :=
  mkSt (status s) (authed s) (closing s) (chans s) (genctr s) (gclosed s) (cmu s) (pmu s) (pinfl s) (kstarted s) v (hub s) (others s) (reg s) (pres s) (bsub s) (jobs s) (gconn s) (gsub s) (trace s) (thr s) (next_ext s) (next_int s) (panicked s) (wclosed s) (hreg s) (shut s) (gst s).
Definition set_hub (v : ch -> option gen) (s : st) : st :=
  mkSt (status s) (authed s) (closing s) (chans s) (genctr s) (gclosed s) (cmu s) (pmu s) (pinfl s) (kstarted s) (slock s) v (others s) (reg s) (pres s) (bsub s) (jobs s) (gconn s) (gsub s) (trace s) (thr s) (next_ext s) (next_int s) (panicked s) (wclosed s) (hreg s) (shut s) (gst s).
Definition set_others (v : ch -> N) (s : st) : st :=
  mkSt (status s) (authed s) (closing s) (chans s) (genctr s) (gclosed s) (cmu s) (pmu s) (pinfl s) (kstarted s) (slock s) (hub s) v (reg s) (pres s) (bsub s) (jobs s) (gconn s) (gsub s) (trace s) (thr s) (next_ext s) (next_int s) (panicked s) (wclosed s) (hreg s) (shut s) (gst s).
Definition set_reg (v : bool) (s : st) : st :=
  mkSt (status s) (authed s) (closing s) (chans s) (genctr s) (gclosed s) (cmu s) (pmu s) (pinfl s) (kstarted s) (slock s) (hub s) (others s) v (pres s) (bsub s) (jobs s) (gconn s) (gsub s) (trace s) (thr s) (next_ext s) (next_int s) (panicked s) (wclosed s) (hreg s) (shut s) (gst s).
Definition set_pres (v : ch -> bool) (s : st) : st :=
  mkSt (status s) (authed s) (closing s) (chans s) (genctr s) (gclosed s) (cmu s) (pmu s) (pinfl s) (kstarted s) (slock s) (hub s) (others s) (reg s) v (bsub s) (jobs s) (gconn s) (gsub s) (trace s) (thr s) (next_ext s) (next_int s) (panicked s) (wclosed s) (hreg s) (shut s) (gst s).
Definition set_bsub (v : ch -> bool) (s : st) : st :=
  mkSt (status s) (authed s) (closing s) (chans s) (genctr s) (gclosed s) (cmu s) (pmu s) (pinfl s) (kstarted s) (slock s) (hub s) (others s) (reg s) (pres s) v (jobs s) (gconn s) (gsub s) (trace s) (thr s) (next_ext s) (next_int s) (panicked s) (wclosed s) (hreg s) (shut s) (gst s).
Definition set_jobs (v : list ch) (s : st) : st :=
  mkSt (status s) (authed s) (closing s) (chans s) (genctr s) (gclosed s) (cmu s) (pmu s) (pinfl s) (kstarted s) (slock s) (hub s) (others s) (reg s) (pres s) (bsub s) v (gconn s) (gsub s) (trace s) (thr s) (next_ext s) (next_int s) (panicked s) (wclosed s) (hreg s) (shut s) (gst s).
Definition set_gconn (v : Z) (s : st) : st :=
  mkSt (status s) (authed s) (closing s) (chans s) (genctr s) (gclosed s) (cmu s) (pmu s) (pinfl s) (kstarted s) (slock s) (hub s) (others s) (reg s) (pres s) (bsub s) (jobs s) v (gsub s) (trace s) (thr s) (next_ext s) (next_int s) (panicked s) (wclosed s) (hreg s) (shut s) (gst s).
Definition set_gsub (v : ch -> Z) (s : st) : st :=
  mkSt (status s) (authed s) (closing s) (chans s) (genctr s) (gclosed s) (cmu s) (pmu s) (pinfl s) (kstarted s) (slock s) (hub s) (others s) (reg s) (pres s) (bsub s) (jobs s) (gconn s) v (trace s) (thr s) (next_ext s) (next_int s) (panicked s) (wclosed s) (hreg s) (shut s) (gst s).
Definition set_trace (v : list ev) (s : st) : st :=
  mkSt (status s) (authed s) (closing s) (chans s) (genctr s) (gclosed s) (cmu s) (pmu s) (pinfl s) (kstarted s) (slock s) (hub s) (others s) (reg s) (pres s) (bsub s) (jobs s) (gconn s) (gsub s) v (thr s) (next_ext s) (next_int s) (panicked s) (wclosed s) (hreg s) (shut s) (gst s).
Definition set_thr (v : tid -> option thread) (s : st) : st :=
  mkSt (status s) (authed s) (closing s) (chans s) (genctr s) (gclosed s) (cmu s) (pmu s) (pinfl s) (kstarted s) (slock s) (hub s) (others s) (reg s) (pres s) (bsub s) (jobs s) (gconn s) (gsub s) (trace s) v (next_ext s) (next_int s) (panicked s) (wclosed s) (hreg s) (shut s) (gst s).
Definition set_next_ext (v : N) (s : st) : st :=
  mkSt (status s) (authed s) (closing s) (chans s) (genctr s) (gclosed s) (cmu s) (pmu s) (pinfl s) (kstarted s) (slock s) (hub s) (others s) (reg s) (pres s) (bsub s) (jobs s) (gconn s) (gsub s) (trace s) (thr s) v (next_int s) (panicked s) (wclosed s) (hreg s) (shut s) (gst s).
Definition set_next_int (v : N) (s : st) : st :=
  mkSt (status s) (authed s) (closing s) (chans s) (genctr s) (gclosed s) (cmu s) (pmu s) (pinfl s) (kstarted s) (slock s) (hub s) (others s) (reg s) (pres s) (bsub s) (jobs s) (gconn s) (gsub s) (trace s) (thr s) (next_ext s) v (panicked s) (wclosed s) (hreg s) (shut s) (gst s).
Definition set_panicked (v : bool) (s : st) : st :=
  mkSt (status s) (authed s) (closing s) (chans s) (genctr s) (gclosed s) (cmu s) (pmu s) (pinfl s) (kstarted s) (slock s) (hub s) (others s) (reg s) (pres s) (bsub s) (jobs s) (gconn s) (gsub s) (trace s) (thr s) (next_ext s) (next_int s) v (wclosed s) (hreg s) (shut s) (gst s).
Definition set_wclosed (v : bool) (s : st) : st :=
  mkSt (status s) (authed s) (closing s) (chans s) (genctr s) (gclosed s) (cmu s) (pmu s) (pinfl s) (kstarted s) (slock s) (hub s) (others s) (reg s) (pres s) (bsub s) (jobs s) (gconn s) (gsub s) (trace s) (thr s) (next_ext s) (next_int s) (panicked s) v (hreg s) (shut s) (gst s).
Definition set_hreg (v : bool) (s : st) : st :=
  mkSt (status s) (authed s) (closing s) (chans s) (genctr s) (gclosed s) (cmu s) (pmu s) (pinfl s) (kstarted s) (slock s) (hub s) (others s) (reg s) (pres s) (bsub s) (jobs s) (gconn s) (gsub s) (trace s) (thr s) (next_ext s) (next_int s) (panicked s) (wclosed s) v (shut s) (gst s).
Definition set_shut (v : bool) (s : st) : st :=
  mkSt (status s) (authed s) (closing s) (chans s) (genctr s) (gclosed s) (cmu s) (pmu s) (pinfl s) (kstarted s) (slock s) (hub s) (others s) (reg s) (pres s) (bsub s) (jobs s) (gconn s) (gsub s) (trace s) (thr s) (next_ext s) (next_int s) (panicked s) (wclosed s) (hreg s) v (gst s).
Definition set_gst (v : gen -> gstate) (s : st) : st :=
  mkSt (status s) (authed s) (closing s) (chans s) (genctr s) (gclosed s) (cmu s) (pmu s) (pinfl s) (kstarted s) (slock s) (hub s) (others s) (reg s) (pres s) (bsub s) (jobs s) (gconn s) (gsub s) (trace s) (thr s) (next_ext s) (next_int s) (panicked s) (wclosed s) (hreg s) (shut s) v.

Definition init : st :=
  mkSt Connecting false false [] 0 (fun _ => false) false false false false
       (fun _ => false) (fun _ => None) (fun _ => 0) false
       (fun _ => false) (fun _ => false) [] 0%Z (fun _ => 0%Z)
       [] (fun _ => None) 0 0 false false false false (fun _ => GNone).

(* ---- helpers ---- *)
Definition thr_set (t : tid) (th : thread) (s : st) : st := set_thr (upd (thr s) t (Some th)) s.
Definition thr_del (t : tid) (s : st) : st := set_thr (upd (thr s) t None) s.
Definition log (e : ev) (s : st) : st := set_trace (trace s ++ [e]) s.
Definition set_gst1 (g : gen) (x : gstate) (s : st) : st := set_gst (upd (gst s) g x) s.

(* close(subscribingCh): closing a closed channel panics *)
Definition close_gate (g : gen) (s : st) : st :=
  if gclosed s g then set_panicked true s else set_gclosed (upd (gclosed s) g true) s.
Definition close_cap (c : option gen) (s : st) : st :=
  match c with Some g => close_gate g s | None => s end.

Definition spawn_int (th : thread) (s : st) : st :=
  set_next_int (next_int s + 1) (thr_set (2 * next_int s + 1) th s).

Definition new_close : thread := TCls (mkC CStart Connecting [] None).

Definition subscribers (s : st) (c : ch) : bool :=
  match hub s c with Some _ => true | None => negb (others s c =? 0) end.

Definition submit_job (c : ch) (s : st) : st := set_jobs (jobs s ++ [c]) s.

(* node.removeSubscription(ch, c, g) for g <> 0, caller checked slock free:
   hub.removeSub gen-matched; a job is submitted when removeSub reports empty
   (also when nothing was found). *)
Definition hubrem (c : ch) (g : gen) (s : st) : st :=
  match hub s c with
  | None => submit_job c s
  | Some g' =>
      if g' =? g then
        let s1 := set_gsub (upd (gsub s) c (gsub s c - 1)%Z) (set_hub (upd (hub s) c None) s) in
        if others s c =? 0 then submit_job c s1 else s1
      else s
  end.

Definition fail_pc (a : att) : apc := if a_padded a then PFailPres else PErrDelete.
Definition with_pc (a : att) (pc : apc) : att :=
  mkAtt (a_ch a) (a_kind a) (a_opts a) pc (a_own a) (a_use a) (a_padded a) (a_cap a) (a_disc a) (a_owned a).
Definition with_fail (a : att) : att :=
  mkAtt (a_ch a) (a_kind a) (a_opts a) (fail_pc a) (a_own a) (a_use a) (a_padded a) (a_cap a) true (a_owned a).
Definition with_use (a : att) (g : gen) (pc : apc) : att :=
  mkAtt (a_ch a) (a_kind a) (a_opts a) pc (a_own a) g (a_padded a) (a_cap a) (a_disc a) (a_owned a).
Definition with_own (a : att) (g : gen) (pc : apc) : att :=
  mkAtt (a_ch a) (a_kind a) (a_opts a) pc g (a_use a) (a_padded a) (a_cap a) (a_disc a) (a_owned a).
Definition with_padded (a : att) (pc : apc) : att :=
  mkAtt (a_ch a) (a_kind a) (a_opts a) pc (a_own a) (a_use a) true (a_cap a) (a_disc a) (a_owned a).
Definition with_cap (a : att) (c : option gen) (pc : apc) : att :=
  mkAtt (a_ch a) (a_kind a) (a_opts a) pc (a_own a) (a_use a) (a_padded a) c (a_disc a) (a_owned a).
Definition with_err (a : att) (disc : bool) (pc : apc) : att :=
  mkAtt (a_ch a) (a_kind a) (a_opts a) pc (a_own a) (a_use a) (a_padded a) (a_cap a) disc (a_owned a).
Definition with_owned (a : att) (c : option gen) (o : bool) (pc : apc) : att :=
  mkAtt (a_ch a) (a_kind a) (a_opts a) pc (a_own a) (a_use a) (a_padded a) c (a_disc a) o.

Definition is_srv (k : akind) : bool := match k with Srv => true | Cli => false end.

(* ---- subscribe attempt (client command or Client.Subscribe) ---- *)
Definition att_step (s : st) (t : tid) (a : att) (b : bool) : option st :=
  let c := a_ch a in
  let go a' s' := Some (thr_set t (TAtt a') s') in
  let fin s' := Some (thr_del t s') in
  match a_pc a with
  | PReserve =>
      (* validateSubscribeRequest (no status check) / Client.Subscribe (status check) *)
      if is_srv (a_kind a) && is_closed (status s) then fin s
      else match lookup c (chans s) with
           | Some _ => fin s                                  (* ErrorAlreadySubscribed *)
           | None =>
               let g := genctr s + 1 in
               let s1 := set_gst1 g (GRes t c)
                           (set_genctr g (set_chans (insert c (mkCtx g false false true no_opts) (chans s)) s)) in
               match a_kind a with
               | Cli => go (with_own a g PHandler) (log (EvSubCb c g) s1)
               | Srv => go (with_own a g PGenStamp) s1
               end
           end
  | PHandler =>
      if b then go (with_pc a PGenStamp) s
      else go (with_err a false PErrDelete) s                (* handler returned a client error *)
  | PGenStamp =>
      let nxt := if is_srv (a_kind a) then PHubAdd1 else PPreAdd in
      match lookup c (chans s) with
      | Some r => go (with_use a (c_gen r) nxt) s
      | None => let g := genctr s + 1 in go (with_use a g nxt) (set_genctr g s)
      end
  | PPreAdd =>
      match lookup c (chans s) with
      | Some _ => if is_closed (status s) then go (with_fail a) s else go (with_pc a PHubAdd1) s
      | None => go (with_fail a) s
      end
  | PHubAdd1 =>
      if slock s c then None else
      let first := negb (subscribers s c) in
      let inc := match hub s c with Some _ => 0%Z | None => 1%Z end in
      let s1 := set_gsub (upd (gsub s) c (gsub s c + inc)%Z) (set_hub (upd (hub s) c (Some (a_use a))) s) in
      if first then go (with_pc a PHubAdd2) (set_slock (upd (slock s) c true) s1)
      else go (with_pc a (if is_srv (a_kind a) then PPresAdd else PPostAdd)) s1
  | PHubAdd2 =>
      let s0 := set_slock (upd (slock s) c false) s in
      if b then go (with_pc a (if is_srv (a_kind a) then PPresAdd else PPostAdd))
                   (set_bsub (upd (bsub s) c true) s0)
      else
        (* Broker.Subscribe failed: hub.removeSub(ch, client, subGen) under the same lock, no job *)
        let s1 := match hub s c with
                  | Some g' => if g' =? a_use a
                               then set_gsub (upd (gsub s0) c (gsub s0 c - 1)%Z) (set_hub (upd (hub s0) c None) s0)
                               else s0
                  | None => s0
                  end in
        go (with_fail a) s1
  | PPostAdd =>
      match lookup c (chans s) with
      | Some _ => if is_closed (status s) then go (with_fail a) s else go (with_pc a PPresAdd) s
      | None => go (with_fail a) s
      end
  | PPresAdd =>
      if o_pres (a_opts a) then
        if b then go (with_padded a PCommit) (set_pres (upd (pres s) c true) s)
        else go (with_fail (with_padded a PCommit)) s
      else go (with_pc a PCommit) s
  | PCommit =>
      match lookup c (chans s) with
      | Some r =>
          if c_gen r =? a_use a then
            let cap := if c_gate r then Some (c_gen r) else None in
            if is_closed (status s) then
              go (with_cap a cap PClosedHubRem)
                 (set_gst1 (a_use a) (GTear t c) (set_chans (remove c (chans s)) s))
            else
              go (with_cap a cap PRelease)
                 (log (EvCommit t c (a_use a) (o_jl (a_opts a)))
                    (set_gst1 (a_use a) (GLive c)
                       (set_chans (insert c (mkCtx (a_use a) true (is_srv (a_kind a)) false (a_opts a)) (chans s)) s)))
          else go (with_pc a PLostHubRem) s
      | None => go (with_pc a PLostHubRem) s
      end
  | PLostHubRem =>
      if slock s c then None else go (with_pc a PLostPresRem) (hubrem c (a_use a) s)
  | PLostPresRem =>
      let s1 := if o_pres (a_opts a) then set_pres (upd (pres s) c false) s else s in
      (* client path: subscribeCmd returns a disconnect, so its deferred presence removal runs too *)
      if is_srv (a_kind a) then fin s1 else go (with_err a true (fail_pc a)) s1
  | PClosedHubRem =>
      if slock s c then None else go (with_pc a PClosedPresRem) (hubrem c (a_use a) s)
  | PClosedPresRem =>
      let s1 := if o_pres (a_opts a) then set_pres (upd (pres s) c false) s else s in
      go (with_pc a PClosedGate) s1
  | PClosedGate =>
      let s1 := set_gst1 (a_use a) GDead (close_cap (a_cap a) s) in
      if is_srv (a_kind a) then fin s1 else go (with_err (with_cap a None PErrDelete) true (fail_pc a)) s1
  | PRelease => go (with_cap a None (if is_srv (a_kind a) then PPush else PJoin)) (close_cap (a_cap a) s)
  | PPush =>
      (* Client.Subscribe: the subscribe push is enqueued; a closed writer makes it return before the join *)
      if wclosed s then fin (if o_jl (a_opts a) then log (EvJoinSkipped t c (a_use a)) s else s)
      else go (with_pc a PJoin) s
  | PJoin => fin (if o_jl (a_opts a) then log (EvJoin t c (a_use a)) s else s)
  | PFailPres => go (with_pc a PErrDelete) (set_pres (upd (pres s) c false) s)
  | PErrDelete =>
      match lookup c (chans s) with
      | Some r =>
          if c_gen r =? a_own a then
            go (with_owned a (if c_gate r then Some (a_own a) else None) true PErrHubRem)
               (set_gst1 (a_own a) (GTear t c) (set_chans (remove c (chans s)) s))
          else go (with_owned a None false PErrHubRem) s
      | None => go (with_owned a None false PErrHubRem) s
      end
  | PErrHubRem =>
      if slock s c then None else go (with_pc a PErrGate) (hubrem c (a_own a) s)
  | PErrGate =>
      let s1 := close_cap (a_cap a) s in
      let s2 := if a_owned a then set_gst1 (a_own a) GDead s1 else s1 in
      go (with_cap a None PErrOut) s2
  | PErrOut =>
      if negb (is_srv (a_kind a)) && a_disc a then fin (spawn_int new_close s) else fin s
  end.

(* ---- unsubscribe(channel) ; [t] is the thread that runs it (a close thread runs it inline) ---- *)
Definition with_upc (u : urec) (pc : upc) : urec := mkU (u_ch u) pc (u_tgt u) (u_ctx u) (u_rm u) (u_wg u).

Definition u_step (s : st) (t : tid) (u : urec) (b : bool) : option (st * option urec) :=
  let c := u_ch u in
  match u_pc u with
  | UStart => if is_closed (status s) then Some (s, None) else Some (s, Some (with_upc u USnap))
  | USnap =>
      match lookup c (chans s) with
      | None => Some (s, None)
      | Some x =>
          if negb (c_srv x) && negb (c_sub x) && c_gate x
          then Some (s, Some (mkU c UWait (c_gen x) x 0 (c_gen x)))
          else Some (s, Some (mkU c UDelete (c_gen x) x 0 0))
      end
  | UWait =>
      if gclosed s (u_wg u) then
        match lookup c (chans s) with
        | None => Some (s, None)
        | Some x => Some (s, Some (mkU c UDelete (u_tgt u) x 0 (u_wg u)))
        end
      else None
  | UDelete =>
      match lookup c (chans s) with
      | Some x =>
          if c_gen x =? u_tgt u then
            let s1 := if c_gate x then close_gate (c_gen x) s else s in
            Some (log (EvDelete c (c_gen x)) (set_gst1 (c_gen x) (GTear t c) (set_chans (remove c (chans s1)) s1)),
                  Some (mkU c UPres (u_tgt u) (u_ctx u) (c_gen x) (u_wg u)))
          else Some (s, None)
      | None => Some (s, None)
      end
  | UPres =>
      let s1 := if c_sub (u_ctx u) && o_pres (c_opts (u_ctx u)) then set_pres (upd (pres s) c false) s else s in
      Some (s1, Some (with_upc u ULeave))
  | ULeave =>
      let s1 := if c_sub (u_ctx u) && o_jl (c_opts (u_ctx u)) then log (EvLeave c (u_rm u)) s else s in
      Some (s1, Some (with_upc u UHubRem))
  | UHubRem =>
      if slock s c then None else Some (hubrem c (u_rm u) s, Some (with_upc u UHandler))
  | UHandler =>
      let s1 := if c_sub (u_ctx u)
                then (if hreg s then log (EvUnsubCb c (u_rm u)) s else log (EvUnsubSkipped c (u_rm u)) s)
                else s in
      Some (set_gst1 (u_rm u) GDead s1, None)
  end.

(* the 5 s wait-gate timeout branch *)
Definition u_timeout (s : st) (u : urec) : option st :=
  match u_pc u with
  | UWait =>
      let c := u_ch u in
      let s1 := match lookup c (chans s) with
                | Some x => if c_gate x
                            then set_chans (insert c (mkCtx (c_gen x) (c_sub x) (c_srv x) false (c_opts x))
                                                   (chans (close_gate (c_gen x) s))) (close_gate (c_gen x) s)
                            else s
                | None => s
                end in
      Some (spawn_int new_close s1)
  | _ => None
  end.

(* ---- close ---- *)
Definition with_kpc (k : crec) (pc : cpc) : crec := mkC pc (k_prev k) (k_rest k) (k_cur k).

Definition cls_step (s : st) (t : tid) (k : crec) (b : bool) : option st :=
  let go k' s' := Some (thr_set t (TCls k') s') in
  match k_pc k with
  | CStart => go (with_kpc k CLock) (set_closing true s)
  | CLock => if cmu s then None else go (with_kpc k CFlip) (set_cmu true s)
  | CFlip =>
      if is_closed (status s) then Some (thr_del t (set_cmu false s))
      else go (mkC CRemove (status s) (keys (chans s)) None) (set_status Closed s)
  | CRemove =>
      let s1 := if authed s
                then set_reg false (if reg s then set_gconn (gconn s - 1)%Z s else s)
                else s in
      go (with_kpc k CWriter) s1
  | CWriter => go (with_kpc k CTransport) (set_wclosed true s)
  | CTransport => go (with_kpc k CPresLock) s
  | CPresLock => if pmu s then None else go (with_kpc k CLoop) (set_pmu true s)
  | CLoop =>
      match k_cur k with
      | Some u =>
          match u_step s t u b with
          | Some (s', u') => Some (thr_set t (TCls (mkC CLoop (k_prev k) (k_rest k) u')) s')
          | None => None
          end
      | None =>
          (* `for channel := range channels`: Go map order, i.e. any order; b = false moves the head of
             the remaining snapshot to the back (a scheduling choice without effect), b = true takes it *)
          match k_rest k with
          | c :: r => if b then go (mkC CLoop (k_prev k) r (Some (new_u c USnap))) s
                      else go (mkC CLoop (k_prev k) (r ++ [c]) None) s
          | [] => go (with_kpc k CDisc) s
          end
      end
  | CDisc => go (with_kpc k CEnd) (if is_connected (k_prev k) then log EvDisconnectCb s else s)
  | CEnd => Some (thr_del t (set_cmu false (set_pmu false s)))
  end.

(* ---- presence tick (sequential variant) ---- *)
Definition pres_items (m : amap ctx) : list (ch * gen) :=
  map (fun p => (fst p, c_gen (snd p))) (filter (fun p => c_sub (snd p) && o_pres (c_opts (snd p))) m).
(* compensateRacedPresence: the channel is gone, or carries another subscription generation *)
Definition raced_items (s : st) (l : list (ch * gen)) : list ch :=
  map fst (filter (fun p => match lookup (fst p) (chans s) with
                            | None => true
                            | Some x => negb (c_gen x =? snd p)
                            end) l).

Definition tck_step (s : st) (t : tid) (k : trec) (b : bool) : option st :=
  let go k' s' := Some (thr_set t (TTck k') s') in
  match t_pc k with
  | TCas => if pinfl s then Some (thr_del t s) else go (mkT TLock [] [] []) (set_pinfl true s)
  | TLock => if pmu s then None else go (mkT TSnap [] [] []) (set_pmu true s)
  | TSnap =>
      if is_closed (status s) then Some (thr_del t (set_pinfl false (set_pmu false s)))
      else go (mkT TAlive (pres_items (chans s)) [] []) s
  | TAlive => go (mkT TCheck (t_todo k) (t_added k) []) (if hreg s then log EvAliveCb s else s)
  | TCheck =>
      match t_todo k with
      | [] => go (mkT TComp [] (t_added k) []) s
      | c :: r =>
          if closing s then go (mkT TComp [] (t_added k) []) s
          else match lookup (fst c) (chans s) with
               | None => go (mkT TCheck r (t_added k) []) s
               | Some _ => go (mkT TAdd (c :: r) (t_added k) []) s
               end
      end
  | TAdd =>
      match t_todo k with
      | c :: r => go (mkT TCheck r (c :: t_added k) [])
                     (if b then set_pres (upd (pres s) (fst c) true) s else s)
      | [] => go (mkT TComp [] (t_added k) []) s
      end
  | TComp => go (mkT TCompRem [] [] (raced_items s (t_added k))) s
  | TCompRem =>
      match t_rem k with
      | c :: r => go (mkT TCompRem [] [] r) (set_pres (upd (pres s) c false) s)
      | [] => go (mkT TEnd [] [] []) s
      end
  | TEnd => Some (thr_del t (set_pinfl false (set_pmu false s)))
  end.

(* ---- connect command + triggerConnect ---- *)
Definition con_step (s : st) (t : tid) (pc : kpc) (b : bool) : option st :=
  let go pc' s' := Some (thr_set t (TCon pc') s') in
  match pc with
  (* connectCmd's first look: closed -> DisconnectConnectionClosed (nothing to do); already authenticated
     (a second connect command) -> DisconnectBadRequest, the dispatcher closes the connection.  Between this
     check and the registration the command calls the OnConnecting handler (gate GkConnecting). *)
  | KCheck => if is_closed (status s) then Some (thr_del t s)
              else if authed s then Some (thr_del t (spawn_int new_close s))
              else go KAuth s
  | KAuth =>
      if is_closed (status s) then Some (thr_del t s)
      else go KShut (set_reg true (set_authed true (if reg s then s else set_gconn (gconn s + 1)%Z s)))
  (* after registering: Node.Shutdown already under way => connectCmd returns DisconnectShutdown and
     the command dispatcher closes the connection (shutdownCh is closed before the hub snapshot) *)
  | KShut => if shut s then Some (thr_del t (spawn_int new_close s)) else go KFinal s
  | KFinal => if is_closed (status s) then Some (thr_del t s) else go KTrigLock s
  | KTrigLock => if cmu s then None else go KTrigCheck (set_cmu true s)
  | KTrigCheck => if is_connecting (status s) then go KEnter s else Some (thr_del t (set_cmu false s))
  (* the OnConnect handler starts: it registers the per-connection handlers (OnSubscribe, OnUnsubscribe,
     OnDisconnect, OnAlive), which is what enables every other callback *)
  | KEnter => go KHandler (set_hreg true (log EvConnectCb s))
  | KHandler => go KSet s
  | KSet => Some (thr_del t (set_cmu false (set_status Connected s)))
  end.

(* ---- dissolver job body after its sleep: under subLock re-check, Broker.Unsubscribe ---- *)
Fixpoint remove1 (c : ch) (l : list ch) : list ch :=
  match l with
  | [] => []
  | x :: l' => if x =? c then l' else x :: remove1 c l'
  end.
Definition mem (c : ch) (l : list ch) : bool := existsb (N.eqb c) l.

Definition job_start (s : st) (c : ch) : option st :=
  if mem c (jobs s) && negb (slock s c) then
    let s1 := set_jobs (remove1 c (jobs s)) s in
    if subscribers s c then Some s1
    else Some (spawn_int (TJob c) (set_slock (upd (slock s) c true) s1))
  else None.

Definition job_step (s : st) (t : tid) (c : ch) (b : bool) : option st :=
  let s0 := set_slock (upd (slock s) c false) s in
  if b then Some (thr_del t (set_bsub (upd (bsub s) c false) s0))
  else Some (thr_del t (submit_job c s0)).

(* ---- other connections' addSubscription / removeSubscription (atomic) ---- *)
Definition other_add (s : st) (c : ch) (b : bool) : option st :=
  if slock s c then None else
  let added := set_gsub (upd (gsub s) c (gsub s c + 1)%Z) (set_others (upd (others s) c (others s c + 1)) s) in
  if subscribers s c then Some added
  else if b then Some (set_bsub (upd (bsub s) c true) added) else Some s.

Definition other_rem (s : st) (c : ch) : option st :=
  if slock s c || (others s c =? 0) then None else
  let s1 := set_gsub (upd (gsub s) c (gsub s c - 1)%Z) (set_others (upd (others s) c (others s c - 1)) s) in
  if (others s c =? 1) && match hub s c with None => true | Some _ => false end
  then Some (submit_job c s1) else Some s1.

(* ---- operations and labels ---- *)
Inductive op :=
| OSubCli (c : ch) (o : opts) | OSubSrv (c : ch) (o : opts)
| OUnsubCli (c : ch) | OUnsubSrv (c : ch)
| OClose | OTick | OConnect | OShutdown.

Definition new_att (c : ch) (k : akind) (o : opts) : thread :=
  TAtt (mkAtt c k o PReserve 0 0 false None false false).

(* enabledness = the check the entry point makes before the first lock section:
   HandleCommand (authenticated, not closed) for client commands, hub lookup
   (registered) for Node.Subscribe / Node.Unsubscribe, armed timer for ticks. *)
Definition spawn (s : st) (o : op) : option st :=
  let t := 2 * next_ext s in
  let s1 := set_next_ext (next_ext s + 1) s in
  let cli_ok := authed s && negb (is_closed (status s)) in
  match o with
  | OSubCli c oo => if cli_ok && hreg s then Some (thr_set t (new_att c Cli oo) s1) else None
  | OSubSrv c oo => if reg s then Some (thr_set t (new_att c Srv oo) s1) else None
  | OUnsubCli c => if cli_ok then Some (thr_set t (TUns (new_u c USnap)) s1) else None
  | OUnsubSrv c => if reg s then Some (thr_set t (TUns (new_u c UStart)) s1) else None
  | OClose => Some (thr_set t new_close s1)
  | OTick => if authed s then Some (thr_set t (TTck (mkT TCas [] [] [])) s1) else None
  (* any number of connect commands may be in flight (commands processed off the read loop) *)
  | OConnect => Some (thr_set t (TCon KCheck) (set_kstarted true s1))
  (* Node.Shutdown: flag, then hub.shutdown closes every registered connection (snapshot) *)
  | OShutdown => Some (set_shut true (if reg s then spawn_int new_close s1 else s1))
  end.

Inductive label :=
| LSpawn (o : op)
| LStep (t : tid) (b : bool)      (* b: outcome of the natural gate the action passes (handler ok, broker ok, ...) *)
| LTimeout (t : tid)              (* the unsubscribe wait gate's 5 s timer fires *)
| LJobStart (c : ch)
| LOtherAdd (c : ch) (b : bool)
| LOtherRem (c : ch).

Definition step_thread (s : st) (t : tid) (b : bool) : option st :=
  match thr s t with
  | None => None
  | Some (TAtt a) => att_step s t a b
  | Some (TUns u) =>
      match u_step s t u b with
      | Some (s', Some u') => Some (thr_set t (TUns u') s')
      | Some (s', None) => Some (thr_del t s')
      | None => None
      end
  | Some (TCls k) => cls_step s t k b
  | Some (TTck k) => tck_step s t k b
  | Some (TCon pc) => con_step s t pc b
  | Some (TJob c) => job_step s t c b
  end.

Definition timeout_thread (s : st) (t : tid) : option st :=
  match thr s t with
  | Some (TUns u) => match u_timeout s u with Some s' => Some (thr_del t s') | None => None end
  | Some (TCls k) =>
      match k_pc k, k_cur k with
      | CLoop, Some u =>
          match u_timeout s u with
          | Some s' => Some (thr_set t (TCls (mkC CLoop (k_prev k) (k_rest k) None)) s')
          | None => None
          end
      | _, _ => None
      end
  | _ => None
  end.

Definition astep (s : st) (l : label) : option st :=
  match l with
  | LSpawn o => spawn s o
  | LStep t b => step_thread s t b
  | LTimeout t => timeout_thread s t
  | LJobStart c => job_start s c
  | LOtherAdd c b => other_add s c b
  | LOtherRem c => other_rem s c
  end.

Fixpoint exec (l : list label) (s : st) : option st :=
  match l with
  | [] => Some s
  | x :: l' => match astep s x with Some s' => exec l' s' | None => None end
  end.

Definition is_timeout (l : label) : bool := match l with LTimeout _ => true | _ => false end.
Definition no_timeout (l : list label) : bool := forallb (fun x => negb (is_timeout x)) l.

(* every operation has run to completion *)
Definition settled (s : st) : Prop := forall t, thr s t = None.

(* ---- observations ---- *)
Definition is_subscribed (s : st) (c : ch) : bool :=
  match lookup c (chans s) with Some x => c_sub x | None => false end.
(* a publication broadcast on [c] now reaches the connection this many times
   (one hub entry per (channel, uid); offset-0 publications are not filtered by client flags) *)
Definition delivered (s : st) (c : ch) : N := match hub s c with Some _ => 1 | None => 0 end.

(* ---- natural gates: which driver-replaceable call the thread's next action goes through ---- *)
Inductive gk := GkSubH | GkBrokerSub | GkPresAdd | GkPresRem | GkJoin | GkLeave | GkUnsubH
              | GkTransport | GkDiscH | GkAliveH | GkConnH | GkBrokerUnsub | GkConnecting.

Definition u_gate (s : st) (u : urec) : option gk :=
  match u_pc u with
  | UPres => if c_sub (u_ctx u) && o_pres (c_opts (u_ctx u)) then Some GkPresRem else None
  | ULeave => if c_sub (u_ctx u) && o_jl (c_opts (u_ctx u)) then Some GkLeave else None
  | UHandler => if c_sub (u_ctx u) && hreg s then Some GkUnsubH else None
  | _ => None
  end.

Definition gate_of (s : st) (th : thread) : option gk :=
  match th with
  | TAtt a =>
      match a_pc a with
      | PHandler => Some GkSubH
      | PHubAdd2 => Some GkBrokerSub
      | PPresAdd => if o_pres (a_opts a) then Some GkPresAdd else None
      | PLostPresRem | PClosedPresRem => if o_pres (a_opts a) then Some GkPresRem else None
      | PFailPres => Some GkPresRem
      | PJoin => if o_jl (a_opts a) then Some GkJoin else None
      | _ => None
      end
  | TUns u => u_gate s u
  | TCls k =>
      match k_pc k with
      | CTransport => Some GkTransport
      | CLoop => match k_cur k with Some u => u_gate s u | None => None end
      | CDisc => if is_connected (k_prev k) then Some GkDiscH else None
      | _ => None
      end
  | TTck k =>
      match t_pc k with
      | TAlive => if hreg s then Some GkAliveH else None
      | TAdd => Some GkPresAdd
      | TCompRem => match t_rem k with _ :: _ => Some GkPresRem | [] => None end
      | _ => None
      end
  | TCon pc => match pc with KHandler => Some GkConnH | KAuth => Some GkConnecting | _ => None end
  | TJob _ => Some GkBrokerUnsub
  end.
