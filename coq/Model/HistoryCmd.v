(* Model of the client history / presence / presence-stats commands
     /repo/client.go  handleHistory, handlePresence, handlePresenceStats
     /repo/node.go    Node.history (reverse/since check, epoch check)
   on top of the memory stream broker model (Model/MemStream.v), and the
   specification of the history command written from property C43.
   Executable, no proofs here. *)
From Coq Require Import List NArith ZArith Bool.
From Cfg Require Import Model.MemStream Model.StreamSpec.
Import ListNotations.
Open Scope N_scope.

(* error codes of errors.go *)
Definition ErrBadRequest : N := 107.
Definition ErrUnrecoverablePosition : N := 112.

Inductive creply :=
| CErr (code : N)                          (* error reply *)
| COk (items : list item) (top ep : N).    (* HistoryResult: publications, offset, epoch *)

(* handleHistory: "if max > 0 && (limit < 0 || limit > max) { limit = max }" *)
Definition clamp (maxl limit : Z) : Z :=
  if ((0 <? maxl) && ((limit <? 0) || (maxl <? limit)))%Z then maxl else limit.

(* Node.history over the memory broker *)
Definition node_history (h : hub) (ch : N) (f : hfilter) (meta : N) : hub * creply :=
  let rev0 := match f_since f with Some (o, _) => f_rev f && (o =? 0) | None => false end in
  if rev0 then (h, CErr ErrBadRequest)
  else
    let '(h1, o) := hub_get h ch f meta in
    match o with
    | OHist items top ep =>
        match f_since f with
        | Some (_, se) =>
            if (se =? 0) || (se =? ep) then (h1, COk items top ep)
            else (h1, CErr ErrUnrecoverablePosition)
        | None => (h1, COk items top ep)
        end
    | _ => (h1, CErr 100)
    end.

(* handleHistory with the default OnHistory callback (reply.Result == nil):
   node.History(channel, WithHistoryFilter(filter)) - MetaTTL not set *)
Definition client_history (maxl : Z) (h : hub) (ch : N)
           (since : option (N * N)) (limit : Z) (rev : bool) : hub * creply :=
  node_history h ch (mkFilter since (clamp maxl limit) rev) 0.

(* presence / presence stats: the reply is the node-level result, converted
   field by field (infoToProto) *)
Record pentry := mkPentry { pe_client : N; pe_user : N; pe_conn : N; pe_chan : N }.
Definition presence_reply (node_result : list pentry) : list pentry := node_result.
Definition presence_stats_reply (node_result : N * N) : N * N := node_result.

(* ---------------- specification (property C43) ---------------- *)

(* the effective limit: a configured maximum caps the request; "no limit"
   (negative) means the maximum *)
Definition eff_limit (maxl limit : Z) : Z :=
  if (maxl <=? 0)%Z then limit
  else if (limit <? 0)%Z then maxl else Z.min limit maxl.

(* expected reply, given the channel's retained items / top / epoch *)
Definition spec_client_history (maxl : Z) (items : list item) (top ep : N)
           (since : option (N * N)) (limit : Z) (rev : bool) : creply :=
  let f := mkFilter since (eff_limit maxl limit) rev in
  match since with
  | Some (o, se) =>
      if rev && (o =? 0) then CErr ErrBadRequest
      else if (se =? 0) || (se =? ep) then COk (spec_filter top items f) top ep
      else CErr ErrUnrecoverablePosition
  | None => COk (spec_filter top items f) top ep
  end.

Definition creply_eqb (a b : creply) : bool :=
  match a, b with
  | CErr x, CErr y => x =? y
  | COk i1 t1 e1, COk i2 t2 e2 => list_eqb item_eqb i1 i2 && (t1 =? t2) && (e1 =? e2)
  | _, _ => false
  end.

Definition pentry_eqb (a b : pentry) : bool :=
  (pe_client a =? pe_client b) && (pe_user a =? pe_user b) &&
  (pe_conn a =? pe_conn b) && (pe_chan a =? pe_chan b).

Definition within_limit (maxl : Z) (r : creply) : bool :=
  match r with
  | COk items _ _ => (maxl <=? 0)%Z || (Z.of_nat (length items) <=? maxl)%Z
  | CErr _ => true
  end.
