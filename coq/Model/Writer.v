(* Executable model of /repo/writer.go (per-connection writer) as a labelled
   transition system over the ring queue model.

   Threads: producers (enqueue / enqueueMany), the flusher goroutine
   (waitSendMessage loop; modes MGo: writeDelay = 0, MDelay: writeDelay > 0),
   timer-mode flush invocations (writer.flush run by time.AfterFunc; mode
   MTimer), closers (writer.close), and the queue's delayed-shrink timer.
   One atomic action = one critical section of the queue mutex, one
   acquisition/release of writer.mu, one transport write, or one timer event.
   writer.mu is modelled by [owner]; a step that needs it is [Blocked] while
   another thread owns it.  A Go run-time panic inside the queue is [Panic].
   Time is abstracted: a timer is "armed" and may fire at any later point.
   No proofs in this file. *)
From Coq Require Import List NArith ZArith Bool Arith.
From Cfg Require Import Model.RingQueue.
Import ListNotations.

Inductive wmode := MGo | MDelay | MTimer.

Record wcfg := mkCfg {
  c_mode : wmode;
  c_max : option nat;       (* maxMessagesInFrame after defaulting; None = -1 (unlimited) *)
  c_maxq : Z;               (* MaxQueueSize; <= 0 means no limit *)
  c_shrink_delayed : bool;  (* effectiveShrinkDelay(..) <> 0 *)
  c_initcap : nat           (* queue initial capacity after the 0 => 2 defaulting *)
}.

Inductive eres := RNil | RClosed | RSlow.   (* nil | DisconnectConnectionClosed | DisconnectSlow *)

Inductive pc :=
(* producer: enqueue / enqueueMany *)
| PAdded                    (* Add returned true; next: MaxQueueSize check *)
| PSched                    (* timer mode; next: lock, schedule flush, unlock *)
| PDone (r : eres)
(* flusher goroutine: waitSendMessage *)
| G0                        (* about to call messages.Wait() *)
| GDelayChk                 (* writeDelay > 0: compare Len with maxMessagesInFrame *)
| GDelayWait                (* select { timer ; closeCh } *)
| GFinishExit               (* closeCh branch: FinishCollect, return false *)
| GLock                     (* about to lock w.mu *)
| GLen                      (* holds w.mu; unlimited frame: read Len *)
| GRemove (bufSize : nat)   (* holds w.mu; about to RemoveManyInto[Shrink] *)
| GWrite (items : list item)(* holds w.mu; about to call WriteFn / WriteManyFn *)
| GUnlock (err : bool)      (* holds w.mu; about to unlock *)
| GFinish (err : bool)      (* writeDelay > 0: FinishCollect after unlock *)
| GClosedChk                (* return !w.messages.Closed() *)
| GClosedChkFC              (* FinishCollect, then return !Closed() *)
| GExit
(* timer-mode flush invocation: writer.flush *)
| F0                        (* about to lock w.mu *)
| FLen                      (* holds w.mu, timerScheduled reset; read Len *)
| FRemove (bufSize : nat)
| FWrite (items : list item)
| FRearm (err : bool)       (* holds w.mu; re-schedule decision; unlock *)
| FFinish                   (* FinishCollect after unlock *)
| FDone
(* closer: writer.close(flushRemaining) *)
| C0 (flush : bool)         (* about to lock w.mu *)
| CCloseQ (flush : bool)    (* holds w.mu, w.closed set, timer stopped; close the queue *)
| CWrite (items : list item)(* holds w.mu; WriteManyFn(remaining) *)
| CUnlock                   (* close(closeCh); unlock *)
| CDone.

Definition holding (p : pc) : bool :=
  match p with
  | GLen | GRemove _ | GWrite _ | GUnlock _
  | FLen | FRemove _ | FWrite _ | FRearm _
  | CCloseQ _ | CWrite _ | CUnlock => true
  | _ => false
  end.

Record wst := mkW {
  wq : rq;
  wlog : list (list item * bool);   (* transport calls in order: batch, returned error? *)
  owner : option nat;               (* holder of writer.mu *)
  wclosed : bool;                   (* w.closed *)
  closeCh : bool;                   (* closeCh closed *)
  tsched : bool;                    (* w.timerScheduled *)
  tarmed : bool;                    (* flushTimer armed *)
  thr : list (nat * pc);            (* thread table, newest binding first *)
  enq : list item;                  (* ghost: items accepted by Add/AddMany, in queue order *)
  noflush : bool;                   (* ghost: Close() discarded an open queue *)
  flushdone : bool                  (* ghost: a close(true) finished flushing *)
}.

Fixpoint getpc (th : list (nat * pc)) (t : nat) : option pc :=
  match th with
  | [] => None
  | (t', p) :: th' => if t' =? t then Some p else getpc th' t
  end.

Inductive res := Next (s : wst) | Blocked | Panic.

Definition flusher_tid : nat := 0.

Definition winit (c : wcfg) : wst :=
  mkW (new (c_initcap c)) [] None false false false false
      (match c_mode c with MTimer => [] | _ => [(flusher_tid, G0)] end)
      [] false false.

(* ---- state update helpers ---- *)
Definition set_pc (s : wst) (t : nat) (p : pc) : wst :=
  mkW (wq s) (wlog s) (owner s) (wclosed s) (closeCh s) (tsched s) (tarmed s)
      ((t, p) :: thr s) (enq s) (noflush s) (flushdone s).
Definition set_q (s : wst) (q : rq) : wst :=
  mkW q (wlog s) (owner s) (wclosed s) (closeCh s) (tsched s) (tarmed s) (thr s) (enq s) (noflush s) (flushdone s).
Definition set_owner (s : wst) (o : option nat) : wst :=
  mkW (wq s) (wlog s) o (wclosed s) (closeCh s) (tsched s) (tarmed s) (thr s) (enq s) (noflush s) (flushdone s).
Definition set_timer (s : wst) (sched armed : bool) : wst :=
  mkW (wq s) (wlog s) (owner s) (wclosed s) (closeCh s) sched armed (thr s) (enq s) (noflush s) (flushdone s).
Definition add_log (s : wst) (b : list item) (err : bool) : wst :=
  mkW (wq s) (wlog s ++ [(b, err)]) (owner s) (wclosed s) (closeCh s) (tsched s) (tarmed s) (thr s) (enq s) (noflush s) (flushdone s).
Definition add_enq (s : wst) (is : list item) : wst :=
  mkW (wq s) (wlog s) (owner s) (wclosed s) (closeCh s) (tsched s) (tarmed s) (thr s) (enq s ++ is) (noflush s) (flushdone s).
Definition set_wclosed (s : wst) : wst :=
  mkW (wq s) (wlog s) (owner s) true (closeCh s) (tsched s) false (thr s) (enq s) (noflush s) (flushdone s).
Definition set_closeCh (s : wst) : wst :=
  mkW (wq s) (wlog s) (owner s) (wclosed s) true (tsched s) (tarmed s) (thr s) (enq s) (noflush s) (flushdone s).
Definition set_noflush (s : wst) (b : bool) : wst :=
  mkW (wq s) (wlog s) (owner s) (wclosed s) (closeCh s) (tsched s) (tarmed s) (thr s) (enq s) b (flushdone s).
Definition set_flushdone (s : wst) : wst :=
  mkW (wq s) (wlog s) (owner s) (wclosed s) (closeCh s) (tsched s) (tarmed s) (thr s) (enq s) (noflush s) true.

(* a queue operation that may panic *)
Definition qdo {A} (x : option A) (k : A -> res) : res :=
  match x with Some a => k a | None => Panic end.

(* acquire writer.mu *)
Definition lock (s : wst) (t : nat) (k : wst -> res) : res :=
  match owner s with None => k (set_owner s (Some t)) | Some _ => Blocked end.

Definition finish (c : wcfg) (s : wst) (k : wst -> res) : res :=
  qdo (finish_collect (wq s) (c_shrink_delayed c)) (fun q => k (set_q s q)).

Inductive label :=
| LEnq (t : nat) (is : list item) (many : bool)  (* a new producer runs Add (many=false, one item) / AddMany *)
| LClose (t : nat) (flush : bool)                (* a new closer thread is started *)
| LTimerFire (t : nat)                           (* the flush timer fires: new flush invocation t *)
| LShrinkFire                                    (* the queue's delayed-shrink timer fires *)
| LStep (t : nat)                                (* thread t performs its next atomic action *)
| LWake (t : nat)                                (* flusher blocked in cond.Wait is woken (Signal/Broadcast) *)
| LDelay (t : nat)                               (* flusher's write-delay timer elapses *)
| LWrite (t : nat) (err : bool).                 (* the transport call of thread t returns (err = failed) *)

Definition after_wait (c : wcfg) : pc :=
  match c_mode c with MDelay => GDelayChk | _ => GLock end.

Definition step_thread (c : wcfg) (s : wst) (t : nat) (p : pc) : res :=
  match p with
  | PAdded =>
      if (0 <? c_maxq c)%Z && (c_maxq c <? qsize (wq s))%Z then Next (set_pc s t (PDone RSlow))
      else match c_mode c with
           | MTimer => Next (set_pc s t PSched)
           | _ => Next (set_pc s t (PDone RNil))
           end
  | PSched =>
      match owner s with
      | Some _ => Blocked
      | None =>
          let s1 := if negb (wclosed s) && negb (tsched s) then set_timer s true true else s in
          Next (set_pc s1 t (PDone RNil))
      end
  | PDone _ => Blocked
  | G0 =>
      if qclosed (wq s) then Next (set_pc s t GExit)
      else if cnt (wq s) =? 0 then Blocked
      else Next (set_pc s t (after_wait c))
  | GDelayChk =>
      match c_max c with
      | None => Next (set_pc s t GDelayWait)
      | Some m => if cnt (wq s) <? m then Next (set_pc s t GDelayWait) else Next (set_pc s t GLock)
      end
  | GDelayWait => if closeCh s then Next (set_pc s t GFinishExit) else Blocked
  | GFinishExit => finish c s (fun s1 => Next (set_pc s1 t GExit))
  | GLock =>
      lock s t (fun s1 =>
        Next (set_pc s1 t (match c_max c with None => GLen | Some m => GRemove m end)))
  | GLen =>
      if cnt (wq s) =? 0 then
        Next (set_pc (set_owner s None) t (match c_mode c with MDelay => G0 | _ => GClosedChk end))
      else Next (set_pc s t (GRemove (cnt (wq s))))
  | GRemove b =>
      qdo (match c_mode c with
           | MDelay => remove_many_into (wq s) b (Some b)
           | _ => remove_many_into_shrink (wq s) b (Some b)
           end) (fun '(q, r) =>
        match r with
        | None => Next (set_pc (set_owner (set_q s q) None) t
                          (match c_mode c with MDelay => GClosedChkFC | _ => GClosedChk end))
        | Some items => Next (set_pc (set_q s q) t (GWrite items))
        end)
  | GWrite _ => Blocked
  | GUnlock err =>
      Next (set_pc (set_owner s None) t
              (match c_mode c with
               | MDelay => GFinish err
               | _ => if err then GExit else G0
               end))
  | GFinish err => finish c s (fun s1 => Next (set_pc s1 t (if err then GExit else G0)))
  | GClosedChk => Next (set_pc s t (if qclosed (wq s) then GExit else G0))
  | GClosedChkFC => finish c s (fun s1 => Next (set_pc s1 t GClosedChk))
  | GExit => Blocked
  | F0 => lock s t (fun s1 => Next (set_pc (set_timer s1 false (tarmed s1)) t FLen))
  | FLen =>
      if cnt (wq s) =? 0 then Next (set_pc (set_owner s None) t FDone)
      else Next (set_pc s t (FRemove (match c_max c with None => cnt (wq s) | Some m => m end)))
  | FRemove b =>
      qdo (remove_many_into (wq s) b (Some b)) (fun '(q, r) =>
        match r with
        | None => Next (set_pc (set_owner (set_q s q) None) t FFinish)
        | Some items => Next (set_pc (set_q s q) t (FWrite items))
        end)
  | FWrite _ => Blocked
  | FRearm err =>
      let s1 := if negb err && negb (cnt (wq s) =? 0) && negb (wclosed s) && negb (tsched s)
                then set_timer s true true else s in
      Next (set_pc (set_owner s1 None) t FFinish)
  | FFinish => finish c s (fun s1 => Next (set_pc s1 t FDone))
  | FDone => Blocked
  | C0 flush =>
      lock s t (fun s1 =>
        if wclosed s1 then Next (set_pc (set_owner s1 None) t CDone)
        else Next (set_pc (set_wclosed s1) t (CCloseQ flush)))
  | CCloseQ true =>
      qdo (close_remaining (wq s)) (fun '(q, rem) =>
        match rem with
        | [] => Next (set_pc (set_flushdone (set_q s q)) t CUnlock)
        | _ => Next (set_pc (set_q s q) t (CWrite rem))
        end)
  | CCloseQ false =>
      Next (set_pc (set_noflush (set_q s (close (wq s))) true) t CUnlock)
  | CWrite _ => Blocked
  | CUnlock => Next (set_pc (set_owner (set_closeCh s) None) t CDone)
  | CDone => Blocked
  end.

Definition astep (c : wcfg) (s : wst) (l : label) : res :=
  match l with
  | LEnq t is many =>
      match getpc (thr s) t with
      | Some _ => Blocked
      | None =>
          match many, is with
          | false, [i] =>
              qdo (add (wq s) i) (fun '(q, ok) =>
                if ok then Next (set_pc (add_enq (set_q s q) is) t PAdded)
                else Next (set_pc (set_q s q) t (PDone RClosed)))
          | false, _ => Blocked
          | true, _ =>
              qdo (add_many (wq s) is) (fun '(q, ok) =>
                if ok then Next (set_pc (add_enq (set_q s q) is) t PAdded)
                else Next (set_pc (set_q s q) t (PDone RClosed)))
          end
      end
  | LClose t flush =>
      match getpc (thr s) t with
      | Some _ => Blocked
      | None => Next (set_pc s t (C0 flush))
      end
  | LTimerFire t =>
      match getpc (thr s) t with
      | Some _ => Blocked
      | None => if tarmed s then Next (set_pc (set_timer s (tsched s) false) t F0) else Blocked
      end
  | LShrinkFire =>
      if shrinkArmed (wq s) then qdo (shrink_fire (wq s)) (fun q => Next (set_q s q)) else Blocked
  | LStep t =>
      match getpc (thr s) t with
      | Some p => step_thread c s t p
      | None => Blocked
      end
  | LWake t =>
      match getpc (thr s) t with
      | Some G0 => Next (set_pc s t (after_wait c))
      | _ => Blocked
      end
  | LDelay t =>
      match getpc (thr s) t with
      | Some GDelayWait => Next (set_pc s t GLock)
      | _ => Blocked
      end
  | LWrite t err =>
      match getpc (thr s) t with
      | Some (GWrite items) => Next (set_pc (add_log s items err) t (GUnlock err))
      | Some (FWrite items) => Next (set_pc (add_log s items err) t (FRearm err))
      | Some (CWrite items) => Next (set_pc (set_flushdone (add_log s items err)) t CUnlock)
      | _ => Blocked
      end
  end.

(* a schedule = list of labels; every label must be enabled *)
Fixpoint wrun (c : wcfg) (s : wst) (sched : list label) : res :=
  match sched with
  | [] => Next s
  | l :: sched' =>
      match astep c s l with
      | Next s1 => wrun c s1 sched'
      | r => r
      end
  end.

(* ---- observables ---- *)
Definition attempted (s : wst) : list item := concat (map fst (wlog s)).
Definition delivered (s : wst) : list item :=
  concat (map fst (filter (fun be => negb (snd be)) (wlog s))).
Definition write_failed (s : wst) : bool := existsb snd (wlog s).

(* items removed from the queue by the holder of writer.mu and not yet handed to the transport *)
Definition items_of (p : pc) : list item :=
  match p with GWrite is | FWrite is | CWrite is => is | _ => [] end.
Definition inflight (s : wst) : list item :=
  match owner s with
  | Some t => match getpc (thr s) t with Some p => items_of p | None => [] end
  | None => []
  end.
Definition closing (p : pc) : bool :=
  match p with CCloseQ _ | CWrite _ => true | _ => false end.
