(* Labelled transition system of ONE connection / ONE channel / ONE subscription
   attempt against a broker stream with in-flight PUB/SUB deliveries.
   Used by C01 (and C10).  Executable, no proofs here.

   Code mirrored (function names; line numbers drift):
     client.go        validateSubscribeRequest / Client.Subscribe (reserve),
                      subscribeCmd (StartBuffering, addSubscription, history read,
                      LockBufferAndReadBuffered + MergePublications, reply, commit,
                      StopBuffering), commitSubscription, getSubscribePushReply,
                      writePublication, writePublicationUpdatePosition, writeJoin/Leave,
                      handleInsufficientState, handleAsyncUnsubscribe, unsubscribe,
                      handleUnsubscribe, Client.Unsubscribe, close
     internal/recovery/sync.go   PubSubSync (SyncPublication/StartBuffering/
                      LockBufferAndReadBuffered/StopBuffering)
     hub.go           subShard.broadcastPublication (holds subShard.mu.RLock for the whole
                      fan-out: HubAdd/HubRemove cannot interleave with a delivery)
     broker_memory.go + internal/memstream  (history stream: top, epoch, retained suffix)

   One model action = one lock section / one call into a driver-visible interface.
   A publication is (offset, epoch index, filtered-for-this-subscription?). Epoch 0 is
   the empty epoch string; stream epochs are >= 1 and fresh after a reset. *)
From Coq Require Import List NArith Bool.
From Cfg Require Import Model.Merge.
Import ListNotations.
Open Scope N_scope.

Record pubT := mkP { po : N; pe : N; pf : bool }.

Inductive tok := TPub (p : pubT) | TJoin | TLeave
  | TMark.   (* the channel medium's insufficient-state marker: Publication{Offset: MaxUint64}, empty epoch *)

Inductive variant := VClient | VServer
  | VConnect.   (* connect-time server-side subscription (ConnectReply.Subscriptions): subscribeCmd
                   with serverSide=true run by connectCmd; the subscription result travels in the
                   connect reply, which is written BEFORE the finalize (commit) and the buffer
                   release -- the same order as the client command path -- while insufficient
                   state is handled the server-side way (disconnect) *)

(* Subscription parameters (fixed for a run).  [c_fix_anchor] / [c_fix_srvpubs]
   select the PATCHED behaviour proposed for the two C01 findings; the code as it
   stands corresponds to both flags = false. *)
Record cfg := mkCfg {
  c_var : variant;        (* client subscribe command | server-side Client.Subscribe *)
  c_pos : bool;           (* EnablePositioning || EnableRecovery *)
  c_rec : bool;           (* recovery requested: req.Recover / RecoverSince (needs c_pos) *)
  c_since : N;            (* requested offset *)
  c_since_ep : N;         (* requested epoch (0 = "") *)
  c_jl : bool;            (* PushJoinLeave *)
  c_fix_anchor : bool;
  c_fix_srvpubs : bool;
  c_batch : bool;         (* per-channel batching (GetChannelBatchConfig with MaxDelay/MaxSize) *)
  c_fix_off0 : bool;      (* PATCH (C10): offset-less publications check flagSubscribed too *)
  c_fix_srvorder : bool;  (* PATCH (C10): Client.Subscribe writes its push BEFORE the commit *)
  c_fix_delw : bool       (* PATCH (C10): unsubscribe deletes the channel writer AFTER the hub removal *)
}.

Inductive frame :=
  | FSubReply (recovered : bool) (pubs : list pubT) (off ep : N)
  | FSubPush (off ep : N)
  | FPub (p : pubT)
  | FJoin | FLeave
  | FUnsubReply
  | FUnsubPush (code : N)
  | FDisconnect (code : N).

Definition code_unsub_server : N := 2000.
Definition code_unsub_insufficient : N := 2500.
Definition code_disc_insufficient : N := 3010.
Definition code_disc_other : N := 3000.

Inductive chan := NoCh | Reserved | Sub (pos pep : N).

Record hres := mkH { h_pubs : list pubT; h_top : N; h_ep : N; h_recovered : bool }.
Record subres := mkRes { r_recovered : bool; r_pubs : list pubT; r_off : N; r_ep : N; r_pos : N }.

(* program counter of the subscribe thread *)
Inductive spc :=
  | SIdle | SReserved | SBuffering | SHubAdded
  | SHist (h : hres)
  | SMerged (r : subres)
  | SReplied (r : subres)        (* client: reply enqueued, not yet committed *)
  | SCommitted                   (* client: committed, StopBuffering pending *)
  | SSrvCommitted (r : subres)   (* server: committed, subscribe push pending *)
  | SSrvStop                     (* server: StopBuffering pending *)
  | SDone
  | SFailStop | SFailRollback | SFailDisc | SFailed.

Inductive phase := PSync | PCheck | PEnq.
Inductive dstate :=
  | DIdle
  | DPub (p : pubT) (lag : bool) (ph : phase)
  | DJL (join : bool) (ph : phase)       (* PCheck | PEnq only *)
  | DMark.                               (* the marker, before its position check *)

(* unsubscribe-like threads: client command, server API, async insufficient-state *)
Inductive ukind := UClient | UServer | UInsuff.
Inductive upc := UIdle | UHub (k : ukind) | UOut (k : ukind).

Record st := mkSt {
  (* broker stream *)
  b_ep : N; b_top : N; b_items : list pubT; b_fresh : N;
  g_log : list pubT;            (* ghost: every publication ever published *)
  fl : list tok;                (* in-flight delivery tokens *)
  (* PubSubSync entry of the channel *)
  ps_entry : bool; ps_insub : bool; ps_locked : bool; ps_buf : list pubT;
  hub : bool;                   (* hub has the (channel, client) entry *)
  ch : chan;                    (* c.channels[channel] *)
  closed : bool;                (* status closed / writer closed *)
  pc : spc;
  dl : dstate;
  up : upc;
  pending : nat;                (* spawned, not yet run insufficient-state goroutines *)
  cleanup : bool;               (* close(): unsubscribe loop still to run *)
  g_pos : N;                    (* ghost: last position installed for the subscription *)
  log : list frame;             (* transport, oldest first *)
  cw : list frame               (* per-channel writer buffer (batching only) *)
}.

Definition init : st :=
  mkSt 1 0 [] 2 [] [] false false false [] false NoCh false SIdle DIdle UIdle 0%nat false 0 [] [].

(* ---- functional record updates ---- *)
Definition set_broker (s : st) ep top items fresh glog fl' : st :=
  mkSt ep top items fresh glog fl' (ps_entry s) (ps_insub s) (ps_locked s) (ps_buf s) (hub s) (ch s)
       (closed s) (pc s) (dl s) (up s) (pending s) (cleanup s) (g_pos s) (log s) (cw s).
Definition set_fl (s : st) fl' : st :=
  set_broker s (b_ep s) (b_top s) (b_items s) (b_fresh s) (g_log s) fl'.
Definition set_ps (s : st) e i l b : st :=
  mkSt (b_ep s) (b_top s) (b_items s) (b_fresh s) (g_log s) (fl s) e i l b (hub s) (ch s)
       (closed s) (pc s) (dl s) (up s) (pending s) (cleanup s) (g_pos s) (log s) (cw s).
Definition set_hub (s : st) h : st :=
  mkSt (b_ep s) (b_top s) (b_items s) (b_fresh s) (g_log s) (fl s) (ps_entry s) (ps_insub s) (ps_locked s)
       (ps_buf s) h (ch s) (closed s) (pc s) (dl s) (up s) (pending s) (cleanup s) (g_pos s) (log s) (cw s).
Definition set_ch (s : st) c gp : st :=
  mkSt (b_ep s) (b_top s) (b_items s) (b_fresh s) (g_log s) (fl s) (ps_entry s) (ps_insub s) (ps_locked s)
       (ps_buf s) (hub s) c (closed s) (pc s) (dl s) (up s) (pending s) (cleanup s) gp (log s) (cw s).
Definition set_closed (s : st) c cl : st :=
  mkSt (b_ep s) (b_top s) (b_items s) (b_fresh s) (g_log s) (fl s) (ps_entry s) (ps_insub s) (ps_locked s)
       (ps_buf s) (hub s) (ch s) c (pc s) (dl s) (up s) (pending s) cl (g_pos s) (log s) (cw s).
Definition set_pc (s : st) p : st :=
  mkSt (b_ep s) (b_top s) (b_items s) (b_fresh s) (g_log s) (fl s) (ps_entry s) (ps_insub s) (ps_locked s)
       (ps_buf s) (hub s) (ch s) (closed s) p (dl s) (up s) (pending s) (cleanup s) (g_pos s) (log s) (cw s).
Definition set_dl (s : st) d : st :=
  mkSt (b_ep s) (b_top s) (b_items s) (b_fresh s) (g_log s) (fl s) (ps_entry s) (ps_insub s) (ps_locked s)
       (ps_buf s) (hub s) (ch s) (closed s) (pc s) d (up s) (pending s) (cleanup s) (g_pos s) (log s) (cw s).
Definition set_up (s : st) u : st :=
  mkSt (b_ep s) (b_top s) (b_items s) (b_fresh s) (g_log s) (fl s) (ps_entry s) (ps_insub s) (ps_locked s)
       (ps_buf s) (hub s) (ch s) (closed s) (pc s) (dl s) u (pending s) (cleanup s) (g_pos s) (log s) (cw s).
Definition set_pending (s : st) n : st :=
  mkSt (b_ep s) (b_top s) (b_items s) (b_fresh s) (g_log s) (fl s) (ps_entry s) (ps_insub s) (ps_locked s)
       (ps_buf s) (hub s) (ch s) (closed s) (pc s) (dl s) (up s) n (cleanup s) (g_pos s) (log s) (cw s).
(* enqueue into the connection writer: nothing is written once the writer is closed *)
Definition emit (s : st) (f : frame) : st :=
  if closed s then s else
  mkSt (b_ep s) (b_top s) (b_items s) (b_fresh s) (g_log s) (fl s) (ps_entry s) (ps_insub s) (ps_locked s)
       (ps_buf s) (hub s) (ch s) (closed s) (pc s) (dl s) (up s) (pending s) (cleanup s) (g_pos s) (log s ++ [f]) (cw s).
Fixpoint emits (s : st) (fs : list frame) : st :=
  match fs with [] => s | f :: fs' => emits (emit s f) fs' end.
Definition set_cw (s : st) (b : list frame) : st :=
  mkSt (b_ep s) (b_top s) (b_items s) (b_fresh s) (g_log s) (fl s) (ps_entry s) (ps_insub s) (ps_locked s)
       (ps_buf s) (hub s) (ch s) (closed s) (pc s) (dl s) (up s) (pending s) (cleanup s) (g_pos s) (log s) b.
(* writeEncodedPushData for a publication / join / leave push of the channel: with a batch
   config the item goes to the channel's writer (perChannelWriter.Add creates the writer if
   it does not exist) and reaches the connection queue at a later flush *)
Definition emit_push (c : cfg) (s : st) (f : frame) : st :=
  if c_batch c then set_cw s (cw s ++ [f]) else emit s f.

(* ---- broker (broker_memory.go historyHub + memstream.Stream) ---- *)
Fixpoint lastn {A} (n : nat) (l : list A) : list A :=
  if Nat.leb (length l) n then l else match l with [] => [] | _ :: l' => lastn n l' end.

Fixpoint from_off (o : N) (l : list pubT) : option (list pubT) :=
  match l with
  | [] => None
  | p :: l' => if po p =? o then Some l else from_off o l'
  end.

(* memstream.Get(since+1, useOffset, NoLimit, forward) *)
Definition hist_get (items : list pubT) (top since : N) : list pubT :=
  if top <=? since then []
  else match from_off (since + 1) items with Some sfx => sfx | None => items end.

(* historyHub.getLocked with Filter.Since *)
Definition history_since (s : st) (since since_ep : N) : list pubT :=
  if (b_top s =? since) && (since_ep =? b_ep s) then [] else hist_get (b_items s) (b_top s) since.

Definition last_po (l : list pubT) : N := po (last l (mkP 0 0 false)).

(* Node.recoverHistory + Node.history epoch check + isStreamRecovered *)
Definition recover_read (c : cfg) (s : st) : hres :=
  let pubs := history_since s (c_since c) (c_since_ep c) in
  let epoch_ok := (c_since_ep c =? 0) || (c_since_ep c =? b_ep s) in
  if negb epoch_ok then mkH [] (b_top s) (b_ep s) false
  else
    let recovered :=
      match pubs with
      | [] => b_top s =? c_since c
      | p :: _ => (po p =? c_since c + 1) && (last_po pubs =? b_top s)
      end in
    if recovered then mkH pubs (b_top s) (b_ep s) true else mkH [] (b_top s) (b_ep s) false.

Definition history_read (c : cfg) (s : st) : hres :=
  if c_pos c then
    if c_rec c then recover_read c s
    else mkH [] (b_top s) (b_ep s) false        (* Node.streamTop *)
  else mkH [] 0 0 false.

(* ---- merge and reply construction (subscribeCmd after the history read) ---- *)
Definition to_mp (p : pubT) : pub := mkPub (po p) (pf p) (pe p).
Definition of_mp (q : pub) : pubT := mkP (p_off q) (p_id q) false.
Definition last_off (l : list pub) : N := p_off (last l (mkPub 0 false 0)).

Definition do_merge (c : cfg) (h : hres) (buf : list pubT) : option subres :=
  if negb (c_pos c) then Some (mkRes false [] 0 0 0) else
  let '(out, maxo, ok) := merge (map to_mp (h_pubs h)) (map to_mp buf) in
  if negb ok then None else
  let l1 := match out with [] => h_top h | _ => if h_top h <? last_off out then last_off out else h_top h end in
  let l2 := if l1 <? maxo then maxo else l1 in
  if h_recovered h then
    if c_fix_anchor c then
      (* PATCH: anchor the recovered reply at the requested offset: stale publications
         (offset <= since) are not re-sent and (since, maxSeen] must be fully accounted *)
      if range_covered (c_since c + 1) (maxo + 1) (map po (h_pubs h ++ buf))
      then Some (mkRes true (map of_mp (filter (fun q => c_since c <? p_off q) out)) (c_since c) (h_ep h) l2)
      else None
    else Some (mkRes true (map of_mp out) (c_since c) (h_ep h) l2)
  else Some (mkRes false [] l2 (h_ep h) l2).

(* ---- labels ---- *)
Inductive label :=
  (* environment / broker / PUB-SUB faults *)
  | LPublish (f : bool) (size : nat)        (* publish with history (HistorySize = size >= 1) *)
  | LPublishNoHist (f : bool)               (* publish without history: offset 0 *)
  | LJoinEv | LLeaveEv                      (* broker emits a join / leave message *)
  | LMarker                                 (* the channel medium broadcasts its insufficient-state marker *)
  | LDrop (i : nat) | LDup (i : nat)
  | LClearHistory | LEpochReset
  (* delivery thread (one broadcast at a time per channel) *)
  | LDeliver (i : nat) (lag : bool)         (* any token: reordering / delay = choice of i *)
  | LSync | LCheck | LEnqueue
  | LFlush                                  (* channel writer flush (timer / size) *)
  (* subscribe thread *)
  | LReserve | LStartBuf | LHubAdd | LHistRead | LMerge
  | LWriteReply | LCommit | LSrvPush | LStopBuf
  | LFailStop | LFailRollback | LFailDisc
  (* unsubscribe threads *)
  | LUnsub (k : ukind)                      (* delete the channel context (c.mu) *)
  | LUnsubHub                               (* removeSubscription (subShard.mu write lock) *)
  | LUnsubOut                               (* unsubscribe reply / push *)
  | LAsyncDisc                              (* server-side insufficient state: close(3010) *)
  | LClose | LCloseCleanup.

Fixpoint remove_nth {A} (i : nat) (l : list A) : list A :=
  match i, l with
  | _, [] => []
  | O, _ :: l' => l'
  | S i', x :: l' => x :: remove_nth i' l'
  end.

Definition dl_idle (s : st) : bool := match dl s with DIdle => true | _ => false end.
Definition up_idle (s : st) : bool := match up s with UIdle => true | _ => false end.
Definition sub_quiet (s : st) : bool :=
  match pc s with SIdle | SDone | SFailed => true | _ => false end.
Definition sub_finished (s : st) : bool :=
  match pc s with SDone | SFailed => true | _ => false end.
Definition is_server (c : cfg) : bool := match c_var c with VServer => true | _ => false end.
(* flagServerSide: insufficient state closes the connection instead of unsubscribing *)
Definition insuff_disc (c : cfg) : bool := match c_var c with VClient => false | _ => true end.

(* writePublicationUpdatePosition *)
Definition check_pub (c : cfg) (s : st) (p : pubT) (lag : bool) : st :=
  match ch s with
  | Sub pos pep =>
      if negb (c_pos c) then
        if pf p then set_dl s DIdle else set_dl s (DPub p lag PEnq)
      else if lag then set_dl (set_pending s (S (pending s))) DIdle
      else
        let adopt := negb (pe p =? pep) && (pep =? 0) in
        if negb (pe p =? pep) && negb (pep =? 0) then set_dl (set_pending s (S (pending s))) DIdle
        else
          let pep' := if adopt then pe p else pep in
          let s1 := if adopt then set_ch s (Sub pos pep') (g_pos s) else s in
          if pos + 1 <? po p then set_dl (set_pending s1 (S (pending s1))) DIdle
          else if po p <? pos + 1 then set_dl s1 DIdle
          else
            let s2 := set_ch s1 (Sub (po p) pep') (po p) in
            if pf p then set_dl s2 DIdle else set_dl s2 (DPub p lag PEnq)
  | _ => set_dl s DIdle
  end.

Definition unsub_out_frame (k : ukind) : frame :=
  match k with
  | UClient => FUnsubReply
  | UServer => FUnsubPush code_unsub_server
  | UInsuff => FUnsubPush code_unsub_insufficient
  end.

Definition step (c : cfg) (s : st) (l : label) : option st :=
  match l with
  (* ---------------- broker ---------------- *)
  | LPublish f size =>
      match size with O => None | _ =>
      let p := mkP (b_top s + 1) (b_ep s) f in
      Some (set_broker s (b_ep s) (b_top s + 1) (lastn size (b_items s ++ [p])) (b_fresh s)
                       (g_log s ++ [p]) (fl s ++ [TPub p]))
      end
  | LPublishNoHist f =>
      let p := mkP 0 0 f in
      Some (set_broker s (b_ep s) (b_top s) (b_items s) (b_fresh s) (g_log s ++ [p]) (fl s ++ [TPub p]))
  | LJoinEv => Some (set_fl s (fl s ++ [TJoin]))
  | LLeaveEv => Some (set_fl s (fl s ++ [TLeave]))
  | LMarker => Some (set_fl s (fl s ++ [TMark]))
  | LDrop i => match nth_error (fl s) i with Some _ => Some (set_fl s (remove_nth i (fl s))) | None => None end
  | LDup i => match nth_error (fl s) i with Some t => Some (set_fl s (fl s ++ [t])) | None => None end
  | LClearHistory => Some (set_broker s (b_ep s) (b_top s) [] (b_fresh s) (g_log s) (fl s))
  | LEpochReset => Some (set_broker s (b_fresh s) 0 [] (b_fresh s + 1) (g_log s) (fl s))
  (* ---------------- delivery ---------------- *)
  | LDeliver i lag =>
      if negb (dl_idle s) then None else
      match nth_error (fl s) i with
      | None => None
      | Some t =>
          let s1 := set_fl s (remove_nth i (fl s)) in
          if negb (hub s) then Some s1            (* no subscriber entry: dropped at the hub *)
          else match t with
               | TPub p =>
                   if po p =? 0 then               (* writePublication, Offset == 0 branch: no
                                                      subscription check as the code stands *)
                     if pf p then Some s1
                     else if c_fix_off0 c
                          then match ch s with
                               | Sub _ _ => Some (set_dl s1 (DPub p lag PEnq))
                               | _ => Some s1
                               end
                          else Some (set_dl s1 (DPub p lag PEnq))
                   else Some (set_dl s1 (DPub p lag PSync))
               | TJoin => Some (set_dl s1 (DJL true PCheck))
               | TLeave => Some (set_dl s1 (DJL false PCheck))
               | TMark =>
                   (* modelled only outside the subscribe window (no PubSubSync entry): there
                      SyncPublication passes it straight to the position check *)
                   if ps_entry s then None else Some (set_dl s1 DMark)
               end
      end
  | LSync =>
      match dl s with
      | DPub p lag PSync =>
          if negb (ps_entry s) then Some (set_dl s (DPub p lag PCheck))
          else if ps_locked s then None            (* blocked on pubBufferMu *)
          else if ps_insub s then
            Some (set_dl (set_ps s (ps_entry s) (ps_insub s) (ps_locked s) (ps_buf s ++ [p])) DIdle)
          else Some (set_dl s (DPub p lag PCheck))
      | _ => None
      end
  | LCheck =>
      match dl s with
      | DPub p lag PCheck => Some (check_pub c s p lag)
      | DMark =>
          (* writePublicationUpdatePosition with pub.Offset = MaxUint64 and an empty epoch:
             a positioned subscription takes the epoch-mismatch (or, after adopting an empty
             epoch, the gap) branch; a non-positioned one returns before writing anything *)
          match ch s with
          | Sub _ _ => if c_pos c then Some (set_dl (set_pending s (S (pending s))) DIdle)
                       else Some (set_dl s DIdle)
          | _ => Some (set_dl s DIdle)
          end
      | DJL j PCheck =>
          match ch s with
          | Sub _ _ => if c_jl c then Some (set_dl s (DJL j PEnq)) else Some (set_dl s DIdle)
          | _ => Some (set_dl s DIdle)
          end
      | _ => None
      end
  | LEnqueue =>
      match dl s with
      | DPub p _ PEnq => Some (set_dl (emit_push c s (FPub p)) DIdle)
      | DJL j PEnq => Some (set_dl (emit_push c s (if j then FJoin else FLeave)) DIdle)
      | _ => None
      end
  | LFlush =>
      match cw s with
      | [] => None
      | fs => Some (set_cw (emits s fs) [])
      end
  (* ---------------- subscribe thread ---------------- *)
  | LReserve =>
      match pc s, ch s with
      | SIdle, NoCh => if closed s then None else Some (set_pc (set_ch s Reserved (g_pos s)) SReserved)
      | _, _ => None
      end
  | LStartBuf =>
      match pc s with
      | SReserved =>
          if c_pos c then Some (set_pc (set_ps s true true false []) SBuffering)
          else Some (set_pc s SBuffering)
      | _ => None
      end
  | LHubAdd =>
      match pc s with
      | SBuffering => if dl_idle s then Some (set_pc (set_hub s true) SHubAdded) else None
      | _ => None
      end
  | LHistRead =>
      match pc s with
      | SHubAdded => Some (set_pc s (SHist (history_read c s)))
      | _ => None
      end
  | LMerge =>
      match pc s with
      | SHist h =>
          (* LockBufferAndReadBuffered: takes pubBufferMu (held until StopBuffering) *)
          let s1 := if c_pos c then set_ps s (ps_entry s) (ps_insub s) true [] else s in
          match do_merge c h (ps_buf s) with
          | Some r => Some (set_pc s1 (SMerged r))
          | None => Some (set_pc s1 SFailStop)
          end
      | _ => None
      end
  | LWriteReply =>
      match pc s, is_server c with
      | SMerged r, false =>
          Some (set_pc (emit s (FSubReply (r_recovered r) (r_pubs r) (r_off r) (r_ep r))) (SReplied r))
      | _, _ => None
      end
  | LCommit =>
      match pc s with
      | SReplied r =>   (* client path; patched server path (push already written) *)
          Some (set_pc (set_ch s (Sub (r_pos r) (r_ep r)) (r_pos r)) SCommitted)
      | SMerged r =>
          if is_server c && negb (c_fix_srvorder c)
          then Some (set_pc (set_ch s (Sub (r_pos r) (r_ep r)) (r_pos r)) (SSrvCommitted r))
          else None
      | _ => None
      end
  | LSrvPush =>
      match pc s with
      | SSrvCommitted r =>
          (* PATCH (c_fix_srvpubs): the recovered publications follow the subscribe push as
             publication pushes (modelled as one enqueue burst; live publications of the
             channel are still held back by the locked buffer at this point) *)
          let pubs := if c_fix_srvpubs c then map FPub (r_pubs r) else [] in
          Some (set_pc (emits s (FSubPush (r_off r) (r_ep r) :: pubs)) SSrvStop)
      | SMerged r =>
          (* PATCH (c_fix_srvorder): push first, then commit -- from here on the thread goes
             through the same states as the client path (SReplied, SCommitted) *)
          if is_server c && c_fix_srvorder c then
            let pubs := if c_fix_srvpubs c then map FPub (r_pubs r) else [] in
            Some (set_pc (emits s (FSubPush (r_off r) (r_ep r) :: pubs)) (SReplied r))
          else None
      | _ => None
      end
  | LStopBuf =>
      match pc s with
      | SCommitted | SSrvStop => Some (set_pc (set_ps s false false false []) SDone)
      | _ => None
      end
  | LFailStop =>
      match pc s with
      | SFailStop => Some (set_pc (set_ps s false false false []) SFailRollback)
      | _ => None
      end
  | LFailRollback =>
      (* onSubscribeErrorGen: drop the reservation (c.mu), then removeSubscription *)
      match pc s with
      | SFailRollback =>
          if dl_idle s then Some (set_pc (set_hub (set_ch s NoCh (g_pos s)) false) SFailDisc) else None
      | _ => None
      end
  | LFailDisc =>
      match pc s with
      | SFailDisc =>
          match c_var c with
          | VClient | VConnect => (* the command (subscribe / connect) ends with close(DisconnectInsufficientState) *)
              Some (set_pc (set_closed (set_cw (emits s (cw s ++ [FDisconnect code_disc_insufficient])) []) true false) SFailed)
          | VServer => Some (set_pc s SFailed)      (* error returned to the caller, no frame *)
          end
      | _ => None
      end
  (* ---------------- unsubscribe threads ---------------- *)
  | LUnsub k =>
      if negb (up_idle s) then None else
      match k with
      | UInsuff =>
          match pending s with
          | O => None
          | S n =>
              if insuff_disc c then None else
              match ch s with
              | Reserved => None
              | Sub _ _ => Some (set_up (set_ch (set_cw (set_pending s n) (if c_fix_delw c then cw s else [])) NoCh (g_pos s)) (UHub UInsuff))
              | NoCh => Some (set_up (set_pending s n) (UOut UInsuff))
              end
          end
      | _ =>
          (* user-initiated unsubscribe: modelled only once the subscribe thread has
             finished (a client-side subscribe in flight blocks it on the subscribingCh gate) *)
          if closed s || negb (sub_finished s) then None else
          match ch s with
          | Reserved => None
          | Sub _ _ => Some (set_up (set_ch (set_cw s (if c_fix_delw c then cw s else [])) NoCh (g_pos s)) (UHub k))   (* delWriter discards the batch *)
          | NoCh => Some (set_up s (UOut k))
          end
      end
  | LUnsubHub =>
      match up s with
      | UHub k => if dl_idle s then Some (set_up (set_hub (if c_fix_delw c then set_cw s [] else s) false) (UOut k)) else None
      | _ => None
      end
  | LUnsubOut =>
      match up s with
      | UOut k => Some (set_up (emit s (unsub_out_frame k)) UIdle)
      | _ => None
      end
  | LAsyncDisc =>
      match pending s with
      | O => None
      | S n =>
          if negb (insuff_disc c) then None else
          if closed s then Some (set_pending s n)
          else Some (set_closed (set_cw (emits (set_pending s n) (cw s ++ [FDisconnect code_disc_insufficient])) []) true true)
      end
  | LClose =>
      if closed s || negb (sub_quiet s) then None
      else Some (set_closed (set_cw (emits s (cw s ++ [FDisconnect code_disc_other])) []) true true)
  | LCloseCleanup =>
      if cleanup s && dl_idle s && up_idle s
      then Some (set_closed (set_hub (set_ch s NoCh (g_pos s)) false) true false)
      else None
  end.

Fixpoint run (c : cfg) (s : st) (ls : list label) : option st :=
  match ls with
  | [] => Some s
  | l :: ls' => match step c s l with Some s' => run c s' ls' | None => None end
  end.

(* as [run] but also reports the index of the first disabled label (for the harness) *)
Fixpoint run_lenient (c : cfg) (s : st) (ls : list label) : st :=
  match ls with
  | [] => s
  | l :: ls' => match step c s l with Some s' => run_lenient c s' ls' | None => run_lenient c s ls' end
  end.
