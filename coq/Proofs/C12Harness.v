(* Soundness of the decidable oracle of Harness/C12.v (queue cases) w.r.t. the FIFO specification. *)
From Coq Require Import List NArith ZArith Bool Arith Lia.
From Cfg Require Import Model.RingQueue Model.RingQueueSpec Harness.C12.
Import ListNotations.

Lemma list_eqb_sound {A} (e : A -> A -> bool) :
  (forall x y, e x y = true -> x = y) -> forall a b, list_eqb e a b = true -> a = b.
Proof.
  intros He. induction a as [|x a IH]; destruct b as [|y b]; cbn; intros H; try discriminate; auto.
  apply andb_true_iff in H. destruct H as [H1 H2]. f_equal; auto.
Qed.

Lemma item_eqb_sound x y : item_eqb x y = true -> x = y.
Proof.
  unfold item_eqb. intros H. apply andb_true_iff in H. destruct H as [H1 H2].
  apply N.eqb_eq in H1, H2. destruct x, y; cbn in *; subst; reflexivity.
Qed.

Lemma items_eqb_sound a b : items_eqb a b = true -> a = b.
Proof. apply list_eqb_sound, item_eqb_sound. Qed.

Lemma qout_eqb_sound a b : qout_eqb a b = true -> a = b.
Proof.
  destruct a, b; cbn; intros H; try discriminate; auto.
  - apply eqb_prop in H. subst; auto.
  - destruct i, i0; cbn in H; try discriminate; auto. apply item_eqb_sound in H. subst; auto.
  - destruct is, is0; cbn in H; try discriminate; auto. apply items_eqb_sound in H. subst; auto.
  - apply items_eqb_sound in H. subst; auto.
Qed.

Lemma proj_eqb_sound a b : proj_eqb a b = true -> a = b.
Proof.
  destruct a as [[l1 s1] c1], b as [[l2 s2] c2]. cbn. intros H.
  apply andb_true_iff in H. destruct H as [H H3]. apply andb_true_iff in H. destruct H as [H1 H2].
  apply Nat.eqb_eq in H1. apply Z.eqb_eq in H2. apply eqb_prop in H3. subst. reflexivity.
Qed.

Lemma oracle_queue_sound ic ops panicked obs :
  1 <= ic -> oracle (CaseQ ic ops panicked obs) = true ->
  panicked = false /\ map (fun '(r, o) => (r, obs_proj o)) obs = frun fifo_new ops.
Proof.
  intros Hic. cbn [oracle]. destruct (ic =? 0) eqn:E; [apply Nat.eqb_eq in E; lia|].
  intros H. apply andb_true_iff in H. destruct H as [H1 H2].
  split; [destruct panicked; auto; discriminate|].
  symmetry. revert H2. apply list_eqb_sound. intros [r1 o1] [r2 o2] H. cbn in H.
  apply andb_true_iff in H. destruct H as [Ha Hb].
  apply qout_eqb_sound in Ha. apply proj_eqb_sound in Hb. subst. reflexivity.
Qed.
