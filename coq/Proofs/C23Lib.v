(* C23: list / string / key lemmas shared by the agreement proof. *)
From Coq Require Import List NArith ZArith Bool String Ascii Lia.
From Cfg Require Import Model.RStr Model.LuaNum Model.Redis Model.RedisScripts Model.MapApi23 Model.MemMap23
                        Model.RedisMapBroker Model.RedisMapScripts
                        Proofs.C18Lib Proofs.C18Redis.
From Cfg Require Proofs.C18Stream.
Import ListNotations.
Open Scope string_scope.

(* ---------- contiguous offsets of a memory stream ---------- *)
Fixpoint nseqT (lo : N) (n : nat) : list N :=
  match n with O => [] | S n' => lo :: nseqT (lo + 1) n' end.

Definition contigT (items : list tpub) (lo top : N) : Prop :=
  map off_of items = nseqT lo (List.length items) /\ (lo + N.of_nat (List.length items) = top + 1)%N.

Lemma contigT_tail p items lo top : contigT (p :: items) lo top -> off_of p = lo /\ contigT items (lo + 1) top.
Proof.
  intros [H1 H2]. cbn in H1. injection H1 as Ha Hr. split; [assumption|]. split; [assumption|].
  cbn [List.length] in H2. lia.
Qed.

Lemma index_of_contigT items : forall lo top off k, contigT items lo top ->
  index_of off items k = if ((lo <=? off) && (off <=? top))%N then Some (k + N.to_nat (off - lo))%nat else None.
Proof.
  induction items as [|p items IH]; intros lo top off k Hc.
  - destruct Hc as [_ H]. cbn in H. cbn.
    destruct (lo <=? off)%N eqn:E1; destruct (off <=? top)%N eqn:E2; cbn; try reflexivity.
    apply N.leb_le in E1, E2. lia.
  - apply contigT_tail in Hc as [Hp Hc]. cbn [index_of]. rewrite Hp.
    destruct (lo =? off)%N eqn:E.
    + apply N.eqb_eq in E. subst off.
      destruct Hc as [_ H2].
      replace (lo <=? lo)%N with true by (symmetry; apply N.leb_le; lia).
      replace (lo <=? top)%N with true by (symmetry; apply N.leb_le; lia).
      cbn. f_equal. lia.
    + rewrite (IH (lo + 1)%N top off (S k) Hc). apply N.eqb_neq in E.
      destruct (lo + 1 <=? off)%N eqn:E1; destruct (lo <=? off)%N eqn:E3;
        try apply N.leb_le in E1; try apply N.leb_le in E3; try apply N.leb_gt in E1; try apply N.leb_gt in E3; try lia;
        cbn [andb]; [|reflexivity].
      destruct (off <=? top)%N; [|reflexivity]. f_equal. lia.
Qed.

Lemma filter_ge_contigT items : forall lo top off, contigT items lo top ->
  filter (fun it => (off <=? off_of it)%N) items = skipn (N.to_nat (off - lo)) items.
Proof.
  induction items as [|p items IH]; intros lo top off Hc.
  - destruct (N.to_nat (off - lo)); reflexivity.
  - apply contigT_tail in Hc as [Hp Hc]. cbn [filter]. rewrite Hp.
    destruct (off <=? lo)%N eqn:E.
    + apply N.leb_le in E. replace (N.to_nat (off - lo)) with O by lia. cbn [skipn].
      f_equal. rewrite (IH _ _ _ Hc). replace (N.to_nat (off - (lo + 1))) with O by lia. reflexivity.
    + apply N.leb_gt in E. rewrite (IH _ _ _ Hc).
      replace (N.to_nat (off - lo)) with (S (N.to_nat (off - (lo + 1)))) by lia. reflexivity.
Qed.

Lemma filter_le_contigT items : forall lo top off, contigT items lo top ->
  filter (fun it => (off_of it <=? off)%N) items = firstn (N.to_nat (off + 1 - lo)) items.
Proof.
  induction items as [|p items IH]; intros lo top off Hc.
  - destruct (N.to_nat (off + 1 - lo)); reflexivity.
  - apply contigT_tail in Hc as [Hp Hc]. cbn [filter]. rewrite Hp.
    destruct (lo <=? off)%N eqn:E.
    + apply N.leb_le in E. replace (N.to_nat (off + 1 - lo)) with (S (N.to_nat (off + 1 - (lo + 1)))) by lia.
      cbn [firstn]. f_equal. apply (IH _ _ _ Hc).
    + apply N.leb_gt in E. replace (N.to_nat (off + 1 - lo)) with O by lia. cbn [firstn].
      rewrite (IH _ _ _ Hc). replace (N.to_nat (off + 1 - (lo + 1))) with O by lia. reflexivity.
Qed.

Lemma contigT_length items lo top : contigT items lo top -> N.of_nat (List.length items) = (top + 1 - lo)%N.
Proof. intros [_ H]. lia. Qed.

Lemma contigT_bounds items lo top : contigT items lo top -> forall it, In it items -> (lo <= off_of it <= top)%N.
Proof.
  revert lo. induction items as [|p items IH]; intros lo Hc it Hin; [destruct Hin|].
  pose proof Hc as Hc0. apply contigT_tail in Hc as [Hp Hc].
  destruct Hin as [<-|Hin].
  - rewrite Hp. destruct Hc0 as [_ H]. cbn [List.length] in H. lia.
  - specialize (IH _ Hc _ Hin). lia.
Qed.

Lemma contigT_snoc items lo top p : contigT items lo top -> off_of p = (top + 1)%N -> contigT (items ++ [p]) lo (top + 1).
Proof.
  revert lo. induction items as [|q items IH]; intros lo [H1 H2] Hp.
  - cbn in H2. split; cbn; [f_equal; lia | lia].
  - assert (Hc : contigT (q :: items) lo top) by (split; assumption).
    apply contigT_tail in Hc as [Hq Hc]. specialize (IH _ Hc Hp). destruct IH as [I1 I2].
    split.
    + cbn [app map List.length nseqT]. rewrite Hq. f_equal. rewrite app_length in I1. cbn in I1.
      rewrite app_length. cbn [List.length]. exact I1.
    + rewrite app_length in *. cbn [List.length] in *. lia.
Qed.

Lemma contigT_nil lo top : (lo = top + 1)%N -> contigT [] lo top.
Proof. intros ->. split; cbn; [reflexivity | lia]. Qed.

(* ---------- the protobuf envelope ---------- *)
Lemma cutc_idx (a b : string) : has_char ":" a = false -> sindex_char ":" (a ++ ":" ++ b) = Some (String.length a).
Proof. intros H. change (a ++ ":" ++ b) with (a ++ String ":" b). apply sindex_char_app. assumption. Qed.
Lemma cutc_take (a b : string) : stake (String.length a) (a ++ ":" ++ b) = a.
Proof. apply stake_app. Qed.
Lemma cutc_drop (a b : string) : sdrop (S (String.length a)) (a ++ ":" ++ b) = b.
Proof.
  change (a ++ ":" ++ b) with (a ++ String ":" b).
  induction a as [|c a IH]; [reflexivity|]. cbn [String.length append sdrop]. exact IH.
Qed.

Lemma unpb_pb key data removed score :
  (0 <= score)%Z -> unpb (pb key data removed score) = Some (key, data, removed, score).
Proof.
  intros Hs. unfold pb. rewrite <- (Z2N.id score) by assumption. rewrite zdec_of_N. set (sn := Z.to_N score).
  assert (E : (if removed then "R" else "P") ++ dec sn ++ ":" ++ dec (slen key) ++ ":" ++ key ++ data
              = String (if removed then "R"%char else "P"%char) (dec sn ++ ":" ++ (dec (slen key) ++ ":" ++ (key ++ data)))).
  { destruct removed; reflexivity. }
  rewrite E. unfold unpb.
  replace (negb (Ascii.eqb (if removed then "R"%char else "P"%char) "R" || Ascii.eqb (if removed then "R"%char else "P"%char) "P"))
    with false by (destruct removed; reflexivity).
  rewrite cutc_idx by (apply dec_no_char; reflexivity).
  rewrite cutc_take, parse_zdec_dec, cutc_drop.
  rewrite cutc_idx by (apply dec_no_char; reflexivity).
  rewrite cutc_take, parse_dec_dec, cutc_drop.
  unfold slen. rewrite length_append.
  replace (N.of_nat (String.length key + String.length data) <? N.of_nat (String.length key))%N with false
    by (symmetry; apply N.ltb_ge; lia).
  rewrite Nat2N.id, stake_app, sdrop_app.
  replace (Ascii.eqb (if removed then "R"%char else "P"%char) "R") with removed by (destruct removed; reflexivity).
  reflexivity.
Qed.

(* ---------- state values ---------- *)
Lemma parse_u64_map_dec n : (n < 18446744073709551616)%N -> RedisMapBroker.parse_u64 (dec n) = Some n.
Proof.
  intros H. unfold RedisMapBroker.parse_u64. destruct (dec_first_digit n) as (c & r & E & Hc). rewrite E.
  destruct c as [[] [] [] [] [] [] [] []]; try discriminate Hc; rewrite <- E, parse_dec_dec;
    apply N.ltb_lt in H; rewrite H; reflexivity.
Qed.

Lemma dec_app_nonempty n s : String.eqb (dec n ++ s) "" = false.
Proof. destruct (dec_first_digit n) as (c & r & E & _). rewrite E. reflexivity. Qed.

Definition sval (off : N) (epoch payload : string) : string := dec off ++ ":" ++ epoch ++ ":" ++ payload.

Lemma state_value_small off epoch payload :
  (off < 100000000000000)%N -> state_value (Z.of_N off) epoch payload = sval off epoch payload.
Proof. intros H. unfold state_value, sval. rewrite lua_num2str_small by assumption. reflexivity. Qed.

Lemma parse_sval off epoch payload :
  (off < 18446744073709551616)%N -> has_char ":" epoch = false ->
  parse_state_value (sval off epoch payload) = Some (off, epoch, payload).
Proof.
  intros Ho He. unfold parse_state_value, sval. rewrite dec_app_nonempty.
  rewrite cutc_idx by (apply dec_no_char; reflexivity). rewrite cutc_take, parse_u64_map_dec by assumption.
  rewrite cutc_drop, cutc_idx by assumption. rewrite cutc_take, cutc_drop. reflexivity.
Qed.

Lemma value_offset_sval off epoch payload :
  (off < 9007199254740992)%N -> value_offset (sval off epoch payload) = Some (Some (Z.of_N off)).
Proof.
  intros Ho. unfold value_offset, sval.
  assert (E : sindex ":" (dec off ++ ":" ++ epoch ++ ":" ++ payload) = Some (String.length (dec off))).
  { rewrite C18Stream.sindex1_char. apply cutc_idx. apply dec_no_char. reflexivity. }
  rewrite E, cutc_take, str2number_dec, round53_small by lia. reflexivity.
Qed.

(* ---------- state hash <-> memory state ---------- *)
Definition enc_s (epoch : string) (kv : string * mentry) : string * string :=
  (fst kv, sval (me_off (snd kv)) epoch (pb (fst kv) (me_data (snd kv)) false (me_score (snd kv)))).

Lemma sfind_enc_s epoch k l :
  sfind k (map (enc_s epoch) l) = match sfind k l with Some e => Some (snd (enc_s epoch (k, e))) | None => None end.
Proof.
  induction l as [|[k' e] l IH]; [reflexivity|]. cbn [map sfind enc_s fst snd].
  destruct (String.eqb k k') eqn:E; [apply String.eqb_eq in E; subst k'; reflexivity|]. exact IH.
Qed.

Lemma sput_enc_s epoch k e l :
  sput k (snd (enc_s epoch (k, e))) (map (enc_s epoch) l) = map (enc_s epoch) (sput k e l).
Proof.
  induction l as [|[k' e'] l IH]; [reflexivity|]. cbn [map sput enc_s fst snd].
  destruct (String.eqb k k') eqn:E; [apply String.eqb_eq in E; subst k'; reflexivity|].
  cbn [map]. f_equal. exact IH.
Qed.

Lemma sdel_enc_s epoch k l : sdel k (map (enc_s epoch) l) = map (enc_s epoch) (sdel k l).
Proof.
  induction l as [|[k' e'] l IH]; [reflexivity|]. cbn [map sdel enc_s fst snd].
  destruct (String.eqb k k') eqn:E; [exact IH|]. cbn [map]. f_equal. exact IH.
Qed.

Definition entry_ok (e : mentry) : Prop := (me_off e < 100000000000000)%N /\ (0 <= me_score e)%Z.

Lemma parse_state_kv_enc epoch l :
  has_char ":" epoch = false -> (forall kv, In kv l -> entry_ok (snd kv)) ->
  parse_state_kv (flat_kv (map (enc_s epoch) l)) = map spub_of l.
Proof.
  intros He. induction l as [|[k e] l IH]; intros H; [reflexivity|].
  cbn [map flat_kv enc_s fst snd]. cbn [parse_state_kv to_str].
  destruct (H (k, e) (or_introl eq_refl)) as [H1 H2]. cbn [snd] in H1, H2.
  rewrite parse_sval by (assumption || lia). rewrite unpb_pb by assumption.
  rewrite IH by (intros; apply H; right; assumption). reflexivity.
Qed.

Lemma sinsert_spub x l : sinsert (spub_of x) (map spub_of l) = map spub_of (kinsert x l).
Proof.
  induction l as [|y l IH]; [reflexivity|]. cbn [map sinsert kinsert]. unfold key_ltb.
  change (fst (fst (fst (spub_of y)))) with (fst y). change (fst (fst (fst (spub_of x)))) with (fst x).
  destruct (str_ltb (fst y) (fst x)); cbn [map]; [rewrite IH|]; reflexivity.
Qed.

Lemma sort_spubs_map l : sort_spubs (map spub_of l) = map spub_of (sort_state l).
Proof.
  induction l as [|x l IH]; [reflexivity|]. cbn [map]. unfold sort_spubs, sort_state in *. cbn [fold_right].
  rewrite IH. apply sinsert_spub.
Qed.

(* ---------- keys ---------- *)
Lemma k_stream_ne c : String.eqb (k_stream c) "" = false. Proof. reflexivity. Qed.
Lemma k_meta_ne c : String.eqb (k_meta c) "" = false. Proof. reflexivity. Qed.
Lemma k_state_ne c : String.eqb (k_state c) "" = false. Proof. reflexivity. Qed.
Lemma k_expire_ne c : String.eqb (k_expire c) "" = false. Proof. reflexivity. Qed.
Lemma k_smeta_ne c : String.eqb (k_smeta c) "" = false. Proof. reflexivity. Qed.
Lemma m_channel_ne c : String.eqb (m_channel c) "" = false. Proof. reflexivity. Qed.

Lemma k_stream_inj a b : k_stream a = k_stream b -> a = b.
Proof. unfold k_stream. intros H. apply append_inj_l in H. apply (append_inj_l ":stream:"). exact H. Qed.
Lemma k_meta_inj a b : k_meta a = k_meta b -> a = b.
Proof. unfold k_meta. intros H. apply append_inj_l in H. apply (append_inj_l ":meta:"). exact H. Qed.
Lemma k_state_inj a b : k_state a = k_state b -> a = b.
Proof. unfold k_state. intros H. apply append_inj_l in H. apply (append_inj_l ":state:"). exact H. Qed.
Lemma k_expire_inj a b : k_expire a = k_expire b -> a = b.
Proof. unfold k_expire. intros H. apply append_inj_l in H. apply (append_inj_l ":state:expire:"). exact H. Qed.
Lemma k_smeta_inj a b : k_smeta a = k_smeta b -> a = b.
Proof. unfold k_smeta. intros H. apply append_inj_l in H. apply (append_inj_l ":state:meta:"). exact H. Qed.

Lemma k_stream_meta a b : k_stream a <> k_meta b. Proof. discriminate. Qed.
Lemma k_stream_state a b : k_stream a <> k_state b. Proof. discriminate. Qed.
Lemma k_stream_expire a b : k_stream a <> k_expire b. Proof. discriminate. Qed.
Lemma k_stream_smeta a b : k_stream a <> k_smeta b. Proof. discriminate. Qed.
Lemma k_meta_state a b : k_meta a <> k_state b. Proof. discriminate. Qed.
Lemma k_meta_expire a b : k_meta a <> k_expire b. Proof. discriminate. Qed.
Lemma k_meta_smeta a b : k_meta a <> k_smeta b. Proof. discriminate. Qed.
Lemma k_expire_smeta a b : k_expire a <> k_smeta b. Proof. discriminate. Qed.

Lemma self_app_neq (p a : string) : p <> "" -> a <> p ++ a.
Proof.
  intros Hp E. apply (f_equal String.length) in E. rewrite length_append in E.
  destruct p; [congruence|]. cbn in E. lia.
Qed.
Lemma k_state_smeta_same a : k_state a <> k_smeta a.
Proof.
  unfold k_state, k_smeta. intros H. apply append_inj_l in H.
  change (":state:meta:" ++ a) with (":state:" ++ ("meta:" ++ a)) in H. apply append_inj_l in H.
  revert H. apply self_app_neq. discriminate.
Qed.
Lemma k_state_expire_same a : k_state a <> k_expire a.
Proof.
  unfold k_state, k_expire. intros H. apply append_inj_l in H.
  change (":state:expire:" ++ a) with (":state:" ++ ("expire:" ++ a)) in H. apply append_inj_l in H.
  revert H. apply self_app_neq. discriminate.
Qed.

(* channel names in one run must not collide through the key scheme (finding map-key-collision) *)
Definition keys_okb (U : list string) : bool :=
  forallb (fun a => forallb (fun b => negb (String.eqb (k_state a) (k_smeta b)) && negb (String.eqb (k_state a) (k_expire b))
                                      && negb (String.eqb (k_state a) (k_order b))) U) U.

Record keys_ok (U : list string) : Prop := mkKeysOk {
  K_ss : forall a b, In a U -> In b U -> k_state a <> k_smeta b;
  K_se : forall a b, In a U -> In b U -> k_state a <> k_expire b;
  K_so : forall a b, In a U -> In b U -> k_state a <> k_order b
}.

Lemma keys_okb_sound U : keys_okb U = true -> keys_ok U.
Proof.
  unfold keys_okb. intros H. rewrite forallb_forall in H.
  constructor; intros a b Ha Hb; specialize (H a Ha); rewrite forallb_forall in H; specialize (H b Hb);
    apply andb_true_iff in H as [H1 H3]; apply andb_true_iff in H1 as [H1 H2];
    apply negb_true_iff in H1, H2, H3; apply String.eqb_neq in H1, H2, H3; assumption.
Qed.

Definition chan_keys (c : string) : list string := [k_stream c; k_meta c; k_state c; k_expire c; k_smeta c].

Lemma chan_keys_disjoint U a b : keys_ok U -> In a U -> In b U -> a <> b ->
  forall key, In key (chan_keys a) -> ~ In key (chan_keys b).
Proof.
  intros HK Ha Hb Hab key Hin Hin'.
  pose proof (K_ss _ HK a b Ha Hb). pose proof (K_ss _ HK b a Hb Ha).
  pose proof (K_se _ HK a b Ha Hb). pose proof (K_se _ HK b a Hb Ha).
  unfold chan_keys in *. cbn [In] in Hin, Hin'.
  destruct Hin as [<-|[<-|[<-|[<-|[<-|[]]]]]]; destruct Hin' as [E|[E|[E|[E|[E|[]]]]]];
    try (apply k_stream_inj in E; congruence); try (apply k_meta_inj in E; congruence);
    try (apply k_state_inj in E; congruence); try (apply k_expire_inj in E; congruence);
    try (apply k_smeta_inj in E; congruence);
    try (symmetry in E; contradiction); try contradiction;
    try (revert E; first [apply k_stream_meta|apply k_stream_state|apply k_stream_expire|apply k_stream_smeta
                         |apply k_meta_state|apply k_meta_expire|apply k_meta_smeta|apply k_expire_smeta]);
    try (symmetry in E; revert E; first [apply k_stream_meta|apply k_stream_state|apply k_stream_expire|apply k_stream_smeta
                         |apply k_meta_state|apply k_meta_expire|apply k_meta_smeta|apply k_expire_smeta]).
Qed.

(* the ordered-state key (only ever deleted, by Clear) and the cleanup registration key *)
Lemma k_order_not_chan U a b : keys_ok U -> In a U -> In b U -> ~ In (k_order a) (chan_keys b).
Proof.
  intros HK Ha Hb. pose proof (K_so _ HK b a Hb Ha) as Hso. unfold chan_keys. cbn [In].
  intros [E|[E|[E|[E|[E|[]]]]]]; try discriminate E. first [contradiction | symmetry in E; contradiction].
Qed.
Lemma k_cleanup_not_chan c : ~ In k_cleanup (chan_keys c).
Proof. unfold chan_keys. cbn [In]. intros [E|[E|[E|[E|[E|[]]]]]]; discriminate E. Qed.
Lemma k_cleanup_order c : k_cleanup <> k_order c. Proof. discriminate. Qed.
