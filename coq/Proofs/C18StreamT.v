(* C18, stream storage: the agreement theorem. *)
From Coq Require Import List NArith ZArith Bool String Ascii Lia.
From Cfg Require Import Model.RStr Model.LuaNum Model.Redis Model.RedisScripts Model.BrokerApi18
                        Model.RedisBroker Model.MemBroker18 Proofs.C18Lib Proofs.C18Redis Proofs.C18Stream
                        Proofs.C18StreamH Proofs.C18StreamP Proofs.C18StreamQ.
Import ListNotations.
Open Scope string_scope.

Lemma step_sim U P cfg rs ms o :
  cfg_ok cfg = true -> keys_ok U P -> incl (op_chan o) U -> incl (op_idem o) P -> R U P rs ms ->
  op_ok ms o = true -> step_goal U P cfg rs ms o.
Proof.
  intros Hcfg HK HU HP HR Hok. destruct o as [c data po nonce | c f mttl nonce | c | ms'].
  - assert (Hc : In c U) by (apply HU; left; reflexivity).
    destruct (history_on po) eqn:Hh.
    + apply step_publish_hist; try assumption.
      cbn [op_idem] in HP. destruct (String.eqb (po_idem po) "") eqn:E.
      * left. apply String.eqb_eq. assumption.
      * right. apply HP. left. reflexivity.
    + apply step_publish_nohist; assumption.
  - apply step_history; try assumption. apply HU. left. reflexivity.
  - apply step_remove; try assumption. apply HU. left. reflexivity.
  - discriminate Hok.
Qed.

Lemma R_init U P : R U P rinit minit.
Proof.
  constructor.
  - reflexivity.
  - reflexivity.
  - intros ch _. cbn. split; reflexivity.
  - intros ch s H. discriminate H.
  - intros ch k _. unfold cache_rel. cbn. reflexivity.
Qed.

Lemma run_sim U P cfg ops : forall rs ms,
  cfg_ok cfg = true -> keys_ok U P -> incl (chans ops) U -> incl (idems ops) P -> R U P rs ms ->
  run_ok cfg ms ops = true -> rb_run shallow cfg rs ops = mb_run cfg ms ops.
Proof.
  induction ops as [|o ops IH]; intros rs ms Hcfg HK HU HP HR Hok; [reflexivity|].
  cbn [run_ok] in Hok. apply andb_true_iff in Hok as [Hok1 Hok2].
  cbn [chans idems flat_map] in HU, HP.
  assert (HU1 : incl (op_chan o) U) by (intros x Hx; apply HU; apply in_or_app; left; assumption).
  assert (HU2 : incl (chans ops) U) by (intros x Hx; apply HU; apply in_or_app; right; assumption).
  assert (HP1 : incl (op_idem o) P) by (intros x Hx; apply HP; apply in_or_app; left; assumption).
  assert (HP2 : incl (idems ops) P) by (intros x Hx; apply HP; apply in_or_app; right; assumption).
  pose proof (step_sim U P cfg rs ms o Hcfg HK HU1 HP1 HR Hok1) as Hs. unfold step_goal in Hs.
  cbn [rb_run mb_run].
  destruct (rb_step shallow cfg rs o) as [rs' o1]. destruct (mb_step cfg ms o) as [ms' o2].
  destruct Hs as [-> HR']. f_equal. apply IH; assumption.
Qed.

Theorem agree_stream cfg ops :
  cfg_ok cfg = true -> keys_okb (chans ops) (idems ops) = true -> run_ok cfg minit ops = true ->
  redis_run cfg ops = mem_run cfg ops.
Proof.
  intros Hcfg HK Hok. unfold redis_run, mem_run.
  apply (run_sim (chans ops) (idems ops)); try assumption.
  - apply keys_okb_sound. assumption.
  - apply incl_refl.
  - apply incl_refl.
  - apply R_init.
Qed.
