(* C16: the generated inventory of producers (Gen/DeliveryPaths.v) against the
   per-path theorems. *)
From Coq Require Import List NArith Bool String.
From Cfg Require Import Model.Merge Model.TagsPaths Proofs.TagsPaths Gen.DeliveryPaths Harness.C16.
Import ListNotations.

Definition site_path (s : string * string * string * dpath) : dpath := snd s.

Lemma sites_sound : forall s, In s sites -> path_sound (site_path s).
Proof. intros s _. apply all_paths_sound. Qed.

Definition dpath_eqb (a b : dpath) : bool :=
  match a, b with
  | PLive, PLive | PStreamRecovery, PStreamRecovery | PCacheRecovery, PCacheRecovery
  | PMapState, PMapState | PMapStream, PMapStream | PMapLive, PMapLive
  | PMapStreamless, PMapStreamless | POutAppProvided, POutAppProvided
  | POutHistoryRPC, POutHistoryRPC | POutKeyed, POutKeyed => true
  | _, _ => false
  end.

Lemma dpath_eqb_eq : forall a b, dpath_eqb a b = true -> a = b.
Proof. destruct a, b; cbn; intros H; try discriminate; reflexivity. Qed.

(* every modelled in-scope path is realised by at least one producer in the
   sources (the model has no stale path) *)
Lemma sites_cover_scope : forall p, in_scope p = true ->
  exists s, In s sites /\ site_path s = p.
Proof.
  intros p Hp.
  assert (H : existsb (fun s => dpath_eqb (site_path s) p) sites = true)
    by (destruct p; try discriminate Hp; vm_compute; reflexivity).
  apply existsb_exists in H. destruct H as [s [Hin He]].
  exists s; split; [assumption | apply dpath_eqb_eq; assumption].
Qed.

(* oracle soundness *)
Lemma all_visible_b_sound : forall V l,
  all_visible_b V l = true -> forall id, In id l -> visible V id = true.
Proof. intros V l H id Hin. unfold all_visible_b in H. rewrite forallb_forall in H. auto. Qed.

Lemma visible_meaning : forall V id,
  visible V id = true <->
  (v_stf V = true -> memN id (v_s V) = true) /\ (v_ctf V = true -> memN id (v_c V) = true).
Proof.
  intros V id. unfold visible, s_excl, c_excl.
  destruct (v_stf V), (v_ctf V), (memN id (v_s V)), (memN id (v_c V)); cbn; intuition congruence.
Qed.
