(* C28 — proofs: the (fixed) model of Node.Unsubscribe(user, "") meets UnsubAllSpec for
   every well-formed node state, every targeting option and every interleaving
   (permutation) of the per-connection effects; the pre-fix model does not; the
   decidable oracle is sound and complete for the specification. *)
From Coq Require Import List NArith Bool Arith Lia Permutation.
From Cfg Require Import Model.UnsubAll Model.UnsubAllSpec.
Import ListNotations.
Open Scope N_scope.

(* ---------- events: equality and counting ---------- *)

Lemma ev_eqb_eq : forall a b, ev_eqb a b = true <-> a = b.
Proof.
  intros a b; split.
  - destruct a, b; simpl; intro H; try discriminate;
      repeat (apply andb_prop in H; destruct H as [H ?]);
      repeat match goal with
             | X : (_ =? _) = true |- _ => apply N.eqb_eq in X
             | X : Bool.eqb _ _ = true |- _ => apply Bool.eqb_prop in X
             end; subst; reflexivity.
  - intros ->; destruct b; simpl; rewrite ?N.eqb_refl, ?Bool.eqb_reflx; reflexivity.
Qed.

Lemma ev_eqb_refl : forall a, ev_eqb a a = true.
Proof. intro a; apply ev_eqb_eq; reflexivity. Qed.

Lemma ev_eqb_neq : forall a b, a <> b -> ev_eqb a b = false.
Proof.
  intros a b H; destruct (ev_eqb a b) eqn:E; [|reflexivity].
  apply ev_eqb_eq in E; contradiction.
Qed.

Lemma countb_app : forall e l1 l2, countb e (l1 ++ l2) = (countb e l1 + countb e l2)%nat.
Proof. intros; unfold countb; rewrite filter_app, app_length; reflexivity. Qed.

Lemma countb_cons : forall e x l,
  countb e (x :: l) = ((if ev_eqb e x then 1 else 0) + countb e l)%nat.
Proof. intros; unfold countb; simpl; destruct (ev_eqb e x); reflexivity. Qed.

Lemma countb_notin : forall e l, ~ In e l -> countb e l = 0%nat.
Proof.
  induction l as [|x l IH]; intro H; [reflexivity|].
  rewrite countb_cons, ev_eqb_neq, IH; auto.
  - intro; apply H; right; assumption.
  - intro; apply H; left; congruence.
Qed.

Lemma countb_pos_in : forall e l, (countb e l > 0)%nat -> In e l.
Proof.
  induction l as [|x l IH]; intro H; [unfold countb in H; simpl in H; lia|].
  rewrite countb_cons in H. destruct (ev_eqb e x) eqn:E.
  - left; symmetry; apply ev_eqb_eq; assumption.
  - right; apply IH; simpl in H; lia.
Qed.

Lemma countb_perm : forall e l l', Permutation l l' -> countb e l = countb e l'.
Proof.
  intros e l l' P; induction P.
  - reflexivity.
  - rewrite !countb_cons, IHP; reflexivity.
  - rewrite !countb_cons; lia.
  - congruence.
Qed.

(* ---------- explicit form of the fixed model ---------- *)

Definition chan_events (cid code : N) (chn : chan) : list ev :=
  chan_effects cid chn code ++ [EvPush cid (ch_name chn) code].

(* what Client.Unsubscribe(n) emits on a connection holding channels l *)
Definition name_events (cid code : N) (l : list chan) (n : N) : list ev :=
  match find_chan n l with
  | Some chn => chan_events cid code chn
  | None => [EvPush cid n code]
  end.

Definition conn_events (c : conn) (code : N) : list ev :=
  flat_map (name_events (cn_id c) code (cn_chans (resolve c))) (snapshot c).

Definition all_events (t : target) (code : N) (s : list conn) : list ev :=
  flat_map (fun c => if targeted t c then conn_events c code else []) s.

Definition after (t : target) (c : conn) : conn :=
  if targeted t c then set_chans (resolve c) [] else resolve c.

Definition observe (c : conn) : oconn := mkOConn (cn_id c) (names c) (names c).

Definition memb (x : N) (l : list N) : bool := existsb (N.eqb x) l.

Lemma memb_In : forall x l, memb x l = true <-> In x l.
Proof.
  intros x l; unfold memb; rewrite existsb_exists; split.
  - intros [y [Hy E]]; apply N.eqb_eq in E; subst; assumption.
  - intro H; exists x; split; [assumption|apply N.eqb_refl].
Qed.

Lemma set_chans_id : forall c, set_chans c (cn_chans c) = c.
Proof. destruct c; reflexivity. Qed.

Lemma find_chan_name : forall n l x, find_chan n l = Some x -> ch_name x = n /\ In x l.
Proof.
  induction l as [|y l IH]; intros x H; cbn [find_chan] in H; [discriminate|].
  destruct (ch_name y =? n) eqn:E.
  - inversion H; subst. apply N.eqb_eq in E. split; [assumption|left; reflexivity].
  - destruct (IH x H); split; [assumption|right; assumption].
Qed.

Lemma find_chan_none : forall n l, find_chan n l = None -> ~ In n (map ch_name l).
Proof.
  induction l as [|y l IH]; intros H; cbn [find_chan] in H; [intros []|].
  destruct (ch_name y =? n) eqn:E; [discriminate|].
  apply N.eqb_neq in E. intros [H1|H1]; [contradiction|]. exact (IH H H1).
Qed.

Lemma find_chan_in : forall l chn,
  NoDup (map ch_name l) -> In chn l -> find_chan (ch_name chn) l = Some chn.
Proof.
  induction l as [|y l IH]; intros chn Hnd Hin; [contradiction|].
  inversion Hnd as [|? ? Hni Hnd']; subst. cbn [find_chan].
  destruct Hin as [->|Hin]; [rewrite N.eqb_refl; reflexivity|].
  destruct (ch_name y =? ch_name chn) eqn:E.
  - apply N.eqb_eq in E. exfalso. apply Hni. rewrite E. apply in_map; assumption.
  - apply IH; assumption.
Qed.

Lemma find_del_other : forall n n' l, n' <> n -> find_chan n' (del_chan n l) = find_chan n' l.
Proof.
  intros n n' l Hne; unfold del_chan. induction l as [|y l IH]; [reflexivity|].
  cbn [filter find_chan]. destruct (ch_name y =? n) eqn:E; cbn [negb].
  - apply N.eqb_eq in E. destruct (ch_name y =? n') eqn:E'; [apply N.eqb_eq in E'; congruence|exact IH].
  - cbn [find_chan]. rewrite IH. reflexivity.
Qed.

Lemma NoDup_map_filter : forall (A : Type) (f : A -> N) p (l : list A),
  NoDup (map f l) -> NoDup (map f (filter p l)).
Proof.
  induction l as [|y l IH]; intro H; [constructor|].
  inversion H as [|? ? Hni Hnd]; subst. cbn [filter]. destruct (p y); [|apply IH; assumption].
  cbn [map]. constructor; [|apply IH; assumption].
  intro Hin. apply Hni. apply in_map_iff in Hin. destruct Hin as [z [Hz Hin]].
  apply filter_In in Hin. destruct Hin as [Hin _]. rewrite <- Hz. apply in_map; assumption.
Qed.

Lemma filter_ext_in' : forall (A : Type) (p q : A -> bool) l,
  (forall x, In x l -> p x = q x) -> filter p l = filter q l.
Proof.
  induction l as [|y l IH]; intro H; [reflexivity|]. cbn [filter].
  rewrite (H y (or_introl eq_refl)), IH; [reflexivity|]. intros; apply H; right; assumption.
Qed.

Lemma filter_filter : forall (A : Type) (p q : A -> bool) l,
  filter p (filter q l) = filter (fun x => q x && p x) l.
Proof.
  induction l as [|y l IH]; [reflexivity|]. cbn [filter]. destruct (q y); cbn [filter andb]; rewrite IH; reflexivity.
Qed.

Lemma flat_map_ext_in' : forall (A B : Type) (f g : A -> list B) l,
  (forall x, In x l -> f x = g x) -> flat_map f l = flat_map g l.
Proof.
  induction l as [|y l IH]; intro H; [reflexivity|]. cbn [flat_map].
  rewrite (H y (or_introl eq_refl)), IH; [reflexivity|]. intros; apply H; right; assumption.
Qed.

Lemma unsub_names_closed : forall ns c code,
  cn_closed c = true -> unsub_names c ns code = (c, []).
Proof.
  induction ns as [|n r IH]; intros c code H; [reflexivity|].
  simpl; unfold client_unsubscribe; rewrite H, IH by assumption; reflexivity.
Qed.

Lemma unsub_names_gen : forall ns l c code,
  cn_closed c = false -> NoDup ns -> NoDup (map ch_name l) ->
  unsub_names (set_chans c l) ns code
  = (set_chans c (filter (fun x => negb (memb (ch_name x) ns)) l),
     flat_map (name_events (cn_id c) code l) ns).
Proof.
  induction ns as [|n r IH]; intros l c code Hc Hns Hl.
  - cbn [unsub_names flat_map]. f_equal. f_equal.
    symmetry. rewrite (filter_ext_in' _ _ (fun _ => true)); [|reflexivity].
    induction l as [|y l IHl]; [reflexivity|]. cbn [filter]. f_equal. apply IHl.
    inversion Hl; assumption.
  - inversion Hns as [|? ? Hni Hnr]; subst.
    cbn [unsub_names flat_map]. unfold client_unsubscribe at 1.
    cbn [cn_closed cn_chans set_chans cn_id]. rewrite Hc. unfold name_events at 1.
    destruct (find_chan n l) as [chn|] eqn:F.
    + change (mkConn (cn_id c) (cn_user c) (cn_session c) (cn_lf c) (cn_closed c) (del_chan n l) (cn_inflight c))
        with (set_chans c (del_chan n l)).
      rewrite IH; [|assumption|assumption|apply NoDup_map_filter; assumption].
      destruct (find_chan_name _ _ _ F) as [Hn _].
      assert (E1 : filter (fun x => negb (memb (ch_name x) r)) (del_chan n l)
                   = filter (fun x => negb (memb (ch_name x) (n :: r))) l).
      { unfold del_chan. rewrite filter_filter. apply filter_ext_in'. intros x _.
        cbn [memb existsb]. fold (memb (ch_name x) r). rewrite (N.eqb_sym (ch_name x) n).
        destruct (n =? ch_name x); reflexivity. }
      assert (E2 : flat_map (name_events (cn_id c) code (del_chan n l)) r
                   = flat_map (name_events (cn_id c) code l) r).
      { apply flat_map_ext_in'. intros n' Hn'. unfold name_events.
        rewrite find_del_other; [reflexivity|]. intro; subst; contradiction. }
      rewrite E1. cbn [cn_id set_chans cn_user cn_session cn_lf cn_closed cn_inflight].
      rewrite E2. unfold chan_events. rewrite Hn. reflexivity.
    + change (mkConn (cn_id c) (cn_user c) (cn_session c) (cn_lf c) (cn_closed c) l (cn_inflight c))
        with (set_chans c l).
      rewrite IH by assumption.
      assert (E1 : filter (fun x => negb (memb (ch_name x) r)) l
                   = filter (fun x => negb (memb (ch_name x) (n :: r))) l).
      { apply filter_ext_in'. intros x Hx. cbn [memb existsb]. fold (memb (ch_name x) r).
        destruct (ch_name x =? n) eqn:E; [|reflexivity].
        apply N.eqb_eq in E. exfalso. apply (find_chan_none _ _ F). rewrite <- E. apply in_map; assumption. }
      rewrite E1. reflexivity.
Qed.

Lemma names_resolve : forall c,
  names (resolve c) = map ch_name (cn_chans c) ++ map (fun a => ch_name (fst a)) (filter snd (cn_inflight c)).
Proof. intro c; unfold names, resolve; cbn [cn_chans]. rewrite map_app, map_map. reflexivity. Qed.

Lemma NoDup_app_filter : forall (A : Type) (f : A -> N) p (a : list N) (b : list A),
  NoDup (a ++ map f b) -> NoDup (a ++ map f (filter p b)).
Proof.
  induction a as [|x a IH]; intros b H; cbn [app] in *.
  - apply NoDup_map_filter; assumption.
  - inversion H as [|? ? Hni Hnd]; subst. constructor; [|apply IH; assumption].
    intro Hin. apply Hni. apply in_app_or in Hin. apply in_or_app. destruct Hin as [Hin|Hin]; [left; assumption|right].
    apply in_map_iff in Hin. destruct Hin as [z [Hz Hin]]. apply filter_In in Hin. destruct Hin as [Hin _].
    rewrite <- Hz. apply in_map; assumption.
Qed.

Lemma names_resolve_nodup : forall c, NoDup (snapshot c) -> NoDup (names (resolve c)).
Proof. intros c H; rewrite names_resolve. apply NoDup_app_filter. exact H. Qed.

Lemma names_resolve_in_snapshot : forall c n, In n (names (resolve c)) -> In n (snapshot c).
Proof.
  intros c n H; rewrite names_resolve in H; unfold snapshot. apply in_app_or in H. apply in_or_app.
  destruct H as [H|H]; [left; assumption|right].
  apply in_map_iff in H. destruct H as [z [Hz Hin]]. apply filter_In in Hin. destruct Hin as [Hin _].
  rewrite <- Hz. apply (in_map (fun a => ch_name (fst a))); assumption.
Qed.

Lemma unsubscribe_connection_all : forall c code,
  NoDup (snapshot c) ->
  unsubscribe_connection c 0 code =
  if cn_closed c then (resolve c, []) else (set_chans (resolve c) [], conn_events c code).
Proof.
  intros c code Hnd. unfold unsubscribe_connection. cbn [N.eqb].
  destruct (cn_closed c) eqn:Hc.
  - apply unsub_names_closed. exact Hc.
  - rewrite <- (set_chans_id (resolve c)) at 1.
    rewrite unsub_names_gen; [|exact Hc|exact Hnd|apply names_resolve_nodup; exact Hnd].
    unfold conn_events. f_equal.
    assert (E : filter (fun x => negb (memb (ch_name x) (snapshot c))) (cn_chans (resolve c)) = []).
    { rewrite (filter_ext_in' _ _ (fun _ => false)).
      - induction (cn_chans (resolve c)) as [|y l IHl]; [reflexivity|exact IHl].
      - intros x Hx. apply negb_false_iff. apply memb_In. apply names_resolve_in_snapshot.
        unfold names. apply in_map; assumption. }
    rewrite E. reflexivity.
Qed.

Lemma targeted_model : forall t c,
  targeted t c = in_scope t c && narrow t c && negb (cn_closed c).
Proof.
  intros t c; unfold targeted, in_scope, narrow.
  rewrite (N.eqb_sym (cn_id c)), (N.eqb_sym (cn_session c)).
  destruct (t_user t =? 0) eqn:EU.
  - apply N.eqb_eq in EU. rewrite EU.
    destruct (t_allusers t), (cn_user c =? 0), (t_client t =? 0), (t_client t =? cn_id c),
      (t_session t =? 0), (t_session t =? cn_session c), (t_haslf t), (cn_lf c), (cn_closed c); reflexivity.
  - destruct (t_allusers t), (cn_user c =? t_user t), (t_client t =? 0), (t_client t =? cn_id c),
      (t_session t =? 0), (t_session t =? cn_session c), (t_haslf t), (cn_lf c), (cn_closed c); reflexivity.
Qed.

Lemma node_unsubscribe_explicit : forall t code s,
  (forall c, In c s -> NoDup (snapshot c)) ->
  node_unsubscribe t 0 code s = (map (after t) s, all_events t code s).
Proof.
  unfold node_unsubscribe, all_events.
  induction s as [|c r IH]; intro Hnd; [reflexivity|].
  cbn [node_unsub map flat_map].
  rewrite IH by (intros; apply Hnd; right; assumption).
  assert (Ha : after t c = if in_scope t c && narrow t c && negb (cn_closed c)
                           then set_chans (resolve c) [] else resolve c)
    by (unfold after; rewrite targeted_model; reflexivity).
  rewrite Ha, (targeted_model t c). clear Ha.
  destruct (in_scope t c && narrow t c) eqn:E.
  - rewrite unsubscribe_connection_all by (apply Hnd; left; reflexivity).
    destruct (cn_closed c); reflexivity.
  - reflexivity.
Qed.

(* ---------- the specification holds on the explicit form ---------- *)

Definition ev_cid (e : ev) : N :=
  match e with EvPresenceRemove c _ | EvLeave c _ | EvCallback c _ _ _ | EvPush c _ _ => c end.
Definition ev_ch (e : ev) : N :=
  match e with EvPresenceRemove _ h | EvLeave _ h | EvCallback _ h _ _ | EvPush _ h _ => h end.

Lemma chan_events_tags : forall cid code chn e,
  In e (chan_events cid code chn) -> ev_cid e = cid /\ ev_ch e = ch_name chn.
Proof.
  intros cid code chn e; unfold chan_events, chan_effects.
  destruct (ch_presence chn), (ch_joinleave chn); simpl; intuition (subst; auto).
Qed.

Lemma name_events_tags : forall cid code l n e,
  In e (name_events cid code l n) -> ev_cid e = cid /\ ev_ch e = n.
Proof.
  intros cid code l n e H; unfold name_events in H.
  destruct (find_chan n l) as [chn|] eqn:F.
  - destruct (find_chan_name _ _ _ F) as [Hn _]. apply chan_events_tags in H. rewrite Hn in H. exact H.
  - destruct H as [<-|[]]. auto.
Qed.

Lemma usual_effect_tags : forall cid code chn e,
  usual_effect cid code chn e -> ev_cid e = cid /\ ev_ch e = ch_name chn.
Proof. intros ? ? ? ? H; destruct H; auto. Qed.

Lemma usual_effect_in : forall cid code chn e,
  usual_effect cid code chn e <-> In e (chan_events cid code chn).
Proof.
  intros cid code chn e; unfold chan_events, chan_effects; split.
  - intro H; destruct H as [| |H|H]; rewrite ?H;
      destruct (ch_presence chn), (ch_joinleave chn); simpl; auto 10.
  - destruct (ch_presence chn) eqn:P, (ch_joinleave chn) eqn:J; simpl;
      intuition (subst; try (constructor; assumption)).
Qed.

Lemma usual_effect_count1 : forall cid code chn e,
  usual_effect cid code chn e -> countb e (chan_events cid code chn) = 1%nat.
Proof.
  intros cid code chn e H; unfold chan_events, chan_effects, countb.
  destruct H as [| |H|H]; rewrite ?H;
    destruct (ch_presence chn), (ch_joinleave chn); simpl;
    rewrite ?N.eqb_refl, ?Bool.eqb_reflx; reflexivity.
Qed.

Lemma push_count1 : forall cid code l n,
  countb (EvPush cid n code) (name_events cid code l n) = 1%nat.
Proof.
  intros cid code l n; unfold name_events. destruct (find_chan n l) as [chn|] eqn:F.
  - destruct (find_chan_name _ _ _ F) as [<- _]. apply usual_effect_count1. constructor.
  - unfold countb; cbn. rewrite !N.eqb_refl. reflexivity.
Qed.

Lemma names_count0 : forall cid code l ns e,
  ~ In (ev_ch e) ns -> countb e (flat_map (name_events cid code l) ns) = 0%nat.
Proof.
  intros cid code l ns e H. apply countb_notin. intro Hi. apply in_flat_map in Hi.
  destruct Hi as [n [Hn He]]. apply name_events_tags in He. destruct He as [_ He]. subst n. contradiction.
Qed.

Lemma conn_count1 : forall cid code l ns chn e,
  NoDup ns -> NoDup (map ch_name l) -> In chn l -> In (ch_name chn) ns ->
  usual_effect cid code chn e ->
  countb e (flat_map (name_events cid code l) ns) = 1%nat.
Proof.
  induction ns as [|n r IH]; intros chn e Hns Hl Hin Hn Hu; [contradiction|].
  inversion Hns as [|? ? Hni Hnr]; subst.
  cbn [flat_map]. rewrite countb_app.
  destruct (usual_effect_tags _ _ _ _ Hu) as [_ Hch].
  destruct Hn as [->|Hn].
  - unfold name_events at 1. rewrite (find_chan_in _ _ Hl Hin).
    rewrite (usual_effect_count1 _ _ _ _ Hu), names_count0; [reflexivity|]. rewrite Hch; assumption.
  - rewrite (IH chn e Hnr Hl Hin Hn Hu), countb_notin; [reflexivity|].
    intro Hi. apply name_events_tags in Hi. destruct Hi as [_ Hi]. apply Hni. rewrite <- Hi, Hch. assumption.
Qed.

Lemma conn_push_le1 : forall cid code l ns n,
  NoDup ns -> (countb (EvPush cid n code) (flat_map (name_events cid code l) ns) <= 1)%nat.
Proof.
  induction ns as [|m r IH]; intros n Hns; [cbn; lia|].
  inversion Hns as [|? ? Hni Hnr]; subst. cbn [flat_map]. rewrite countb_app.
  destruct (N.eq_dec m n) as [->|Hne].
  - rewrite push_count1, names_count0; [lia|assumption].
  - rewrite (countb_notin _ (name_events cid code l m)); [apply IH; assumption|].
    intro Hi. apply name_events_tags in Hi. destruct Hi as [_ Hi]. cbn in Hi. congruence.
Qed.

Lemma conn_events_cid : forall c code e, In e (conn_events c code) -> ev_cid e = cn_id c.
Proof.
  intros c code e H; unfold conn_events in H. apply in_flat_map in H.
  destruct H as [y [_ He]]. apply name_events_tags in He; tauto.
Qed.

Lemma all_count_conn : forall t code s c e,
  NoDup (map cn_id s) -> In c s -> targeted t c = true -> ev_cid e = cn_id c ->
  countb e (all_events t code s) = countb e (conn_events c code).
Proof.
  unfold all_events.
  induction s as [|x r IH]; intros c e Hid Hin Ht Hcid; [contradiction|].
  inversion Hid as [|? ? Hni Hid']; subst.
  cbn [flat_map]. rewrite countb_app.
  destruct Hin as [->|Hin].
  - rewrite Ht, (countb_notin e (flat_map _ r)); [lia|].
    intro Hi. apply in_flat_map in Hi. destruct Hi as [y [Hy He]].
    destruct (targeted t y); [|contradiction].
    apply conn_events_cid in He. apply Hni. rewrite <- Hcid, He. apply in_map; assumption.
  - rewrite (IH c e Hid' Hin Ht Hcid), countb_notin; [reflexivity|].
    intro Hi. destruct (targeted t x); [|contradiction].
    apply conn_events_cid in Hi. apply Hni. rewrite <- Hi, Hcid. apply in_map; assumption.
Qed.

Lemma in_combine_map : forall (A B : Type) (g : A -> B) (l : list A) a b,
  In (a, b) (combine l (map g l)) -> In a l /\ b = g a.
Proof.
  induction l as [|x r IH]; intros a b H; [contradiction|].
  simpl in H. destruct H as [H|H].
  - inversion H; subst; split; [left|]; reflexivity.
  - apply IH in H; destruct H; split; [right|]; assumption.
Qed.

Lemma cancelled_names : forall c n,
  In n (snapshot c) -> ~ In n (names (resolve c)) -> exists chn, In chn (cancelled c) /\ ch_name chn = n.
Proof.
  intros c n Hs Hn. rewrite names_resolve in Hn. unfold snapshot in Hs.
  apply in_app_or in Hs. destruct Hs as [Hs|Hs]; [exfalso; apply Hn; apply in_or_app; left; assumption|].
  apply in_map_iff in Hs. destruct Hs as [[chn ok] [Hz Hin]]. cbn [fst] in Hz.
  destruct ok.
  - exfalso. apply Hn. apply in_or_app. right. rewrite <- Hz.
    apply (in_map (fun a => ch_name (fst a)) _ (chn, true)). apply filter_In. split; [assumption|reflexivity].
  - exists chn. split; [|assumption]. unfold cancelled.
    apply (in_map fst _ (chn, false)). apply filter_In. split; [assumption|reflexivity].
Qed.

Lemma explicit_meets_spec : forall t code s evs,
  wf s -> Permutation (all_events t code s) evs ->
  UnsubAllSpec t code s (map observe (map (after t) s)) evs.
Proof.
  intros t code s evs [Hid Hnd] HP. constructor.
  - rewrite !map_map. apply map_ext. intro c; unfold after; destruct (targeted t c), c; reflexivity.
  - intros c oc Hin Ht. rewrite map_map in Hin. apply in_combine_map in Hin.
    destruct Hin as [_ ->]. unfold after; rewrite Ht; split; reflexivity.
  - intros c oc Hin Ht. rewrite map_map in Hin. apply in_combine_map in Hin.
    destruct Hin as [_ ->]. unfold after; rewrite Ht; split; reflexivity.
  - intros c chn e Hin Ht Hc Hu. rewrite <- (countb_perm e _ _ HP).
    destruct (usual_effect_tags _ _ _ _ Hu) as [Hcid _].
    rewrite (all_count_conn t code s c e Hid Hin Ht Hcid). unfold conn_events.
    apply conn_count1 with (chn := chn); try assumption.
    + apply Hnd; assumption.
    + apply (names_resolve_nodup c). apply Hnd; assumption.
    + apply names_resolve_in_snapshot. unfold names. apply in_map; assumption.
  - intros c chn Hin Ht Hc. rewrite <- (countb_perm _ _ _ HP).
    rewrite (all_count_conn t code s c (EvPush (cn_id c) (ch_name chn) code) Hid Hin Ht eq_refl). unfold conn_events.
    apply conn_push_le1. apply Hnd; assumption.
  - intros e He. apply (Permutation_in _ (Permutation_sym HP)) in He.
    unfold all_events in He. apply in_flat_map in He. destruct He as [c [Hc He]].
    destruct (targeted t c) eqn:Ht; [|contradiction].
    unfold conn_events in He. apply in_flat_map in He. destruct He as [n [Hn He]].
    unfold name_events in He. destruct (find_chan n (cn_chans (resolve c))) as [chn|] eqn:F.
    + destruct (find_chan_name _ _ _ F) as [_ Hchn]. exists c, chn. repeat split; try assumption.
      left. split; [assumption|apply usual_effect_in; assumption].
    + destruct He as [<-|[]].
      destruct (cancelled_names c n Hn (find_chan_none _ _ F)) as [chn [Hchn <-]].
      exists c, chn. repeat split; try assumption. right. split; [assumption|reflexivity].
Qed.

(* Main theorem: for every well-formed state (established subscriptions and subscribe
   attempts in flight, with any answers), every targeting option, every code and every
   interleaving of the per-connection goroutines (any permutation of the effect log),
   Node.Unsubscribe(user, "") meets the specification. *)
Theorem node_unsubscribe_meets_spec : forall t code s evs,
  wf s ->
  Permutation (snd (node_unsubscribe t 0 code s)) evs ->
  UnsubAllSpec t code s (map observe (fst (node_unsubscribe t 0 code s))) evs.
Proof.
  intros t code s evs Hwf HP.
  rewrite node_unsubscribe_explicit in * by (apply Hwf).
  apply explicit_meets_spec; assumption.
Qed.

(* Cluster: the call made on any node has the specified effect on every node. *)
Lemma node_unsubscribe_app : forall t code a b,
  node_unsubscribe t 0 code (a ++ b)
  = (fst (node_unsubscribe t 0 code a) ++ fst (node_unsubscribe t 0 code b),
     snd (node_unsubscribe t 0 code a) ++ snd (node_unsubscribe t 0 code b)).
Proof.
  unfold node_unsubscribe. induction a as [|c r IH]; intro b.
  - simpl. destruct (node_unsub unsubscribe_connection t 0 code b); reflexivity.
  - cbn [app node_unsub]. rewrite IH.
    destruct (node_unsub unsubscribe_connection t 0 code r) as [r' er].
    destruct (in_scope t c && narrow t c).
    + destruct (unsubscribe_connection c 0 code) as [c' e]. simpl. rewrite app_assoc. reflexivity.
    + reflexivity.
Qed.

Lemma cluster_as_concat : forall t code nodes,
  (concat (fst (cluster_unsubscribe t 0 code nodes)), snd (cluster_unsubscribe t 0 code nodes))
  = node_unsubscribe t 0 code (concat nodes).
Proof.
  induction nodes as [|x r IH].
  - reflexivity.
  - cbn [concat]. rewrite node_unsubscribe_app, <- IH.
    unfold cluster_unsubscribe. cbn [cluster_unsub].
    destruct (node_unsub unsubscribe_connection t 0 code x) as [x' ex] eqn:E1.
    destruct (cluster_unsub unsubscribe_connection t 0 code r) as [r' er] eqn:E2.
    unfold node_unsubscribe. rewrite E1. reflexivity.
Qed.

Theorem cluster_unsubscribe_meets_spec : forall t code nodes evs,
  wf (concat nodes) ->
  Permutation (snd (cluster_unsubscribe t 0 code nodes)) evs ->
  UnsubAllSpec t code (concat nodes)
    (map observe (concat (fst (cluster_unsubscribe t 0 code nodes)))) evs.
Proof.
  intros t code nodes evs Hwf HP.
  pose proof (cluster_as_concat t code nodes) as H.
  assert (H1 : concat (fst (cluster_unsubscribe t 0 code nodes)) = fst (node_unsubscribe t 0 code (concat nodes)))
    by (rewrite <- H; reflexivity).
  assert (H2 : snd (cluster_unsubscribe t 0 code nodes) = snd (node_unsubscribe t 0 code (concat nodes)))
    by (rewrite <- H; reflexivity).
  rewrite H1. rewrite H2 in HP. apply node_unsubscribe_meets_spec; assumption.
Qed.

(* ---------- the code before the fix violates the specification ---------- *)

Definition refute_state : list conn := [mkConn 1 1 0 true false [mkChan 1 false false false] []].
Definition refute_target : target := mkTarget 1 0 0 false false.

Theorem prefix_refuted :
  exists t code s, wf s /\
    ~ UnsubAllSpec t code s (map observe (fst (node_unsubscribe_prefix t 0 code s)))
                            (snd (node_unsubscribe_prefix t 0 code s)).
Proof.
  exists refute_target, 2000, refute_state. split.
  - split; [repeat constructor; simpl; tauto|].
    intros c [<-|[]]. repeat constructor; simpl; tauto.
  - intro H. destruct H as [_ Ht _ _ _ _].
    specialize (Ht (mkConn 1 1 0 true false [mkChan 1 false false false] [])
                   (mkOConn 1 [1] [1]) (or_introl eq_refl) eq_refl).
    destruct Ht as [Ht _]. discriminate.
Qed.

(* a variant that snapshots only established subscriptions (Client.Channels()) misses
   the attempts in flight *)
Definition unsubscribe_connection_established (c : conn) (n code : N) : conn * list ev :=
  if n =? 0 then unsub_names (resolve c) (map ch_name (cn_chans c)) code
  else client_unsubscribe (resolve c) n code.

Theorem established_only_refuted :
  exists t code s, wf s /\
    ~ UnsubAllSpec t code s
        (map observe (fst (node_unsub unsubscribe_connection_established t 0 code s)))
        (snd (node_unsub unsubscribe_connection_established t 0 code s)).
Proof.
  exists refute_target, 2000, [mkConn 1 1 0 true false [] [(mkChan 1 false false false, true)]]. split.
  - split; [repeat constructor; simpl; tauto|].
    intros c [<-|[]]. repeat constructor; simpl; tauto.
  - intro H. destruct H as [_ Ht _ _ _ _].
    specialize (Ht (mkConn 1 1 0 true false [] [(mkChan 1 false false false, true)])
                   (mkOConn 1 [1] [1]) (or_introl eq_refl) eq_refl).
    destruct Ht as [Ht _]. discriminate.
Qed.

(* ---------- oracle soundness / completeness ---------- *)

Lemma eqb_listN_eq : forall a b, eqb_listN a b = true <-> a = b.
Proof.
  induction a as [|x a IH]; destruct b as [|y b]; simpl; split; intro H;
    try reflexivity; try discriminate.
  - apply andb_prop in H; destruct H as [H1 H2]. apply N.eqb_eq in H1. apply IH in H2. congruence.
  - inversion H; subst. rewrite N.eqb_refl. apply IH; reflexivity.
Qed.

Lemma usual_effects_l_iff : forall cid code chn e,
  In e (usual_effects_l cid code chn) <-> usual_effect cid code chn e.
Proof.
  intros; unfold usual_effects_l; split.
  - destruct (ch_joinleave chn) eqn:J, (ch_presence chn) eqn:P; simpl;
      intuition (subst; try (constructor; assumption)).
  - intro H; destruct H as [| |H|H]; rewrite ?H;
      destruct (ch_joinleave chn), (ch_presence chn); simpl; auto 10.
Qed.

Lemma conns_ok_spec : forall t s o,
  conns_ok t s o = true <->
  (map oc_id o = map cn_id s /\
   forall c oc, In (c, oc) (combine s o) -> conn_ok t c oc = true).
Proof.
  induction s as [|c s IH]; destruct o as [|oc o]; simpl; split; intro H;
    try discriminate; try (destruct H; discriminate).
  - split; [reflexivity|intros ? ? []].
  - reflexivity.
  - apply andb_prop in H; destruct H as [H H3]. apply andb_prop in H; destruct H as [H1 H2].
    apply N.eqb_eq in H1. apply IH in H3. destruct H3 as [H3 H4]. split; [congruence|].
    intros c0 oc0 [E|Hin]; [inversion E; subst; assumption|apply H4; assumption].
  - destruct H as [H1 H2]. inversion H1 as [[Hh Ht]].
    rewrite Hh, N.eqb_refl, (H2 c oc (or_introl eq_refl)). simpl.
    apply IH. split; [assumption|]. intros; apply H2; right; assumption.
Qed.

Theorem spec_b_sound : forall t code s o evs,
  unsub_all_spec_b t code s o evs = true -> UnsubAllSpec t code s o evs.
Proof.
  intros t code s o evs H. unfold unsub_all_spec_b in H.
  apply andb_prop in H; destruct H as [H H3]. apply andb_prop in H; destruct H as [H1 H2].
  apply conns_ok_spec in H1. destruct H1 as [Hids Hc].
  unfold effects_ok in H2. rewrite forallb_forall in H2.
  constructor.
  - assumption.
  - intros c oc Hin Ht. specialize (Hc c oc Hin). unfold conn_ok in Hc. rewrite Ht in Hc.
    destruct (oc_chans oc), (oc_hub oc); try discriminate; split; reflexivity.
  - intros c oc Hin Ht. specialize (Hc c oc Hin). unfold conn_ok in Hc. rewrite Ht in Hc.
    apply andb_prop in Hc; destruct Hc as [A B]. apply eqb_listN_eq in A, B. split; assumption.
  - intros c chn e Hin Ht Hch Hu. specialize (H2 c Hin). rewrite Ht in H2.
    apply andb_prop in H2. destruct H2 as [H2 _].
    rewrite forallb_forall in H2. specialize (H2 chn Hch).
    rewrite forallb_forall in H2. apply usual_effects_l_iff in Hu. specialize (H2 e Hu).
    apply Nat.eqb_eq in H2. assumption.
  - intros c chn Hin Ht Hch. specialize (H2 c Hin). rewrite Ht in H2.
    apply andb_prop in H2. destruct H2 as [_ H2].
    rewrite forallb_forall in H2. specialize (H2 chn Hch). apply Nat.leb_le in H2. assumption.
  - intros e He. unfold only_ok in H3. rewrite forallb_forall in H3. specialize (H3 e He).
    apply existsb_exists in H3. destruct H3 as [c [Hcin H3]].
    apply andb_prop in H3; destruct H3 as [Ht H3].
    apply orb_prop in H3. destruct H3 as [H3|H3].
    + apply existsb_exists in H3. destruct H3 as [chn [Hchn H3]].
      apply existsb_exists in H3. destruct H3 as [e' [He' Heq]].
      apply ev_eqb_eq in Heq; subst e'. exists c, chn. repeat split; try assumption.
      left. split; [assumption|apply usual_effects_l_iff; assumption].
    + apply existsb_exists in H3. destruct H3 as [chn [Hchn Heq]].
      apply ev_eqb_eq in Heq. exists c, chn. repeat split; try assumption. right. auto.
Qed.

Theorem spec_b_complete : forall t code s o evs,
  UnsubAllSpec t code s o evs -> unsub_all_spec_b t code s o evs = true.
Proof.
  intros t code s o evs [Hids Ht Hf He Hcn Ho]. unfold unsub_all_spec_b.
  apply andb_true_intro; split; [apply andb_true_intro; split|].
  - apply conns_ok_spec. split; [assumption|]. intros c oc Hin. unfold conn_ok.
    destruct (targeted t c) eqn:E.
    + destruct (Ht c oc Hin E) as [-> ->]. reflexivity.
    + destruct (Hf c oc Hin E) as [-> ->].
      assert (R : eqb_listN (names (resolve c)) (names (resolve c)) = true) by (apply eqb_listN_eq; reflexivity).
      rewrite R. reflexivity.
  - unfold effects_ok. apply forallb_forall. intros c Hc. destruct (targeted t c) eqn:E; [|reflexivity].
    apply andb_true_intro; split.
    + apply forallb_forall. intros chn Hchn. apply forallb_forall. intros e Hin.
      apply Nat.eqb_eq. apply (He c chn e Hc E Hchn). apply usual_effects_l_iff; assumption.
    + apply forallb_forall. intros chn Hchn. apply Nat.leb_le. apply (Hcn c chn Hc E Hchn).
  - unfold only_ok. apply forallb_forall. intros e Hin.
    destruct (Ho e Hin) as [c [chn [Hc [E [[Hchn Hu]|[Hchn Heq]]]]]];
      apply existsb_exists; exists c; (split; [assumption|]); rewrite E; cbn [andb];
      apply orb_true_intro.
    + left. apply existsb_exists. exists chn. split; [assumption|].
      apply existsb_exists. exists e. split; [apply usual_effects_l_iff; assumption|apply ev_eqb_refl].
    + right. apply existsb_exists. exists chn. split; [assumption|]. subst e. apply ev_eqb_refl.
Qed.
