(* C30 proofs, generalisation of part A to permessage-deflate: frames with RSV1 (first frame of a
   compressed message) and a decoder that has the extension negotiated. *)
From Coq Require Import String List NArith Bool Arith Lia ZifyN ZifyNat.
From Cfg Require Import Gen.WsConst Model.WsUtf8 Model.WsFrame Model.WsReadSpec Model.WsWrite Model.WsWriteSpec
     Proofs.WsLib Proofs.WsReadA Proofs.WsReadC Proofs.WsWriteA.
Import ListNotations.
Open Scope N_scope.

Definition b0z (op : N) (fin rsv1 : bool) : N :=
  op + (if fin then c_finalBit else 0) + (if rsv1 then c_rsv1Bit else 0).

Lemma b0z_bits : forall op fin rsv1, op < 16 ->
    b_fin (b0z op fin rsv1) = fin /\ b_rsv1 (b0z op fin rsv1) = rsv1 /\ b_rsv2 (b0z op fin rsv1) = false
    /\ b_rsv3 (b0z op fin rsv1) = false /\ b_opcode (b0z op fin rsv1) = op.
Proof.
  intros op fin rsv1 H.
  assert (E : forallb (fun op : N => forallb (fun fin : bool => forallb (fun rsv1 : bool =>
               Bool.eqb (b_fin (b0z op fin rsv1)) fin && Bool.eqb (b_rsv1 (b0z op fin rsv1)) rsv1 && negb (b_rsv2 (b0z op fin rsv1))
               && negb (b_rsv3 (b0z op fin rsv1)) && (b_opcode (b0z op fin rsv1) =? op)) [true; false]) [true; false]) (n_range 0 16) = true)
    by (vm_compute; reflexivity).
  rewrite forallb_forall in E. specialize (E op (n_range_In 16 0 op ltac:(lia) ltac:(lia))).
  rewrite forallb_forall in E. specialize (E fin ltac:(destruct fin; simpl; auto)).
  rewrite forallb_forall in E. specialize (E rsv1 ltac:(destruct rsv1; simpl; auto)).
  apply andb_true_iff in E as [E H5]. apply andb_true_iff in E as [E H4]. apply andb_true_iff in E as [E H3].
  apply andb_true_iff in E as [H1 H2].
  apply eqb_prop in H1. apply eqb_prop in H2. apply negb_true_iff in H3. apply negb_true_iff in H4.
  apply N.eqb_eq in H5. auto.
Qed.

Lemma b0z_b0_of : forall op fin, b0z op fin false = b0_of op fin.
Proof. reflexivity. Qed.

(* the decoder of the peer: masked = it expects masked frames; z = permessage-deflate negotiated *)
Definition peerz (masked z : bool) : scfg := mkScfg masked z 0 0 no_avail.

Lemma dtrip_peerz : forall masked z cz d, dtrip (peerz masked z) cz d = false.
Proof. intros masked z [] d; reflexivity. Qed.

Lemma header_ok_data_z : forall (z masked in_frag fin rsv1 : bool) op l7,
    (if in_frag then op = 0 /\ rsv1 = false else (op = 1 \/ op = 2) /\ (rsv1 = true -> z = true)) ->
    header_violations z masked in_frag fin rsv1 false false masked op l7 = [].
Proof.
  intros z masked in_frag fin rsv1 op l7 H. unfold header_violations.
  destruct in_frag.
  - destruct H as [-> ->]. simpl. rewrite eqb_reflx. reflexivity.
  - destruct H as [Hop Hz].
    assert (Hr : rsv1 && negb z = false) by (destruct rsv1; [rewrite (Hz eq_refl)|]; reflexivity).
    destruct Hop as [-> | ->]; simpl; rewrite Hr, eqb_reflx; simpl; rewrite !andb_false_r; reflexivity.
Qed.

Lemma decode_data_frame_z : forall ok infl masked z key (fin rsv1 : bool) op payload rest (frag : option fragst) typ cz acc total,
    N.of_nat (length payload) < two63 -> (masked = true -> length key = 4%nat) ->
    match frag with
    | None => (op = 1 \/ op = 2) /\ typ = op /\ acc = [] /\ total = 0 /\ cz = rsv1 /\ (rsv1 = true -> z = true)
    | Some f => op = 0 /\ rsv1 = false /\ f = (typ, cz, acc, total)
    end ->
    total + N.of_nat (length payload) < two63 ->
    spec_frame (S0 ok) (peerz masked z) infl frag (enc_frame masked key (b0z op fin rsv1) payload ++ rest)
    = if fin then complete (S0 ok) (peerz masked z) infl typ cz (acc ++ payload) rest
      else FCont [] (Some (typ, cz, acc ++ payload, total + N.of_nat (length payload))) rest.
Proof.
  intros ok infl masked z key fin rsv1 op payload rest frag typ cz acc total Hlen Hkey Hfrag Htot.
  destruct (enc_frame_head masked key (b0z op fin rsv1) payload rest) as [bs1 [E L7]].
  assert (Hop : op < 16) by (destruct frag as [f|]; [destruct Hfrag as [-> _]|destruct Hfrag as [[-> | ->] _]]; lia).
  destruct (b0z_bits op fin rsv1 Hop) as [B1 [B2 [B3 [B4 B5]]]].
  set (l7 := if 65536 <=? N.of_nat (length payload) then 127 else if 125 <? N.of_nat (length payload) then 126 else N.of_nat (length payload)) in *.
  destruct (b1_bits masked l7 L7) as [M1 M2].
  unfold spec_frame. rewrite E. unfold need. rewrite (take_n_app [_; _] bs1 2 eq_refl).
  rewrite B1, B2, B3, B4, B5, M1, M2. simpl s_compress. simpl s_server.
  rewrite header_ok_data_z.
  2:{ destruct frag as [f|]; [destruct Hfrag as [-> [-> _]]; split; reflexivity|destruct Hfrag as [H [_ [_ [_ [_ Hz]]]]]; split; assumption]. }
  rewrite check_nil.
  assert (Hctl : is_control op = false).
  { destruct frag as [f|]; [destruct Hfrag as [-> _]|destruct Hfrag as [[-> | ->] _]]; reflexivity. }
  rewrite Hctl.
  unfold enc_frame in E. subst l7.
  rewrite (decode_body ok masked key (b0z op fin rsv1) payload rest
             (fun len key' bs3 => spec_data (S0 ok) (peerz masked z) infl frag fin rsv1 op len key' bs3) Hlen Hkey bs1 E).
  assert (Hun : unmask (peerz masked z) (if masked then key else []) (if masked then xor_mask key 0 payload else payload) = payload).
  { unfold unmask. simpl s_server. destruct masked; [apply xor_mask_invol|reflexivity]. }
  assert (Htake : take_n (N.of_nat (length payload)) ((if masked then xor_mask key 0 payload else payload) ++ rest)
                  = Some ((if masked then xor_mask key 0 payload else payload), rest)).
  { apply take_n_app. destruct masked; [rewrite xor_mask_length|]; reflexivity. }
  unfold spec_data.
  destruct frag as [f|].
  - destruct Hfrag as [_ [_ ->]].
    destruct (N.leb_spec two63 (total + N.of_nat (length payload))); [lia|].
    simpl s_limit. change (0 <? 0) with false. cbv iota beta. simpl andb. cbv iota.
    unfold need. rewrite Htake. rewrite Hun. rewrite dtrip_peerz. reflexivity.
  - destruct Hfrag as [_ [-> [-> [-> [-> Hz]]]]].
    assert (Hc : rsv1 && s_compress (peerz masked z) = rsv1).
    { simpl. destruct rsv1; [rewrite (Hz eq_refl)|]; reflexivity. }
    rewrite Hc.
    destruct (N.leb_spec two63 (0 + N.of_nat (length payload))); [lia|].
    simpl s_limit. change (0 <? 0) with false. cbv iota beta. simpl andb. cbv iota.
    unfold need. rewrite Htake. rewrite Hun. rewrite dtrip_peerz. reflexivity.
Qed.

Lemma decode_control_frame_z : forall ok infl masked z key op payload rest (frag : option fragst),
    op = 8 \/ op = 9 \/ op = 10 -> N.of_nat (length payload) <= 125 -> (masked = true -> length key = 4%nat) ->
    spec_frame (S0 ok) (peerz masked z) infl frag (enc_frame masked key (b0_of op true) payload ++ rest)
    = if op =? 9 then FCont [SPong payload] frag rest
      else if op =? 10 then FCont [] frag rest
      else close_frame (S0 ok) payload.
Proof.
  intros ok infl masked z key op payload rest frag Hop Hlen Hkey.
  destruct (enc_frame_head masked key (b0_of op true) payload rest) as [bs1 [E L7]].
  assert (Hop16 : op < 16) by (destruct Hop as [-> | [-> | ->]]; lia).
  destruct (b0_bits op true Hop16) as [B1 [B2 [B3 [B4 B5]]]].
  set (l7 := if 65536 <=? N.of_nat (length payload) then 127 else if 125 <? N.of_nat (length payload) then 126 else N.of_nat (length payload)) in *.
  assert (Hl7 : l7 = N.of_nat (length payload)).
  { subst l7. destruct (N.leb_spec 65536 (N.of_nat (length payload))); [lia|].
    destruct (N.ltb_spec 125 (N.of_nat (length payload))); [lia|reflexivity]. }
  destruct (b1_bits masked l7 L7) as [M1 M2].
  unfold spec_frame. rewrite E. unfold need. rewrite (take_n_app [_; _] bs1 2 eq_refl).
  rewrite B1, B2, B3, B4, B5, M1, M2. simpl s_compress. simpl s_server.
  assert (Hv : header_violations z masked (match frag with Some _ => true | None => false end) true false false false masked op l7 = []).
  { unfold header_violations. destruct (N.ltb_spec 125 l7); [lia|].
    destruct Hop as [-> | [-> | ->]]; simpl; rewrite eqb_reflx; destruct frag; reflexivity. }
  rewrite Hv. rewrite check_nil.
  assert (Hctl : is_control op = true) by (destruct Hop as [-> | [-> | ->]]; reflexivity).
  rewrite Hctl.
  unfold enc_frame in E. clear Hl7. subst l7.
  assert (H63 : N.of_nat (length payload) < two63) by (unfold two63; lia).
  rewrite (decode_body ok masked key (b0_of op true) payload rest
             (fun len key' bs3 => spec_control (S0 ok) (peerz masked z) frag op len key' bs3) H63 Hkey bs1 E).
  assert (Hun : unmask (peerz masked z) (if masked then key else []) (if masked then xor_mask key 0 payload else payload) = payload).
  { unfold unmask. simpl s_server. destruct masked; [apply xor_mask_invol|reflexivity]. }
  assert (Htake : take_n (N.of_nat (length payload)) ((if masked then xor_mask key 0 payload else payload) ++ rest)
                  = Some ((if masked then xor_mask key 0 payload else payload), rest)).
  { apply take_n_app. destruct masked; [rewrite xor_mask_length|]; reflexivity. }
  unfold spec_control, need. rewrite Htake. cbv beta iota. rewrite Hun. reflexivity.
Qed.
