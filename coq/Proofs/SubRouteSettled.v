(* C04: what the routing invariant gives once every operation has finished, and
   the witness that the wait-gate timeout path breaks it in the model. *)
From Coq Require Import List NArith ZArith Bool Lia.
From Cfg Require Import Model.SubLifecycle Proofs.SubLifecycleLib Proofs.SubRoute Proofs.SubRouteStep.
Import ListNotations.
Open Scope N_scope.

(* the connection's view and the node's routing table agree on channel c *)
Definition routing_agrees (s : st) (c : ch) : Prop :=
  (is_subscribed s c = true <-> hub s c <> None) /\
  (forall x, lookup c (chans s) = Some x -> c_sub x = true /\ hub s c = Some (c_gen x)) /\
  (forall g, hub s c = Some g -> exists x, lookup c (chans s) = Some x /\ c_gen x = g) /\
  delivered s c = (if is_subscribed s c then 1 else 0).

Lemma inv_settled s : Inv s -> settled s -> forall c, routing_agrees s c.
Proof.
  intros I ST c.
  assert (CH : forall x, lookup c (chans s) = Some x -> c_sub x = true /\ hub s c = Some (c_gen x)).
  { intros x L. pose proof (i_chans _ _ _ _ _ _ _ _ I _ _ L) as P. destruct (c_sub x) eqn:SX.
    - destruct P as [GL _]. split; auto. eapply (i_live_hub _ _ _ _ _ _ _ _ I); eauto.
    - destruct P as (_ & _ & t & GR). destruct (i_res _ _ _ _ _ _ _ _ I _ _ _ GR) as (_ & _ & C).
      rewrite (ST t) in C. destruct C. }
  assert (HB : forall g, hub s c = Some g -> exists x, lookup c (chans s) = Some x /\ c_gen x = g).
  { intros g Hh. pose proof (i_hub _ _ _ _ _ _ _ _ I _ _ Hh) as P. destruct (gst s g) eqn:EG; try tauto.
    - destruct (i_res _ _ _ _ _ _ _ _ I _ _ _ EG) as (_ & _ & C). rewrite (ST t) in C. destruct C.
    - subst c0. destruct (i_live _ _ _ _ _ _ _ _ I _ _ EG) as (x & L & G & _). eauto.
    - pose proof (i_tear _ _ _ _ _ _ _ _ I _ _ _ EG) as T. rewrite (ST t) in T. destruct T. }
  assert (SUB : is_subscribed s c = true <-> hub s c <> None).
  { unfold is_subscribed. split.
    - destruct (lookup c (chans s)) as [x|] eqn:L; [|discriminate]. intros _.
      destruct (CH x eq_refl) as [_ E]. congruence.
    - intros NN. destruct (hub s c) as [g|] eqn:Hh; [|congruence].
      destruct (HB g eq_refl) as (x & L & _). rewrite L. apply (CH x L). }
  split; [exact SUB|]. split; [exact CH|]. split; [exact HB|].
  unfold delivered. destruct SUB as [S1 S2]. destruct (is_subscribed s c).
  - specialize (S1 eq_refl). destruct (hub s c); congruence.
  - destruct (hub s c) as [g|] eqn:Hh; auto.
    assert (E' : false = true) by (apply S2; congruence). discriminate.
Qed.

Theorem routing_settled sched s :
  no_timeout sched = true -> exec sched init = Some s -> settled s -> forall c, routing_agrees s c.
Proof.
  intros NT E ST. apply inv_settled; auto. eapply exec_inv; eauto. apply Inv_init.
Qed.

Theorem reported_is_routed sched s c x :
  no_timeout sched = true -> exec sched init = Some s ->
  lookup c (chans s) = Some x -> c_sub x = true -> hub s c = Some (c_gen x).
Proof.
  intros NT E L SX.
  assert (I : Inv s) by (eapply exec_inv; eauto; apply Inv_init).
  pose proof (i_chans _ _ _ _ _ _ _ _ I _ _ L) as P. rewrite SX in P. destruct P as [GL _].
  eapply (i_live_hub _ _ _ _ _ _ _ _ I); eauto.
Qed.

(* ---- the timeout path: a stalled attempt loses its reservation, a fresh attempt reserves
   the channel, the stalled one resumes and reads the FRESH generation from c.channels
   (subscribeCmd: subGen := c.channels[channel].subGen), registers it in the hub, and its
   rollback (onSubscribeErrorGen with its OWN generation) no longer matches. ---- *)
Fixpoint rep (n : nat) (l : label) : list label :=
  match n with O => [] | S m => l :: rep m l end.

Definition o00 := mkOpts false false.
Definition timeout_witness : list label :=
  [LSpawn OConnect] ++ rep 9 (LStep 0 true) ++
  [LSpawn (OSubCli 0 o00); LStep 2 true] ++                (* A reserves generation 1, handler pending *)
  [LSpawn (OUnsubSrv 0); LStep 4 true; LStep 4 true] ++    (* U1 waits at A's gate *)
  [LTimeout 4] ++                                          (* 5 s: gate nil-ed, close spawned (not yet run) *)
  [LSpawn (OUnsubSrv 0)] ++ rep 7 (LStep 6 true) ++        (* U2 deletes A's reservation *)
  [LSpawn (OSubCli 0 o00); LStep 8 true] ++                (* B reserves generation 2 *)
  [LStep 2 true; LStep 2 true; LStep 2 true] ++            (* A: handler ok, reads generation 2, pre-add check ok *)
  [LStep 8 false] ++ rep 4 (LStep 8 true) ++               (* B: handler error, rolls back generation 2 *)
  [LStep 2 true; LStep 2 true] ++                          (* A: hub add (gen 2), broker subscribe ok *)
  rep 5 (LStep 2 true) ++                                  (* A: post-add check fails, rolls back generation 1 *)
  rep 10 (LStep 1 true) ++ rep 3 (LStep 3 true).           (* the two spawned closes *)

(* every thread id the run ever allocated has finished *)
Definition alloc_tids (s : st) : list tid :=
  map (fun k => 2 * N.of_nat k) (seq 0 (N.to_nat (next_ext s))) ++
  map (fun k => 2 * N.of_nat k + 1) (seq 0 (N.to_nat (next_int s))).
Definition all_finished (s : st) : bool :=
  forallb (fun t => match thr s t with None => true | Some _ => false end) (alloc_tids s).

Lemma all_finished_settled s : Inv s -> all_finished s = true -> settled s.
Proof.
  intros I F t. destruct (thr s t) eqn:E; auto. exfalso.
  assert (NN : thr s t <> None) by congruence.
  unfold all_finished in F. rewrite forallb_forall in F.
  assert (IN : In t (alloc_tids s)).
  { unfold alloc_tids. apply in_or_app.
    destruct (i_tids _ _ _ _ _ _ _ _ I _ NN) as [(k & -> & Hk)|(k & -> & Hk)]; [left|right];
      apply in_map_iff; exists (N.to_nat k); (split; [rewrite N2Nat.id; auto|apply in_seq; lia]). }
  specialize (F _ IN). rewrite E in F. discriminate.
Qed.

Lemma timeout_witness_breaks :
  exists s, exec timeout_witness init = Some s /\
            all_finished s = true /\ status s = Closed /\
            hub s 0 = Some 2 /\ lookup 0 (chans s) = None /\ is_subscribed s 0 = false /\ delivered s 0 = 1.
Proof.
  destruct (exec timeout_witness init) as [s|] eqn:E; [|vm_compute in E; discriminate].
  exists s. split; auto.
  vm_compute in E. inv E. vm_compute. repeat split; reflexivity.
Qed.

Theorem exec_inv_init sched s : no_timeout sched = true -> exec sched init = Some s -> Inv s.
Proof. intros. eapply exec_inv; eauto. apply Inv_init. Qed.

Theorem timeout_refuted :
  exists sched s,
    exec sched init = Some s /\ all_finished s = true /\
    hub s 0 = Some 2 /\ is_subscribed s 0 = false /\ delivered s 0 = 1.
Proof.
  destruct timeout_witness_breaks as (s & E & F & _ & H & _ & S & D).
  exists timeout_witness, s. auto.
Qed.
