(* Expiry tracking invariant of the memory map broker model and its
   preservation by every operation / atomic action (used by C20 and C24). *)
From Coq Require Import List NArith ZArith Bool Lia Permutation.
From Cfg Require Import Model.MapHub Proofs.MapBase.
Import ListNotations.
Open Scope N_scope.

Definition entry_at (h : hub) (i : N) (k : key) : option entry :=
  match get_chan h i with Some c => aget key_eqb (c_state c) k | None => None end.
Definition ev_item (ev : event) : ck * N := ((ev_ch ev, ev_key ev), ev_exp ev).

Definition tracked (h : hub) : Prop :=
  forall i k e, entry_at h i k = Some e -> 0 < e_exp e ->
    aget ck_eqb (h_kexp h) (i, k) = Some (e_exp e) /\
    (In ((i, k), e_exp e) (h_queue h) \/ In ((i, k), e_exp e) (map ev_item (h_pend h))).
Definition next_ok (h : hub) : Prop :=
  forall it, In it (h_queue h) -> h_next h <> 0 /\ h_next h <= snd it.
Definition items_ok (l : list (ck * N)) : Prop :=
  forall it, In it l -> 0 < snd it /\ snd (fst it) <> [].
Definition pend_ok (h : hub) : Prop :=
  (forall ev, In ev (h_pend h) -> 0 < ev_exp ev /\ ev_exp ev <= h_pnow h /\ ev_key ev <> []) /\ h_pnow h <= h_now h.

Definition Inv (h : hub) : Prop :=
  tracked h /\ next_ok h /\ items_ok (h_queue h) /\ items_ok (h_kexp h) /\ pend_ok h.

Lemma Inv0 : Inv hub0.
Proof.
  unfold Inv, tracked, next_ok, items_ok, pend_ok, hub0, entry_at; simpl. splits; try (intros; contradiction); try discriminate; try lia.
Qed.

(* ---------------------------------------------------------- entry_at facts *)
Lemma entry_at_set_chan : forall h ch c i k,
  entry_at (set_chan h ch c) i k = if i =? ch then aget key_eqb (c_state c) k else entry_at h i k.
Proof.
  intros. unfold entry_at, get_chan, set_chan, set_chans; simpl.
  destruct (i =? ch) eqn:E.
  - apply N.eqb_eq in E; subst. rewrite (aget_aset_same N.eqb N_eqb_eq'). reflexivity.
  - apply N.eqb_neq in E. rewrite (aget_aset_other N.eqb N_eqb_eq'); auto.
Qed.

(* the parts of the hub the invariant reads *)
Definition same_exp (h h' : hub) : Prop :=
  h_kexp h' = h_kexp h /\ h_queue h' = h_queue h /\ h_next h' = h_next h.
Definition same_sweep (h h' : hub) : Prop :=
  h_pend h' = h_pend h /\ h_pnow h' = h_pnow h /\ h_now h' = h_now h.
Definition same_entries (h h' : hub) : Prop := forall i k, entry_at h' i k = entry_at h i k.

Lemma Inv_frame : forall h h', Inv h -> same_entries h h' -> same_exp h h' -> same_sweep h h' -> Inv h'.
Proof.
  intros h h' (T & NX & QO & KO & (PO1 & PO2)) SE (E1 & E2 & E3) (S1 & S2 & S3).
  unfold Inv, tracked, next_ok, pend_ok in *. rewrite E1, E2, E3, S1, S2, S3. splits; auto.
  intros i k e H. rewrite SE in H. auto.
Qed.

Definition upd (h h' : hub) (i : N) (k : key) (eo : option entry) : Prop :=
  forall i' k', entry_at h' i' k' = if ck_eqb (i', k') (i, k) then eo else entry_at h i' k'.

Lemma aset_In_weak : forall {K V} (eqb : K -> K -> bool) (m : list (K * V)) k v x,
  In x (aset eqb m k v) -> x = (k, v) \/ In x m.
Proof.
  induction m as [|[k0 v0] m IH]; intros k v x H; simpl in *.
  - destruct H as [<-|[]]; auto.
  - destruct (eqb k k0).
    + destruct H as [<-|H]; auto.
    + destruct H as [<-|H]; auto. apply IH in H as [->|H]; auto.
Qed.

Lemma Inv_set_tracked : forall h h' i k e,
  Inv h -> upd h h' i k (Some e) -> same_sweep h h' -> k <> [] -> 0 < e_exp e ->
  h_kexp h' = aset ck_eqb (h_kexp h) (i, k) (e_exp e) ->
  h_queue h' = ((i, k), e_exp e) :: h_queue h ->
  h_next h' = (if (h_next h =? 0) || (e_exp e <? h_next h) then e_exp e else h_next h) ->
  Inv h'.
Proof.
  intros h h' i k e (T & NX & QO & KO & (PO1 & PO2)) U (S1 & S2 & S3) KN DP EK EQ EN.
  unfold Inv, tracked, next_ok, pend_ok in *. rewrite EK, EQ, EN, S1, S2, S3. splits; auto.
  - intros i' k' e' H D. rewrite U in H. destruct (ck_eqb (i', k') (i, k)) eqn:E.
    + apply ck_eqb_eq in E. inversion E; subst. inversion H; subst.
      rewrite (aget_aset_same ck_eqb ck_eqb_eq). split; auto. left; left; reflexivity.
    + assert ((i', k') <> (i, k)) by (intro C; rewrite C, ck_eqb_refl in E; discriminate).
      rewrite (aget_aset_other ck_eqb ck_eqb_eq); auto.
      destruct (T _ _ _ H D) as (A & [B|B]); split; auto. left; right; auto.
  - intros it [<-|HI]; simpl.
    + destruct (h_next h =? 0) eqn:Z; simpl; [lia|].
      apply N.eqb_neq in Z. destruct (e_exp e <? h_next h) eqn:L; [lia|]. apply N.ltb_ge in L. lia.
    + destruct (NX _ HI) as (A & B).
      destruct (h_next h =? 0) eqn:Z; simpl; [apply N.eqb_eq in Z; contradiction|].
      destruct (e_exp e <? h_next h) eqn:L; [apply N.ltb_lt in L; lia|]. auto.
  - intros it [<-|HI]; simpl; auto.
  - intros it HI. apply aset_In_weak in HI as [->|HI]; simpl; auto.
Qed.

Lemma Inv_set_untracked : forall h h' i k e,
  Inv h -> upd h h' i k (Some e) -> same_sweep h h' -> e_exp e = 0 -> same_exp h h' -> Inv h'.
Proof.
  intros h h' i k e (T & NX & QO & KO & (PO1 & PO2)) U (S1 & S2 & S3) Z (E1 & E2 & E3).
  unfold Inv, tracked, next_ok, pend_ok in *. rewrite E1, E2, E3, S1, S2, S3. splits; auto.
  intros i' k' e' H D. rewrite U in H. destruct (ck_eqb (i', k') (i, k)) eqn:E.
  - inversion H; subst. lia.
  - auto.
Qed.

Lemma Inv_removed : forall h h' i k,
  Inv h -> upd h h' i k None -> same_sweep h h' ->
  h_kexp h' = adel ck_eqb (h_kexp h) (i, k) -> h_queue h' = h_queue h -> h_next h' = h_next h -> Inv h'.
Proof.
  intros h h' i k (T & NX & QO & KO & (PO1 & PO2)) U (S1 & S2 & S3) EK EQ EN.
  unfold Inv, tracked, next_ok, pend_ok in *. rewrite EK, EQ, EN, S1, S2, S3. splits; auto.
  - intros i' k' e' H D. rewrite U in H. destruct (ck_eqb (i', k') (i, k)) eqn:E; try discriminate.
    assert ((i', k') <> (i, k)) by (intro C; rewrite C, ck_eqb_refl in E; discriminate).
    rewrite (aget_adel_other ck_eqb ck_eqb_eq); auto.
  - intros it HI. apply (adel_In ck_eqb ck_eqb_eq) in HI as [HI _]. auto.
Qed.

(* ------------------------------------------------------------ pop_min facts *)
Lemma pop_min_none : forall q, pop_min q = None -> q = [].
Proof. destruct q as [|x q]; simpl; auto. destruct (pop_min q) as [[m r]|]; [destruct (item_ltb m x)|]; discriminate. Qed.

Lemma pop_min_perm : forall q m r, pop_min q = Some (m, r) -> Permutation q (m :: r).
Proof.
  induction q as [|x q IH]; intros m r H; simpl in *; try discriminate.
  destruct (pop_min q) as [[m0 r0]|] eqn:E.
  - specialize (IH _ _ eq_refl). destruct (item_ltb m0 x); inversion H; subst.
    + rewrite IH. apply perm_swap.
    + constructor. reflexivity.
  - inversion H; subst. apply pop_min_none in E. subst. reflexivity.
Qed.

Lemma pop_min_le : forall q m r, pop_min q = Some (m, r) -> forall it, In it r -> item_le m it.
Proof.
  induction q as [|x q IH]; intros m r H it HI; simpl in *; try discriminate.
  destruct (pop_min q) as [[m0 r0]|] eqn:E.
  - specialize (IH _ _ eq_refl). destruct (item_ltb m0 x) eqn:L; inversion H; subst.
    + destruct HI as [<-|HI]; [apply item_lt_le; auto | auto].
    + (* x <= m0 <= everything in r0 ; q ~ m0 :: r0 *)
      pose proof (pop_min_perm _ _ _ E) as P.
      apply (Permutation_in _ P) in HI. destruct HI as [<-|HI].
      * exact L.
      * eapply item_le_trans; [exact L | auto].
  - inversion H; subst. contradiction.
Qed.

Lemma list_sum_perm : forall l l', Permutation l l' -> list_sum l = list_sum l'.
Proof. induction 1; simpl; lia. Qed.

Definition weight (kexp : list (ck * N)) (now : N) (it : ck * N) : nat :=
  if snd it <=? now then
    match aget ck_eqb kexp (fst it) with
    | Some st => if snd it <? st then 2 else 1
    | None => 1
    end
  else 0.
Definition mu (kexp : list (ck * N)) (now : N) (q : list (ck * N)) : nat := list_sum (map (weight kexp now) q).

Lemma mu_perm : forall kexp now q q', Permutation q q' -> mu kexp now q = mu kexp now q'.
Proof. intros. unfold mu. apply list_sum_perm. apply Permutation_map. assumption. Qed.

Lemma weight_le2 : forall kexp now it, (weight kexp now it <= 2)%nat.
Proof.
  intros. unfold weight. destruct (snd it <=? now); [|lia].
  destruct (aget ck_eqb kexp (fst it)); [destruct (snd it <? n)|]; lia.
Qed.
Lemma mu_le : forall kexp now q, (mu kexp now q <= 2 * length q)%nat.
Proof.
  induction q; unfold mu in *; simpl; [lia|]. pose proof (weight_le2 kexp now a). lia.
Qed.

Lemma weight_adel_le : forall kexp now k it, (weight (adel ck_eqb kexp k) now it <= weight kexp now it)%nat.
Proof.
  intros. unfold weight. destruct (snd it <=? now); [|lia].
  destruct (ck_eqb (fst it) k) eqn:E.
  - apply ck_eqb_eq in E. rewrite E, (aget_adel_same ck_eqb).
    destruct (aget ck_eqb kexp k); [destruct (snd it <? n)|]; lia.
  - rewrite (aget_adel_other ck_eqb ck_eqb_eq); [lia|]. intro C. rewrite C, ck_eqb_refl in E. discriminate.
Qed.
Lemma mu_adel_le : forall kexp now k q, (mu (adel ck_eqb kexp k) now q <= mu kexp now q)%nat.
Proof.
  induction q; unfold mu in *; simpl; [lia|]. pose proof (weight_adel_le kexp now k a). lia.
Qed.

(* --------------------------------------------------------- the Phase-1 loop *)
From Coq Require Import Sorting.Sorted.

Definition ev_size_of (cfgs : list rawcfg) (ch : N) : N :=
  match cfg_of cfgs ch with
  | CfgOk cf => if has_stream (cf_mode cf) then cf_size cf else 0
  | CfgErr _ => 0
  end.

Definition ev_sound (cfgs : list rawcfg) (h : hub) (now : N) (ev : event) : Prop :=
  0 < ev_exp ev /\ ev_exp ev <= now /\ ev_key ev <> [] /\
  exists e, entry_at h (ev_ch ev) (ev_key ev) = Some e /\ e_exp e = ev_exp ev /\
            ev_tags ev = p_tags (e_pub e) /\ ev_size ev = ev_size_of cfgs (ev_ch ev).

Record LI (cfgs : list rawcfg) (h : hub) (now : N) (acc : list event) : Prop := mkLI {
  li_track : forall i k e, entry_at h i k = Some e -> 0 < e_exp e ->
      aget ck_eqb (h_kexp h) (i, k) = Some (e_exp e) /\
      (In ((i, k), e_exp e) (h_queue h) \/ In ((i, k), e_exp e) (map ev_item acc));
  li_q : items_ok (h_queue h);
  li_k : items_ok (h_kexp h);
  li_acc : forall ev, In ev acc -> ev_sound cfgs h now ev;
  li_sorted : StronglySorted item_le (map ev_item acc);
  li_le : forall a q, In a (map ev_item acc) -> In q (h_queue h) -> item_le a q }.

Lemma ss_app_one : forall l x, StronglySorted item_le l -> (forall a, In a l -> item_le a x) ->
  StronglySorted item_le (l ++ [x]).
Proof.
  induction l as [|y l IH]; intros x S H; simpl.
  - constructor; constructor.
  - inversion S; subst. constructor.
    + apply IH; auto. intros a Ha. apply H. right; auto.
    + apply Forall_app. split; auto. constructor; [|constructor]. apply H. left; auto.
Qed.

Lemma entry_at_set_exp : forall h a b c i k, entry_at (set_exp h a b c) i k = entry_at h i k.
Proof. reflexivity. Qed.

Lemma set_exp_set_exp : forall h a b c a' b' c', set_exp (set_exp h a b c) a' b' c' = set_exp h a' b' c'.
Proof. reflexivity. Qed.

Lemma p1_loop_spec : forall cfgs now fuel h acc h' acc' next ok,
  LI cfgs h now acc ->
  p1_loop cfgs fuel h now acc = (h', acc', next, ok) ->
  LI cfgs h' now acc' /\
  (exists kx qx, h' = set_exp h kx qx (h_next h)) /\
  (ok = true -> (forall it, In it (h_queue h') -> now < snd it) /\
                (forall it, In it (h_queue h') -> next <> 0 /\ next <= snd it)) /\
  ((mu (h_kexp h) now (h_queue h) < fuel)%nat -> ok = true) /\
  (forall ev, In ev acc -> In ev acc').
Proof.
  intros cfgs now. induction fuel as [|f IH]; intros h acc h' acc' next ok L H; simpl in H.
  { inversion H; subst. splits; auto; try discriminate; try lia.
    exists (h_kexp h'), (h_queue h'). destruct h'; reflexivity. }
  destruct (pop_min (h_queue h)) as [[[k d] q']|] eqn:PM.
  2:{ inversion H; subst. apply pop_min_none in PM. splits; auto.
      - exists (h_kexp h'), (h_queue h'). destruct h'; reflexivity.
      - intros _. rewrite PM. split; intros it [].  }
  pose proof (pop_min_perm _ _ _ PM) as PERM.
  pose proof (pop_min_le _ _ _ PM) as PLE.
  assert (INQ : In (k, d) (h_queue h)) by (apply (Permutation_in _ (Permutation_sym PERM)); left; auto).
  assert (INQ' : forall it, In it q' -> In it (h_queue h)) by (intros; apply (Permutation_in _ (Permutation_sym PERM)); right; auto).
  assert (SPLIT : forall it, In it (h_queue h) -> it = (k, d) \/ In it q') by (intros it HI; apply (Permutation_in _ PERM) in HI; destruct HI; auto).
  destruct (now <? d) eqn:ND.
  { apply N.ltb_lt in ND.
    assert (BD : forall it, In it (h_queue h) -> d <= snd it).
    { intros it HI. destruct (SPLIT _ HI) as [->|HI']; simpl; [lia|].
      pose proof (PLE _ HI') as LE. apply item_le_deadline in LE. assumption. }
    inversion H; subst. splits; auto.
    - exists (h_kexp h'), (h_queue h'). destruct h'; reflexivity.
    - intros _. split; intros it HI; specialize (BD _ HI); lia. }
  apply N.ltb_ge in ND.
  destruct L as [LT LQ LK LA LS LL].
  destruct (LQ _ INQ) as (DPOS & KNE). simpl in DPOS, KNE.
  (* weight bookkeeping *)
  assert (MU : mu (h_kexp h) now (h_queue h) = (weight (h_kexp h) now (k, d) + mu (h_kexp h) now q')%nat).
  { rewrite (mu_perm _ _ _ _ PERM). reflexivity. }
  assert (W1 : (1 <= weight (h_kexp h) now (k, d))%nat).
  { unfold weight; simpl. assert (d <=? now = true) as -> by (apply N.leb_le; lia).
    destruct (aget ck_eqb (h_kexp h) k); [destruct (d <? n)|]; lia. }
  (* the common continuation: drop the popped item *)
  assert (DROP : forall kx,
            (kx = h_kexp h \/ (kx = adel ck_eqb (h_kexp h) k /\ entry_at h (fst k) (snd k) = None)) ->
            (forall e, entry_at h (fst k) (snd k) = Some e -> 0 < e_exp e -> e_exp e <> d) ->
            LI cfgs (set_exp h kx q' (h_next h)) now acc /\
            (mu kx now q' < mu (h_kexp h) now (h_queue h))%nat).
  { intros kx HK NW. split.
    - constructor; simpl; auto.
      + intros i k0 e HE DP. rewrite entry_at_set_exp in HE. destruct (LT _ _ _ HE DP) as (A & B). split.
        * destruct HK as [->|[-> NONE]]; auto.
          rewrite (aget_adel_other ck_eqb ck_eqb_eq); auto.
          intro C; subst k; simpl in NONE. congruence.
        * destruct B as [B|B]; auto. destruct (SPLIT _ B) as [E|B']; auto.
          inversion E; subst. exfalso. eapply NW; eauto.
      + intros it HI. apply LQ. auto.
      + destruct HK as [->|[-> _]]; auto. intros it HI. apply (adel_In ck_eqb ck_eqb_eq) in HI as [HI _]. auto.
    - destruct HK as [->|[-> _]]; [lia|]. pose proof (mu_adel_le (h_kexp h) now k q'). lia. }
  set (h1 := set_queue h q') in *.
  assert (H1E : h1 = set_exp h (h_kexp h) q' (h_next h)) by reflexivity.
  assert (FIN : forall hx accx,
            LI cfgs hx now accx -> (exists kx qx, hx = set_exp h kx qx (h_next h)) ->
            (mu (h_kexp hx) now (h_queue hx) < mu (h_kexp h) now (h_queue h))%nat ->
            (forall ev, In ev acc -> In ev accx) ->
            p1_loop cfgs f hx now accx = (h', acc', next, ok) ->
            LI cfgs h' now acc' /\
            (exists kx qx, h' = set_exp h kx qx (h_next h)) /\
            (ok = true -> (forall it, In it (h_queue h') -> now < snd it) /\
                          (forall it, In it (h_queue h') -> next <> 0 /\ next <= snd it)) /\
            ((mu (h_kexp h) now (h_queue h) < S f)%nat -> ok = true) /\
            (forall ev, In ev acc -> In ev acc')).
  { intros hx accx LX (kx & qx & EX) MX SUB HX.
    destruct (IH _ _ _ _ _ _ LX HX) as (A & (kx' & qx' & B) & C & D & E). splits; auto.
    - exists kx', qx'. rewrite B, EX. reflexivity.
    - intro F. apply D. lia. }
  destruct (aget ck_eqb (h_kexp h) k) as [stored|] eqn:KX.
  2:{ (* no deadline recorded *)
      destruct (DROP (h_kexp h)) as (LX & MX); auto.
      { intros e HE DP C. destruct k as [i k0]. destruct (LT _ _ _ HE DP) as (A & _). simpl in *. congruence. }
      apply (FIN _ _ LX); [exists (h_kexp h), q'; reflexivity | exact MX | auto | exact H]. }
  destruct (d <? stored) eqn:DS.
  { (* refreshed: re-queue with the recorded deadline *)
    apply N.ltb_lt in DS.
    eapply (FIN (set_queue h1 ((k, stored) :: q')) acc); eauto.
    - constructor; simpl; auto.
      + intros i k0 e HE DP. destruct (LT _ _ _ HE DP) as (A & B). split; auto.
        destruct B as [B|B]; auto. destruct (SPLIT _ B) as [E|B']; [|left; right; auto].
        inversion E; subst. rewrite A in KX. inversion KX; subst. left; left; reflexivity.
      + intros it [<-|HI]; simpl; [split; [lia|auto] | apply LQ; auto].
      + intros a q Ha [<-|Hq]; [|apply LL; auto].
        eapply item_le_trans; [apply (LL _ _ Ha INQ)|]. apply deadline_lt_item_le; simpl; lia.
    - exists (h_kexp h), ((k, stored) :: q'). reflexivity.
    - simpl. unfold mu at 1. simpl. fold (mu (h_kexp h) now q'). rewrite MU.
      assert (weight (h_kexp h) now (k, d) = 2%nat) as ->.
      { unfold weight; simpl. assert (d <=? now = true) as -> by (apply N.leb_le; lia). rewrite KX.
        assert (d <? stored = true) as -> by (apply N.ltb_lt; lia). reflexivity. }
      assert ((weight (h_kexp h) now (k, stored) <= 1)%nat).
      { unfold weight; simpl. destruct (stored <=? now); [|lia]. rewrite KX. rewrite N.ltb_irrefl. lia. }
      lia. }
  apply N.ltb_ge in DS.
  destruct (is_empty (snd k)) eqn:EK. { apply is_empty_true in EK. contradiction. }
  assert (NOENT : entry_at h (fst k) (snd k) = None ->
            LI cfgs h' now acc' /\
            (exists kx qx, h' = set_exp h kx qx (h_next h)) /\
            (ok = true -> (forall it, In it (h_queue h') -> now < snd it) /\
                          (forall it, In it (h_queue h') -> next <> 0 /\ next <= snd it)) /\
            ((mu (h_kexp h) now (h_queue h) < S f)%nat -> ok = true) /\
            (forall ev, In ev acc -> In ev acc') ->
            True) by auto.
  clear NOENT.
  destruct (get_chan h1 (fst k)) as [c|] eqn:GC.
  2:{ destruct (DROP (adel ck_eqb (h_kexp h) k)) as (LX & MX).
      { right. split; auto. unfold entry_at. change (get_chan h (fst k)) with (get_chan h1 (fst k)). rewrite GC. reflexivity. }
      { intros e HE. unfold entry_at in HE. change (get_chan h (fst k)) with (get_chan h1 (fst k)) in HE. rewrite GC in HE. discriminate. }
      apply (FIN _ _ LX); [exists (adel ck_eqb (h_kexp h) k), q'; reflexivity | exact MX | auto | exact H]. }
  destruct (aget key_eqb (c_state c) (snd k)) as [e|] eqn:GE.
  2:{ destruct (DROP (adel ck_eqb (h_kexp h) k)) as (LX & MX).
      { right. split; auto. unfold entry_at. change (get_chan h (fst k)) with (get_chan h1 (fst k)). rewrite GC. assumption. }
      { intros e HE. unfold entry_at in HE. change (get_chan h (fst k)) with (get_chan h1 (fst k)) in HE. rewrite GC, GE in HE. discriminate. }
      apply (FIN _ _ LX); [exists (adel ck_eqb (h_kexp h) k), q'; reflexivity | exact MX | auto | exact H]. }
  assert (ENT : entry_at h (fst k) (snd k) = Some e).
  { unfold entry_at. change (get_chan h (fst k)) with (get_chan h1 (fst k)). rewrite GC. assumption. }
  destruct (negb (e_exp e =? d)) eqn:NE.
  { apply negb_true_iff, N.eqb_neq in NE.
    destruct (now <? e_exp e) eqn:NX.
    { (* impossible under the tracking invariant: the recorded deadline would be the entry's *)
      apply N.ltb_lt in NX. exfalso.
      destruct k as [i k0]. simpl in *. destruct (LT _ _ _ ENT) as (A & _); [lia|]. rewrite A in KX. inversion KX; subst. lia. }
    destruct (DROP (h_kexp h)) as (LX & MX); auto.
    { intros e0 HE DP. rewrite ENT in HE. inversion HE; subst. assumption. }
    apply (FIN _ _ LX); [exists (h_kexp h), q'; reflexivity | exact MX | auto | exact H]. }
  apply negb_false_iff, N.eqb_eq in NE.
  (* an expired candidate *)
  set (ev := mkEv (fst k) (snd k) d (p_tags (e_pub e))
                  (match cfg_of cfgs (fst k) with CfgOk cf => if has_stream (cf_mode cf) then cf_size cf else 0 | CfgErr _ => 0 end)) in *.
  assert (LX : LI cfgs h1 now (acc ++ [ev])).
  { constructor; simpl; auto.
    + intros i k0 e0 HE DP. destruct (LT _ _ _ HE DP) as (A & B). split; auto.
      rewrite map_app, in_app_iff. simpl.
      destruct B as [B|B]; auto. destruct (SPLIT _ B) as [E|B']; auto.
      right. right. left. rewrite E. unfold ev_item, ev; simpl. destruct k; reflexivity.
    + intros it HI. apply LQ. auto.
    + intros ev0 HI. apply in_app_iff in HI as [HI|[<-|[]]]; [exact (LA _ HI)|].
      unfold ev_sound; simpl. splits; auto; try lia. exists e. splits; auto.
    + rewrite map_app. simpl. apply ss_app_one; auto.
      intros a Ha. unfold ev_item; simpl. replace (fst k, snd k) with k by (destruct k; reflexivity). apply (LL _ _ Ha INQ).
    + intros a q Ha Hq. rewrite map_app, in_app_iff in Ha. destruct Ha as [Ha|[<-|[]]].
      * apply LL; auto.
      * unfold ev_item; simpl. replace (fst k, snd k) with k by (destruct k; reflexivity). apply PLE. assumption. }
  apply (FIN _ _ LX); [exists (h_kexp h), q'; reflexivity | simpl; lia | intros ev0 HI; apply in_app_iff; auto | exact H].
Qed.

(* ----------------------------------------------------------------- Phase 1 *)
Lemma min_prio_in : forall q, q <> [] -> In (min_prio q) (map snd q).
Proof.
  induction q as [|x q IH]; intro H; [contradiction|]. simpl.
  destruct q as [|y q']; [left; reflexivity|].
  assert (In (min_prio (y :: q')) (map snd (y :: q'))) by (apply IH; discriminate).
  destruct (N.min_dec (snd x) (min_prio (y :: q'))) as [E|E]; rewrite E; [left; reflexivity | right; assumption].
Qed.
Lemma min_prio_le : forall q it, In it q -> min_prio q <= snd it.
Proof.
  induction q as [|x q IH]; intros it H; [contradiction|]. simpl.
  destruct q as [|y q'].
  - destruct H as [<-|[]]. lia.
  - destruct H as [<-|H]; [lia|]. specialize (IH _ H). lia.
Qed.

Definition expired_covered (h h' : hub) : Prop :=
  forall i k e, entry_at h i k = Some e -> 0 < e_exp e -> e_exp e <= h_now h ->
    In ((i, k), e_exp e) (map ev_item (h_pend h')).

Lemma phase1_spec : forall cfgs h h' ok,
  Inv h -> h_pend h = [] -> phase1 cfgs h = (h', ok) ->
  ok = true /\ Inv h' /\
  h_chans h' = h_chans h /\ h_idem h' = h_idem h /\ h_now h' = h_now h /\ h_nep h' = h_nep h /\ h_bcast h' = h_bcast h /\
  (forall ev, In ev (h_pend h') -> ev_sound cfgs h (h_now h) ev) /\
  StronglySorted item_le (map ev_item (h_pend h')) /\
  expired_covered h h' /\
  (h_pend h' <> [] -> h_pnow h' = h_now h).
Proof.
  intros cfgs h h' ok IV PE H. pose proof IV as (T & NX & QO & KO & (PO1 & PO2)).
  unfold phase1 in H.
  destruct ((h_next h =? 0) || (h_now h <? h_next h)) eqn:SK.
  { inversion H; subst h' ok. splits; auto.
    - intros ev HI. rewrite PE in HI. contradiction.
    - rewrite PE. constructor.
    - intros i k e HE DP DL. exfalso.
      destruct (T _ _ _ HE DP) as (_ & [B|B]); [|rewrite PE in B; contradiction].
      destruct (NX _ B) as (N0 & NL). simpl in NL.
      apply orb_true_iff in SK as [Z|Z]; [apply N.eqb_eq in Z; contradiction | apply N.ltb_lt in Z; lia].
    - intro C. rewrite PE in C. contradiction. }
  destruct (p1_loop cfgs (2 * length (h_queue h) + 1) h (h_now h) []) as [[[h1 evs] next] ok1] eqn:LP.
  assert (L0 : LI cfgs h (h_now h) []).
  { constructor; simpl.
    - intros i k e HE DP. destruct (T _ _ _ HE DP) as (A & B). rewrite PE in B. auto.
    - exact QO.
    - exact KO.
    - intros ev [].
    - constructor.
    - intros a q []. }
  destruct (p1_loop_spec _ _ _ _ _ _ _ _ _ L0 LP) as (L1 & (kx & qx & EH) & OKF & FU & _).
  assert (OK1 : ok1 = true). { apply FU. pose proof (mu_le (h_kexp h) (h_now h) (h_queue h)). lia. }
  destruct (OKF OK1) as (QGT & QNX).
  destruct L1 as [LT LQ LK LA LS LL].
  assert (EA : forall i k, entry_at h1 i k = entry_at h i k) by (rewrite EH; reflexivity).
  set (comp := Nat.ltb (2 * length (h_kexp h1) + 100) (length (h_queue h1))) in *.
  assert (EVS : forall ev, In ev evs -> ev_sound cfgs h (h_now h) ev).
  { intros ev HI. destruct (LA _ HI) as (A & B & C & e & D & E). unfold ev_sound. splits; auto.
    exists e. rewrite <- EA. auto. }
  assert (RES : forall q2 next2,
     (forall i k e, entry_at h1 i k = Some e -> 0 < e_exp e ->
        In ((i, k), e_exp e) q2 \/ In ((i, k), e_exp e) (map ev_item evs)) ->
     (forall it, In it q2 -> next2 <> 0 /\ next2 <= snd it) -> items_ok q2 ->
     (set_pend (set_exp h1 (h_kexp h1) q2 next2) evs (h_now h), ok1) = (h', ok) ->
     ok = true /\ Inv h' /\
     h_chans h' = h_chans h /\ h_idem h' = h_idem h /\ h_now h' = h_now h /\ h_nep h' = h_nep h /\ h_bcast h' = h_bcast h /\
     (forall ev, In ev (h_pend h') -> ev_sound cfgs h (h_now h) ev) /\
     StronglySorted item_le (map ev_item (h_pend h')) /\
     expired_covered h h' /\
     (h_pend h' <> [] -> h_pnow h' = h_now h)).
  { intros q2 next2 TR NXT QOK E. inversion E; subst h' ok. rewrite EH. simpl. splits; auto.
    - unfold Inv, tracked, next_ok, pend_ok; simpl. splits; auto.
      + intros i k e HE DP. change (entry_at h1 i k = Some e) in HE || idtac.
        assert (HE1 : entry_at h1 i k = Some e) by (rewrite EA; exact HE).
        destruct (LT _ _ _ HE1 DP) as (A & _). rewrite EH in A. simpl in A. split; auto.
      + rewrite EH in LK. exact LK.
      + intros ev HI. destruct (EVS _ HI) as (A & B & C & _). auto.
      + lia.
    - intros i k e HE DP DL. simpl.
      assert (HE1 : entry_at h1 i k = Some e) by (rewrite EA; exact HE).
      destruct (LT _ _ _ HE1 DP) as (_ & [B|B]); [|exact B].
      exfalso. specialize (QGT _ B). simpl in QGT. lia. }
  destruct comp eqn:CP.
  - apply (RES (h_kexp h1) (match h_kexp h1 with [] => next | _ => min_prio (h_kexp h1) end)); auto.
    + intros i k e HE DP. destruct (LT _ _ _ HE DP) as (A & _). left. apply (aget_In ck_eqb ck_eqb_eq). exact A.
    + intros it HI. destruct (h_kexp h1) as [|x l] eqn:EK; [contradiction|]. rewrite <- EK in *.
      split; [|apply min_prio_le; auto].
      assert (NE : h_kexp h1 <> []) by (rewrite EK; discriminate).
      pose proof (min_prio_in _ NE) as MI. apply in_map_iff in MI as (y & Ey & Hy).
      destruct (LK _ Hy) as (P & _). lia.
  - apply (RES (h_queue h1) next); auto.
    intros i k e HE DP. destruct (LT _ _ _ HE DP) as (_ & B). exact B.
Qed.
