(* C37 — proofs over Model/Limits.v for ALL configurations, states and label sequences
   (subscribe commands on both routes with synchronous / held callbacks, completions in any
   order, server-side subscribes, unsubscribes, enqueues). *)
From Coq Require Import List NArith Bool Lia.
From Cfg Require Import Model.Limits Model.LimitsSpec.
Import ListNotations.
Open Scope N_scope.

Ltac nb :=
  repeat match goal with
         | H : (_ <? _) = true |- _ => apply N.ltb_lt in H
         | H : (_ <? _) = false |- _ => apply N.ltb_ge in H
         | H : (_ <=? _) = true |- _ => apply N.leb_le in H
         | H : (_ <=? _) = false |- _ => apply N.leb_gt in H
         | H : (_ =? _) = true |- _ => apply N.eqb_eq in H
         | H : (_ =? _) = false |- _ => apply N.eqb_neq in H
         end.

Definition within (g : cfg) (s : st) : Prop := g_limit g = 0 \/ held s <= g_limit g.

Lemma take_length : forall tok l n rest, take tok l = Some (n, rest) -> length l = S (length rest).
Proof.
  induction l as [|[t m] l IH]; intros n rest H; cbn [take] in H; [discriminate|].
  destruct (t =? tok).
  - inversion H; subst. reflexivity.
  - destruct (take tok l) as [[m' r']|] eqn:E; [|discriminate]. inversion H; subst.
    cbn [length]. rewrite (IH _ _ eq_refl). reflexivity.
Qed.

Lemma filter_length_le : forall (A : Type) (p : A -> bool) l, (length (filter p l) <= length l)%nat.
Proof. induction l as [|x l IH]; cbn; [lia|]. destruct (p x); cbn; lia. Qed.

Lemma map_install_within : forall g s n paged rest s' o,
  g_limit g <> 0 -> held s <= g_limit g ->
  map_install true g s n paged rest = (s', o) -> held s' <= g_limit g.
Proof.
  intros g s n paged rest s' o Z W H. unfold map_install, at_limit in H. cbn [andb] in H.
  assert (Zb : (0 <? g_limit g) = true) by (apply N.ltb_lt; lia). rewrite Zb in H. cbn [andb] in H.
  destruct (g_limit g <=? held s) eqn:L.
  - inversion H; subst. unfold held in *. cbn [chans resv mpag] in *. exact W.
  - nb. destruct (memN n (chans s) || memN n (mpag s)); [|destruct paged]; inversion H; subst;
      unfold held in *; cbn [chans resv mpag] in *; rewrite ?app_length; cbn [length]; lia.
Qed.

Lemma step_within : forall lc g s l s' o,
  step_gen (sub_gen lc true) (complete_gen true) g s l = Some (s', o) -> within g s -> within g s'.
Proof.
  intros lc g s l s' o H W. unfold within in *.
  destruct (N.eq_dec (g_limit g) 0) as [Z|Z]; [left; assumption|right].
  destruct W as [W|W]; [contradiction|].
  assert (Zb : (0 <? g_limit g) = true) by (apply N.ltb_lt; lia).
  destruct l; cbn [step_gen] in H.
  - (* subscribe command *)
    inversion H as [H']. clear H. unfold sub_gen in H'.
    destruct (closed s); [inversion H'; subst; assumption|].
    cbv zeta in H'.
    destruct ((0 <? g_maxlen g) && (g_maxlen g <? len) &&
              (negb match rt with RSharedPoll => true | _ => false end || lc)); [inversion H'; subst; assumption|].
    unfold at_limit in H'. rewrite Zb in H'. cbn [andb] in H'.
    assert (Reg : forall (a : st * list out),
              (if taken s n then (s, [OReply 105]) else
               if g_limit g <=? held s then (s, [OReply 106]) else
               match sc with
               | SOk => (mkSt false (chans s ++ [n]) (resv s) (mpend s) (mpag s) (next s) (q s), [OHandler n; OReply 0])
               | SErr code => (s, [OHandler n; OReply code])
               | SAsync => (mkSt false (chans s) (resv s ++ [(next s, n)]) (mpend s) (mpag s) (next s + 1) (q s), [OHandler n])
               end) = (s', o) -> held s' <= g_limit g).
    { intros _ Hr. destruct (taken s n); [inversion Hr; subst; assumption|].
      destruct (g_limit g <=? held s) eqn:L; [inversion Hr; subst; assumption|]. nb.
      destruct sc; inversion Hr; subst; unfold held in *; cbn [chans resv mpag] in *;
        rewrite ?app_length; cbn [length]; lia. }
    assert (Mp : forall paged,
              (if memN n (chans s) || memN n (mpag s) then (s, [OReply 105]) else
               if g_limit g <=? held s then (s, [OReply 106]) else
               match sc with
               | SOk => let '(s1, o1) := map_install true g s n paged (mpend s) in (s1, OHandler n :: o1)
               | SErr code => (s, [OHandler n; OReply code])
               | SAsync => (mkSt false (chans s) (resv s) (mpend s ++ [(next s, n)]) (mpag s) (next s + 1) (q s), [OHandler n])
               end) = (s', o) -> held s' <= g_limit g).
    { intros paged Hr. destruct (memN n (chans s) || memN n (mpag s)); [inversion Hr; subst; assumption|].
      destruct (g_limit g <=? held s) eqn:L; [inversion Hr; subst; assumption|].
      destruct sc.
      - destruct (map_install true g s n paged (mpend s)) as [s1 o1] eqn:M. inversion Hr; subst.
        eapply map_install_within; eassumption.
      - inversion Hr; subst; assumption.
      - inversion Hr; subst. unfold held in *. cbn [chans resv mpag] in *. exact W. }
    destruct rt; cbv zeta in H'.
    + apply (Reg (s', o)); exact H'.
    + apply (Reg (s', o)); exact H'.
    + apply (Mp false); exact H'.
    + apply (Mp true); exact H'.
  - (* completion *)
    inversion H as [H']. unfold complete_gen in H'.
    destruct (take tok (resv s)) as [[n rest]|] eqn:T.
    + pose proof (take_length _ _ _ _ T) as TL.
      destruct (closed s); [|destruct ok]; inversion H'; subst; unfold held in *; cbn [chans resv mpag] in *;
        rewrite ?app_length; cbn [length]; lia.
    + destruct (take tok (mpend s)) as [[n rest]|] eqn:T2; [|inversion H'; subst; assumption].
      destruct (closed s); [inversion H'; subst; unfold held in *; cbn [chans resv mpag] in *; exact W|].
      destruct ok.
      * eapply map_install_within; eassumption.
      * inversion H'; subst. unfold held in *. cbn [chans resv mpag] in *. exact W.
  - (* server-side subscribe *)
    inversion H as [H']. unfold srv_sub, at_limit in H'.
    destruct (closed s) eqn:C; [inversion H'; subst; assumption|].
    rewrite Zb in H'. cbn [andb] in H'.
    destruct (g_limit g <=? held s) eqn:L.
    + unfold close in H'. rewrite C in H'. inversion H'; subst. unfold held in *. cbn [chans resv mpag] in *. exact W.
    + nb. destruct (taken s n); inversion H'; subst; [assumption|].
      unfold held in *; cbn [chans resv mpag] in *; rewrite app_length; cbn [length]; lia.
  - (* unsubscribe *)
    unfold unsub_cmd in H. destruct (closed s); [inversion H; subst; assumption|].
    destruct (memN n (map snd (resv s)) || memN n (mpag s)); [discriminate|]. inversion H; subst.
    unfold held in *; cbn [chans resv mpag] in *.
    pose proof (filter_length_le N (fun x => negb (x =? n)) (chans s)). lia.
  - (* last page of a paginated map subscription *)
    unfold map_next in H. destruct (closed s); [inversion H; subst; assumption|].
    destruct (memN n (mpag s)) eqn:M; [|discriminate]. inversion H; subst.
    unfold held in *; cbn [chans resv mpag] in *. rewrite app_length. cbn [length].
    assert (L : (length (filter (fun x => negb (x =? n)) (mpag s)) < length (mpag s))%nat).
    { clear -M. unfold memN in M. induction (mpag s) as [|y l IH]; [discriminate|].
      cbn [existsb] in M. cbn [filter]. rewrite (N.eqb_sym y n). destruct (n =? y) eqn:E; cbn [negb].
      - pose proof (filter_length_le N (fun x => negb (x =? n)) l). cbn [length]. lia.
      - cbn [orb] in M. cbn [length]. specialize (IH M). lia. }
    lia.
  - (* unsubscribe racing a held subscribe: completion, then the unsubscribe *)
    destruct (take tok (resv s)) as [[n rest]|] eqn:T; [|discriminate].
    destruct (complete_gen true g s tok ok) as [s1 o1] eqn:E1.
    destruct (unsub_cmd s1 n) as [[s2 o2]|] eqn:E2; [|discriminate]. inversion H; subst.
    assert (W1 : held s1 <= g_limit g).
    { unfold complete_gen in E1. rewrite T in E1. pose proof (take_length _ _ _ _ T) as TL.
      destruct (closed s); [|destruct ok]; inversion E1; subst; unfold held in *; cbn [chans resv mpag] in *;
        rewrite ?app_length; cbn [length]; lia. }
    unfold unsub_cmd in E2. destruct (closed s1); [inversion E2; subst; assumption|].
    destruct (memN n (map snd (resv s1)) || memN n (mpag s1)); [discriminate|]. inversion E2; subst.
    unfold held in *; cbn [chans resv mpag] in *.
    pose proof (filter_length_le N (fun x => negb (x =? n)) (chans s1)). lia.
  - (* enqueue *)
    inversion H as [H']. unfold enqueue in H'. destruct (closed s) eqn:C; [inversion H'; subst; assumption|].
    cbv zeta in H'. cbn [q] in H'.
    destruct ((0 <? g_maxq g) && (g_maxq g <? q s + size)).
    + unfold close in H'. cbn [closed] in H'. inversion H'; subst. unfold held in *. cbn [chans resv mpag] in *. exact W.
    + inversion H'; subst. unfold held in *. cbn [chans resv mpag] in *. exact W.
Qed.

(* the channel limit is never exceeded, on any run, whatever server-side subscriptions the
   connection starts with *)
Lemma start_within : forall g names, within g (fst (start g names)).
Proof.
  intros g names. unfold within, start.
  destruct (N.eq_dec (g_limit g) 0) as [Z|Z]; [left; assumption|right].
  assert (Zb : (0 <? g_limit g) = true) by (apply N.ltb_lt; lia). rewrite Zb. cbn [andb].
  destruct (g_limit g <? N.of_nat (length names)) eqn:L; cbn [fst]; unfold held; cbn [chans resv mpag length].
  - lia.
  - nb. lia.
Qed.

Theorem limit_invariant : forall g names ls t,
  trace g (fst (start g names)) ls = Some t ->
  forall o s, In (o, s) t -> g_limit g = 0 \/ held s <= g_limit g.
Proof.
  intros g names ls t H.
  assert (G : forall ls s0 t, trace_gen sub_cmd complete g s0 ls = Some t -> within g s0 ->
                              forall o s, In (o, s) t -> within g s).
  { induction ls0 as [|l r IH]; intros s0 t0 Ht W o s Hin; cbn [trace_gen] in Ht.
    - inversion Ht; subst. contradiction.
    - destruct (step_gen sub_cmd complete g s0 l) as [[s1 o1]|] eqn:E; [|discriminate].
      destruct (trace_gen sub_cmd complete g s1 r) as [t1|] eqn:E2; [|discriminate].
      inversion Ht; subst.
      assert (W1 : within g s1) by (eapply (step_within true); [exact E|exact W]).
      destruct Hin as [Hin|Hin]; [inversion Hin; subst; assumption|].
      eapply IH; eassumption. }
  intros o s Hin. eapply G; [exact H|apply start_within|exact Hin].
Qed.

(* more connect-time subscriptions than the limit: disconnected with 3505, none is created *)
Theorem connect_over_limit : forall g names,
  0 < g_limit g -> g_limit g < N.of_nat (length names) ->
  start g names = (mkSt true [] [] [] [] 0 0, [OClose 3505]).
Proof.
  intros g names L1 L2. unfold start. apply N.ltb_lt in L1, L2. rewrite L1, L2. reflexivity.
Qed.

(* the code before the fixes: three overlapping map subscribes with held callbacks all pass the
   limit check (nothing is reserved) and are all installed *)
Theorem limit_prefix_refuted :
  exists g ls t o s, trace_prefix g init ls = Some t /\ In (o, s) t /\ 0 < g_limit g /\ g_limit g < held s.
Proof.
  exists (mkCfg 2 0 0),
         [LSub 1 3 RMap SAsync; LSub 2 3 RMap SAsync; LSub 3 3 RMap SAsync;
          LComplete 0 true; LComplete 1 true; LComplete 2 true].
  eexists. eexists. eexists. split; [vm_compute; reflexivity|]. split.
  - do 5 right. left. reflexivity.
  - vm_compute. split; reflexivity.
Qed.

(* at the limit: a further client subscribe is refused with 106 (or 105 if it is a duplicate)
   and changes nothing; a server-side one disconnects with 3505 *)
Theorem at_limit_client : forall g s n len rt sc,
  closed s = false -> 0 < g_limit g -> g_limit g <= held s ->
  (g_maxlen g = 0 \/ len <= g_maxlen g) -> taken s n = false ->
  sub_cmd g s n len rt sc = (s, [OReply 106]).
Proof.
  intros g s n len rt sc C L1 L2 Hl T. unfold sub_cmd, sub_gen, at_limit. rewrite C. cbv zeta.
  assert (X : (0 <? g_maxlen g) && (g_maxlen g <? len) = false).
  { destruct Hl as [Hl|Hl]; [rewrite Hl; reflexivity|].
    apply andb_false_iff. right. apply N.ltb_ge. assumption. }
  rewrite X. cbn [andb].
  apply N.ltb_lt in L1. apply N.leb_le in L2. rewrite L1, L2. cbn [andb].
  unfold taken in T. apply orb_false_iff in T. destruct T as [T M2]. apply orb_false_iff in T. destruct T as [M1 M3].
  assert (T : taken s n = false) by (unfold taken; rewrite M1, M2, M3; reflexivity).
  destruct rt; rewrite ?T, ?M1, ?M2; reflexivity.
Qed.

Theorem at_limit_server : forall g s n,
  closed s = false -> 0 < g_limit g -> g_limit g <= held s ->
  exists s', srv_sub g s n = (s', [OClose 3505]) /\ closed s' = true.
Proof.
  intros g s n C L1 L2. unfold srv_sub, at_limit. rewrite C.
  apply N.ltb_lt in L1. apply N.leb_le in L2. rewrite L1, L2. cbn [andb].
  unfold close. rewrite C. eexists; split; reflexivity.
Qed.

(* over-long channel name: refused with 107 on every route, nothing reserved, no handler *)
Theorem too_long_rejected : forall g s n len rt sc,
  closed s = false -> 0 < g_maxlen g -> g_maxlen g < len ->
  sub_cmd g s n len rt sc = (s, [OReply 107]).
Proof.
  intros g s n len rt sc C L1 L2. unfold sub_cmd, sub_gen. rewrite C. cbv zeta.
  apply N.ltb_lt in L1, L2. rewrite L1, L2. cbn [andb]. rewrite orb_true_r. reflexivity.
Qed.

(* the code before the fix: the shared-poll route accepts it *)
Theorem too_long_prefix_refuted :
  exists g s n len sc, closed s = false /\ 0 < g_maxlen g /\ g_maxlen g < len /\
    sub_cmd_prefix g s n len RSharedPoll sc <> (s, [OReply 107]).
Proof.
  exists (mkCfg 4 6 0), init, 1, 7, SOk. repeat split; try reflexivity. vm_compute. discriminate.
Qed.

(* queue limit: closed as slow exactly when the queued bytes exceed the limit *)
Theorem slow_iff : forall g s size,
  closed s = false -> 0 < g_maxq g ->
  (g_maxq g < q s + size ->
     exists s', enqueue g s size = (s', [OClose 3008]) /\ closed s' = true) /\
  (q s + size <= g_maxq g ->
     exists s', enqueue g s size = (s', []) /\ closed s' = false /\ q s' = q s + size).
Proof.
  intros g s size C L. unfold enqueue. rewrite C. apply N.ltb_lt in L. rewrite L. cbn [andb q].
  split; intro H.
  - apply N.ltb_lt in H. rewrite H. unfold close. cbn. eexists; split; reflexivity.
  - apply N.ltb_ge in H. rewrite H. eexists; repeat split; reflexivity.
Qed.
