(* C37 — proofs over Model/Limits.v for ALL configurations, states and label sequences
   (subscribe commands on both routes with synchronous / held callbacks, completions in any
   order, server-side subscribes, unsubscribes, enqueues). *)
From Coq Require Import List NArith Bool Lia.
From Cfg Require Import Model.Limits Model.LimitsSpec.
Import ListNotations.
Open Scope N_scope.

Ltac nb :=
  repeat match goal with
         | H : (_ <? _) = true |- _ => apply N.ltb_lt in H
         | H : (_ <? _) = false |- _ => apply N.ltb_ge in H
         | H : (_ <=? _) = true |- _ => apply N.leb_le in H
         | H : (_ <=? _) = false |- _ => apply N.leb_gt in H
         | H : (_ =? _) = true |- _ => apply N.eqb_eq in H
         | H : (_ =? _) = false |- _ => apply N.eqb_neq in H
         end.

Definition within (g : cfg) (s : st) : Prop := g_limit g = 0 \/ held s <= g_limit g.

Lemma held_app_chans : forall c r n x k, held (mkSt c (r ++ [x]) n k 0) = held (mkSt c r n k 0) + 1.
Proof. intros; unfold held; cbn [chans resv]. rewrite app_length; cbn. lia. Qed.

Lemma take_length : forall tok l n rest, take tok l = Some (n, rest) -> length l = S (length rest).
Proof.
  induction l as [|[t m] l IH]; intros n rest H; cbn [take] in H; [discriminate|].
  destruct (t =? tok).
  - inversion H; subst. reflexivity.
  - destruct (take tok l) as [[m' r']|] eqn:E; [|discriminate]. inversion H; subst.
    cbn [length]. rewrite (IH _ _ eq_refl). reflexivity.
Qed.

Lemma filter_length_le : forall (A : Type) (p : A -> bool) l, (length (filter p l) <= length l)%nat.
Proof. induction l as [|x l IH]; cbn; [lia|]. destruct (p x); cbn; lia. Qed.

Lemma step_within : forall sub_any g s l s' o,
  (forall g s n len sp sc, sub_any g s n len sp sc = sub_gen true g s n len sp sc \/
                           sub_any g s n len sp sc = sub_gen false g s n len sp sc) ->
  step_gen sub_any g s l = Some (s', o) -> within g s -> within g s'.
Proof.
  intros sub_any g s l s' o Hsub H W. unfold within in *.
  destruct (N.eq_dec (g_limit g) 0) as [Z|Z]; [left; assumption|right].
  destruct W as [W|W]; [contradiction|].
  assert (Zb : (0 <? g_limit g) = true) by (apply N.ltb_lt; lia).
  destruct l; cbn [step_gen] in H.
  - (* subscribe command *)
    inversion H as [H']. clear H.
    assert (G : forall b, sub_gen b g s n len sp sc = (s', o) -> held s' <= g_limit g).
    { intros b Hb. unfold sub_gen in Hb.
      destruct (closed s); [inversion Hb; subst; assumption|].
      destruct ((0 <? g_maxlen g) && (g_maxlen g <? len) && (negb sp || b)); [inversion Hb; subst; assumption|].
      destruct (taken s n); [inversion Hb; subst; assumption|].
      rewrite Zb in Hb. cbn [andb] in Hb.
      destruct (g_limit g <=? held s) eqn:L; [inversion Hb; subst; assumption|]. nb.
      destruct sc; inversion Hb; subst; unfold held in *; cbn [chans resv] in *;
        rewrite ?app_length; cbn [length]; lia. }
    destruct (Hsub g s n len sp sc) as [E|E]; rewrite E in H'; eapply G; eassumption.
  - (* completion *)
    inversion H as [H']. unfold complete in H'.
    destruct (take tok (resv s)) as [[n rest]|] eqn:T; [|inversion H'; subst; assumption].
    pose proof (take_length _ _ _ _ T) as TL.
    destruct (closed s); [|destruct ok]; inversion H'; subst; unfold held in *; cbn [chans resv] in *;
      rewrite ?app_length; cbn [length]; lia.
  - (* server-side subscribe *)
    inversion H as [H']. unfold srv_sub in H'.
    destruct (closed s) eqn:C; [inversion H'; subst; assumption|].
    rewrite Zb in H'. cbn [andb] in H'.
    destruct (g_limit g <=? held s) eqn:L.
    + unfold close in H'. rewrite C in H'. inversion H'; subst. unfold held in *. cbn [chans resv] in *. assumption.
    + nb. destruct (taken s n); inversion H'; subst; [assumption|].
      unfold held in *; cbn [chans resv] in *; rewrite app_length; cbn [length]; lia.
  - (* unsubscribe *)
    unfold unsub_cmd in H. destruct (closed s); [inversion H; subst; assumption|].
    destruct (memN n (map snd (resv s))); [discriminate|]. inversion H; subst.
    unfold held in *; cbn [chans resv] in *.
    pose proof (filter_length_le N (fun x => negb (x =? n)) (chans s)). lia.
  - (* enqueue *)
    inversion H as [H']. unfold enqueue in H'. destruct (closed s) eqn:C; [inversion H'; subst; assumption|].
    destruct ((0 <? g_maxq g) && (g_maxq g <? q s + size)).
    + unfold close in H'. cbn in H'. inversion H'; subst. unfold held in *. cbn in *. assumption.
    + inversion H'; subst. unfold held in *. cbn in *. assumption.
Qed.

(* the channel limit is never exceeded, on any run *)
Theorem limit_invariant : forall g ls t,
  trace g init ls = Some t -> forall o s, In (o, s) t -> g_limit g = 0 \/ held s <= g_limit g.
Proof.
  intros g ls t H.
  assert (G : forall ls s0 t, trace_gen sub_cmd g s0 ls = Some t -> within g s0 ->
                              forall o s, In (o, s) t -> within g s).
  { induction ls0 as [|l r IH]; intros s0 t0 Ht W o s Hin; cbn [trace_gen] in Ht.
    - inversion Ht; subst. contradiction.
    - destruct (step_gen sub_cmd g s0 l) as [[s1 o1]|] eqn:E; [|discriminate].
      destruct (trace_gen sub_cmd g s1 r) as [t1|] eqn:E2; [|discriminate].
      inversion Ht; subst.
      assert (W1 : within g s1).
      { eapply (step_within sub_cmd); [|exact E|exact W]. intros; left; reflexivity. }
      destruct Hin as [Hin|Hin]; [inversion Hin; subst; assumption|].
      eapply IH; eassumption. }
  intros o s Hin. eapply G; [exact H| |exact Hin]. right. unfold held, init. cbn. lia.
Qed.

(* at the limit: a further client subscribe is refused with 106 (or 105 if it is a duplicate)
   and changes nothing; a server-side one disconnects with 3505 *)
Theorem at_limit_client : forall g s n len sp sc,
  closed s = false -> 0 < g_limit g -> g_limit g <= held s ->
  (g_maxlen g = 0 \/ len <= g_maxlen g) -> taken s n = false ->
  sub_cmd g s n len sp sc = (s, [OReply 106]).
Proof.
  intros g s n len sp sc C L1 L2 Hl T. unfold sub_cmd, sub_gen. rewrite C, T.
  assert (X : (0 <? g_maxlen g) && (g_maxlen g <? len) = false).
  { destruct Hl as [Hl|Hl]; [rewrite Hl; reflexivity|].
    apply andb_false_iff. right. apply N.ltb_ge. assumption. }
  rewrite X. cbn [andb].
  apply N.ltb_lt in L1. apply N.leb_le in L2. rewrite L1, L2. reflexivity.
Qed.

Theorem at_limit_server : forall g s n,
  closed s = false -> 0 < g_limit g -> g_limit g <= held s ->
  exists s', srv_sub g s n = (s', [OClose 3505]) /\ closed s' = true.
Proof.
  intros g s n C L1 L2. unfold srv_sub. rewrite C.
  apply N.ltb_lt in L1. apply N.leb_le in L2. rewrite L1, L2. cbn [andb].
  unfold close. rewrite C. eexists; split; reflexivity.
Qed.

(* over-long channel name: refused with 107 on every route, nothing reserved, no handler *)
Theorem too_long_rejected : forall g s n len sp sc,
  closed s = false -> 0 < g_maxlen g -> g_maxlen g < len ->
  sub_cmd g s n len sp sc = (s, [OReply 107]).
Proof.
  intros g s n len sp sc C L1 L2. unfold sub_cmd, sub_gen. rewrite C.
  apply N.ltb_lt in L1, L2. rewrite L1, L2. cbn [andb]. rewrite orb_true_r. reflexivity.
Qed.

(* the code before the fix: the shared-poll route accepts it *)
Theorem too_long_prefix_refuted :
  exists g s n len sc, closed s = false /\ 0 < g_maxlen g /\ g_maxlen g < len /\
    sub_cmd_prefix g s n len true sc <> (s, [OReply 107]).
Proof.
  exists (mkCfg 4 6 0), init, 1, 7, SOk. repeat split; try reflexivity. vm_compute. discriminate.
Qed.

(* queue limit: closed as slow exactly when the queued bytes exceed the limit *)
Theorem slow_iff : forall g s size,
  closed s = false -> 0 < g_maxq g ->
  (g_maxq g < q s + size ->
     exists s', enqueue g s size = (s', [OClose 3008]) /\ closed s' = true) /\
  (q s + size <= g_maxq g ->
     exists s', enqueue g s size = (s', []) /\ closed s' = false /\ q s' = q s + size).
Proof.
  intros g s size C L. unfold enqueue. rewrite C. apply N.ltb_lt in L. rewrite L. cbn [andb q].
  split; intro H.
  - apply N.ltb_lt in H. rewrite H. unfold close. cbn. eexists; split; reflexivity.
  - apply N.ltb_ge in H. rewrite H. eexists; repeat split; reflexivity.
Qed.
