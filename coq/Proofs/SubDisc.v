(* C08: the disconnect callback runs at most once, and no alive callback runs after it.
   For ALL schedules of Model/SubLifecycle.v (uses the lock-holder invariant LInv). *)
From Coq Require Import List NArith ZArith Bool Lia.
From Cfg Require Import Model.SubLifecycle Proofs.SubLifecycleLib Proofs.SubBroker Proofs.SubBrokerStep Proofs.SubLocks.
Import ListNotations.
Open Scope N_scope.

Definition is_disc (e : ev) : bool := match e with EvDisconnectCb => true | _ => false end.
Definition is_alive (e : ev) : bool := match e with EvAliveCb => true | _ => false end.
Definition discs (l : list ev) : list ev := filter is_disc l.

(* the close that won the status flip and has not yet passed the disconnect handler *)
Definition pre_disc (o : option thread) : bool :=
  match o with
  | Some (TCls k) => match k_pc k with CRemove | CWriter | CTransport | CPresLock | CLoop | CDisc => true | _ => false end
  | _ => false
  end.
Definition at_disc (o : option thread) : bool :=
  match o with Some (TCls k) => match k_pc k with CDisc => true | _ => false end | _ => false end.
Definition at_alive (o : option thread) : bool :=
  match o with Some (TTck k) => match t_pc k with TAlive => true | _ => false end | _ => false end.

Record DInv (s : st) : Prop := {
  d_zero : forall t, pre_disc (thr s t) = true -> discs (trace s) = [];
  d_one : (length (discs (trace s)) <= 1)%nat;
  d_closed : discs (trace s) <> [] -> status s = Closed;
  d_win : forall t, pre_disc (thr s t) = true -> status s = Closed;
  d_alive : forall t, at_alive (thr s t) = true -> discs (trace s) = [];
  d_order : forall pre post, trace s = pre ++ EvDisconnectCb :: post -> ~ In EvAliveCb post
}.

Lemma DInv_init : DInv init.
Proof.
  constructor; cbn; intros; try discriminate; auto; try congruence.
  destruct pre; discriminate.
Qed.

Lemma discs_in l : In EvDisconnectCb l -> discs l <> [].
Proof.
  intros I E. assert (X : In EvDisconnectCb (discs l)) by (apply filter_In; auto). rewrite E in X. destruct X.
Qed.

Lemma app_last_decomp {A} (l : list A) e pre d post :
  l ++ [e] = pre ++ d :: post ->
  (exists post0, l = pre ++ d :: post0 /\ post = post0 ++ [e]) \/ (pre = l /\ d = e /\ post = []).
Proof.
  revert pre. induction l as [|a l IH]; intros pre H.
  - destruct pre as [|b pre]; cbn in H.
    + inv H. right. auto.
    + inv H. destruct pre; discriminate.
  - destruct pre as [|b pre]; cbn in H.
    + inv H. left. exists l. auto.
    + inv H. destruct (IH _ H2) as [(p0 & E1 & E2)|(E1 & E2 & E3)].
      * left. exists p0. subst. auto.
      * right. subst. auto.
Qed.

(* generic step *)
Lemma D_step s s' t o' es nt x :
  DInv s -> LInv s ->
  (thr s' = upd (thr s) t o' \/ (thr s' = upd (upd (thr s) nt (Some x)) t o' /\ thr s nt = None /\
                                 pre_disc (Some x) = false /\ at_alive (Some x) = false)) ->
  trace s' = trace s ++ es ->
  (es = [] \/ exists e, es = [e]) ->
  (forall e, In e es -> is_disc e = true -> at_disc (thr s t) = true /\ pre_disc o' = false) ->
  (forall e, In e es -> is_alive e = true -> at_alive (thr s t) = true) ->
  (status s' = status s \/ status s' = Closed \/ in_handler (thr s t) = true) ->
  (pre_disc o' = true -> pre_disc (thr s t) = true \/ (status s' = Closed /\ status s <> Closed)) ->
  (at_alive o' = true -> at_alive (thr s t) = true \/ (status s <> Closed /\ status s' = status s)) ->
  DInv s'.
Proof.
  intros [D1 D2 D3 D4 D5 D6] LI TH TR ES EDI EAL ST PD AA.
  assert (THT : thr s' t = o') by (destruct TH as [-> |(-> & _)]; apply upd_same).
  assert (OTH : forall t0, t0 <> t -> thr s' t0 = thr s t0 \/
                 (pre_disc (thr s' t0) = false /\ at_alive (thr s' t0) = false)).
  { intros t0 NE. destruct TH as [-> |(-> & FR & A & B)].
    - left. apply upd_other. auto.
    - rewrite upd_other; auto. unfold upd. destruct (N.eqb_spec t0 nt); auto. }
  assert (AD : at_disc (thr s t) = true -> pre_disc (thr s t) = true /\ holds_cmu (thr s t) = true /\ holds_pmu (thr s t) = true).
  { destruct (thr s t) as [[| |k| | |]|]; cbn; try discriminate. destruct (k_pc k); try discriminate; auto. }
  assert (PC : forall o, pre_disc o = true -> holds_cmu o = true).
  { intros [[| |k| | |]|]; cbn; try discriminate. destruct (k_pc k); try discriminate; auto. }
  assert (AP : forall o, at_alive o = true -> holds_pmu o = true).
  { intros [[| | |k| |]|]; cbn; try discriminate. destruct (t_pc k); try discriminate; auto. }
  assert (CLS : status s = Closed -> status s' = Closed).
  { intros C. destruct ST as [-> |[E|IH]]; auto. rewrite (l_conn _ LI _ IH) in C. discriminate. }
  assert (DS : discs (trace s') = discs (trace s) ++ discs es).
  { rewrite TR. unfold discs. apply filter_app. }
  assert (NOD : (forall e, In e es -> is_disc e = false) -> discs es = []).
  { clear. induction es as [|a l IH]; cbn; auto. intros H. rewrite (H a (or_introl eq_refl)). apply IH. auto. }
  assert (HASD : discs es <> [] -> at_disc (thr s t) = true /\ pre_disc o' = false).
  { intros NE. destruct (discs es) as [|e l] eqn:E; [congruence|].
    assert (I : In e (discs es)) by (rewrite E; left; auto). apply filter_In in I. destruct I. eauto. }
  assert (D3' : discs (trace s') <> [] -> status s' = Closed).
  { rewrite DS. intros NE. destruct (discs (trace s)) eqn:E0.
    - cbn in NE. destruct (HASD NE) as [A _]. apply CLS. apply (D4 t). apply AD. auto.
    - apply CLS. apply D3. congruence. }
  constructor.
  - (* d_zero *)
    intros t0 P. rewrite DS. destruct (N.eqb_spec t0 t).
    + subst t0. rewrite THT in P.
      assert (E0 : discs es = []).
      { destruct (discs es) eqn:E; auto. exfalso. destruct HASD as [_ X]; [congruence|]. congruence. }
      rewrite E0, app_nil_r. destruct (PD P) as [X|(_ & X)]; [eauto|].
      destruct (discs (trace s)) eqn:E; auto. exfalso. apply X. apply D3. congruence.
    + destruct (OTH t0 n) as [E|(X & _)]; [|congruence]. rewrite E in P. rewrite (D1 _ P). cbn.
      destruct (discs es) eqn:E0; auto. exfalso. destruct HASD as [A _]; [congruence|].
      apply n. eapply (l_cmu1 _ LI); [apply PC; auto|apply AD; auto].
  - (* d_one *)
    rewrite DS, app_length. destruct ES as [-> |(e & ->)]; cbn; [lia|].
    destruct (is_disc e) eqn:E; cbn; [|lia].
    destruct (EDI e (or_introl eq_refl) E) as [A _]. rewrite (D1 t); [cbn; lia|]. apply AD. auto.
  - exact D3'.
  - (* d_win *)
    intros t0 P. destruct (N.eqb_spec t0 t).
    + subst t0. rewrite THT in P. destruct (PD P) as [X|(X & _)]; eauto.
    + destruct (OTH t0 n) as [E|(X & _)]; [|congruence]. rewrite E in P. eauto.
  - (* d_alive *)
    intros t0 A.
    assert (X : discs (trace s') = [] \/ discs (trace s') <> [])
      by (destruct (discs (trace s')); [left; auto|right; discriminate]).
    destruct X as [X|NE]; auto. exfalso.
    destruct (N.eqb_spec t0 t).
    + subst t0. rewrite THT in A. destruct (AA A) as [X|(X & Y)].
      * rewrite DS, (D5 _ X) in NE. cbn in NE. destruct (HASD NE) as [Z _].
        destruct (thr s t) as [[| | | | |]|]; cbn in *; discriminate.
      * apply X. rewrite <- Y. auto.
    + destruct (OTH t0 n) as [E|(_ & X)]; [|congruence]. rewrite E in A.
      rewrite DS, (D5 _ A) in NE. cbn in NE. destruct (HASD NE) as [Z _].
      apply n. eapply (l_pmu1 _ LI); [apply AP; auto|apply AD; auto].
  - (* d_order *)
    intros pre post E. rewrite TR in E. destruct ES as [-> |(e & ->)].
    + rewrite app_nil_r in E. eauto.
    + destruct (app_last_decomp _ _ _ _ _ E) as [(p0 & E1 & E2)|(_ & _ & ->)]; [|auto].
      subst post. intros I. apply in_app_or in I. destruct I as [I|[I|[]]]; [eapply D6; eauto|]. subst e.
      pose proof (EAL _ (or_introl eq_refl) eq_refl) as A.
      apply (discs_in (trace s)); [rewrite E1; apply in_or_app; right; left; auto|]. eauto.
Qed.

Lemma D_frame s s' :
  DInv s -> trace s' = trace s -> status s' = status s ->
  (forall t0, thr s' t0 = thr s t0 \/ (pre_disc (thr s' t0) = false /\ at_alive (thr s' t0) = false)) ->
  DInv s'.
Proof.
  intros [D1 D2 D3 D4 D5 D6] TR ST OTH.
  constructor; rewrite ?TR, ?ST; auto.
  - intros t0 P. destruct (OTH t0) as [E|(X & _)]; [rewrite E in P; eauto|congruence].
  - intros t0 P. destruct (OTH t0) as [E|(X & _)]; [rewrite E in P; eauto|congruence].
  - intros t0 P. destruct (OTH t0) as [E|(_ & X)]; [rewrite E in P; eauto|congruence].
Qed.

Ltac cored :=
  unfold spawn_int, submit_job, thr_set, thr_del, log, set_gst1 in *;
  cbn [thr status trace next_int next_ext
       set_status set_authed set_closing set_chans set_genctr set_gclosed set_cmu set_pmu set_pinfl
       set_kstarted set_slock set_hub set_others set_reg set_pres set_bsub set_jobs set_gconn set_gsub
       set_trace set_thr set_next_ext set_next_int set_panicked set_wclosed set_hreg set_shut set_gst] in *.

Lemma cgd g s : thr (close_gate g s) = thr s /\ trace (close_gate g s) = trace s /\
  status (close_gate g s) = status s /\ next_int (close_gate g s) = next_int s.
Proof. unfold close_gate. destruct (gclosed s g); cbn; auto. Qed.
Lemma cgd1 g s : thr (close_gate g s) = thr s. Proof. apply cgd. Qed.
Lemma cgd2 g s : trace (close_gate g s) = trace s. Proof. apply cgd. Qed.
Lemma cgd3 g s : status (close_gate g s) = status s. Proof. apply cgd. Qed.
Lemma cgd4 g s : next_int (close_gate g s) = next_int s. Proof. apply cgd. Qed.
Lemma ccd1 c s : thr (close_cap c s) = thr s. Proof. destruct c; cbn; auto. apply cgd1. Qed.
Lemma ccd2 c s : trace (close_cap c s) = trace s. Proof. destruct c; cbn; auto. apply cgd2. Qed.
Lemma ccd3 c s : status (close_cap c s) = status s. Proof. destruct c; cbn; auto. apply cgd3. Qed.
Lemma ccd4 c s : next_int (close_cap c s) = next_int s. Proof. destruct c; cbn; auto. apply cgd4. Qed.
Lemma hrd c g s : thr (hubrem c g s) = thr s /\ trace (hubrem c g s) = trace s /\
  status (hubrem c g s) = status s /\ next_int (hubrem c g s) = next_int s.
Proof. unfold hubrem. destruct (hub s c); [destruct (_ =? g); [destruct (others s c =? 0)|]|]; cbn; auto. Qed.
Lemma hrd1 c g s : thr (hubrem c g s) = thr s. Proof. apply hrd. Qed.
Lemma hrd2 c g s : trace (hubrem c g s) = trace s. Proof. apply hrd. Qed.
Lemma hrd3 c g s : status (hubrem c g s) = status s. Proof. apply hrd. Qed.
Lemma hrd4 c g s : next_int (hubrem c g s) = next_int s. Proof. apply hrd. Qed.
Ltac drw := rewrite ?cgd1, ?cgd2, ?cgd3, ?cgd4, ?ccd1, ?ccd2, ?ccd3, ?ccd4, ?hrd1, ?hrd2, ?hrd3, ?hrd4.

Ltac use_eqs := repeat match goal with E : _ = _ |- context [match ?p with _ => _ end] => rewrite E; cbn end.

Ltac d_ev ET := let e := fresh in let I := fresh in let X := fresh in
  intros e I X; cbn in I;
  first [ contradiction
        | destruct I as [I|[]]; subst e; cbn in X;
          first [ discriminate X | rewrite ET; cbn; use_eqs; first [reflexivity | split; reflexivity] ] ].

Ltac dstep DI LI ET FR s0 :=
  eapply D_step with (nt := 2 * next_int s0 + 1) (x := new_close);
  [ exact DI | exact LI
  | first [ left; cored; drw; reflexivity
          | right; split; [cored; drw; reflexivity|split; [exact FR|split; reflexivity]] ]
  | cored; drw; first [reflexivity | symmetry; apply app_nil_r]
  | first [left; reflexivity | right; eexists; reflexivity]
  | d_ev ET
  | d_ev ET
  | first [ left; cored; drw; reflexivity | right; left; cored; drw; reflexivity
          | right; right; rewrite ET; reflexivity ]
  | cbn; use_eqs;
    first [ let X := fresh in intros X; discriminate X
          | intros _; first [ left; rewrite ET; cbn; use_eqs; reflexivity
                            | right; split; [cored; drw; reflexivity
                                            | let C := fresh in intros C; rewrite C in *; discriminate] ] ]
  | cbn; use_eqs;
    first [ let X := fresh in intros X; discriminate X
          | intros _; first [ left; rewrite ET; cbn; use_eqs; reflexivity
                            | right; split; [let C := fresh in intros C; rewrite C in *; discriminate
                                            | cored; drw; reflexivity] ] ] ].

Lemma astep_D s l s' : DInv s -> LInv s -> InvBS s -> astep s l = Some s' -> DInv s'.
Proof.
  intros DI LI I H.
  assert (FR : thr s (2 * next_int s + 1) = None) by (eapply fresh_int_b; eauto).
  assert (FRE : thr s (2 * next_ext s) = None) by (eapply fresh_ext_b; eauto).
  destruct l; cbn in H.
  - (* spawn *)
    unfold spawn in H.
    assert (G : forall x s1 tn, thr s1 = upd (thr s) tn (Some x) ->
                pre_disc (Some x) = false -> at_alive (Some x) = false ->
                trace s1 = trace s -> status s1 = status s -> DInv s1).
    { intros x s1 tn TH A B E1 E2. eapply D_frame; eauto.
      intros t0. rewrite TH. unfold upd. destruct (N.eqb_spec t0 tn); auto. }
    destruct o;
      repeat match type of H with (if ?c then _ else _) = _ => destruct c eqn:? end;
      try discriminate; inv H;
      try (eapply G with (tn := 2 * next_ext s); [cored; reflexivity|reflexivity|reflexivity|cored; reflexivity|cored; reflexivity]; fail).
    destruct (reg s).
    + eapply G with (tn := 2 * next_int s + 1); [cored; reflexivity|reflexivity|reflexivity|cored; reflexivity|cored; reflexivity].
    + eapply D_frame; [exact DI|cored; reflexivity|cored; reflexivity|intros t0; left; cored; reflexivity].
  - (* step *)
    unfold step_thread in H. destruct (thr s t) as [[a|u|k|k|pc|c]|] eqn:ET; try discriminate.
    + unfold att_step in H.
      destruct (a_pc a) eqn:EPC;
        repeat match type of H with
        | (if ?c then _ else _) = _ => destruct c eqn:?
        | match ?o with Some _ => _ | None => _ end = _ => destruct o eqn:?
        | match ?k with Cli => _ | Srv => _ end = _ => destruct k eqn:?
        end; try discriminate; inv H; cbv zeta;
        repeat (match goal with |- context [if ?x then _ else _] => destruct x eqn:? end);
        repeat (match goal with |- context [match hub ?s0 ?c with Some _ => _ | None => _ end] => destruct (hub s0 c) eqn:? end);
        repeat (match goal with |- context [if ?x then _ else _] => destruct x eqn:? end);
        dstep DI LI ET FR s.
    + destruct (u_step s t u b) as [[s1 ou]|] eqn:EU; [|discriminate]. unfold u_step in EU.
      destruct (u_pc u);
        repeat match type of EU with
        | (if ?c then _ else _) = _ => destruct c eqn:?
        | match ?o with Some _ => _ | None => _ end = _ => destruct o eqn:?
        end; try discriminate; injection EU as EU1 EU2; subst s1 ou; inv H;
        repeat (match goal with |- context [if ?x then _ else _] => destruct x eqn:? end);
        dstep DI LI ET FR s.
    + (* close *)
      unfold cls_step in H. destruct (k_pc k) eqn:EPC.
      8:{ destruct (k_cur k) as [u|] eqn:EC.
          - destruct (u_step s t u b) as [[s1 ou]|] eqn:EU; [|discriminate]. unfold u_step in EU.
            destruct (u_pc u);
              repeat match type of EU with
              | (if ?c then _ else _) = _ => destruct c eqn:?
              | match ?o with Some _ => _ | None => _ end = _ => destruct o eqn:?
              end; try discriminate; injection EU as EU1 EU2; subst s1 ou; inv H;
              repeat (match goal with |- context [if ?x then _ else _] => destruct x eqn:? end);
              dstep DI LI ET FR s.
          - destruct (k_rest k); [|destruct b]; inv H; dstep DI LI ET FR s. }
      all: repeat match type of H with (if ?c then _ else _) = _ => destruct c eqn:? end;
           try discriminate; inv H;
           repeat (match goal with |- context [if ?x then _ else _] => destruct x eqn:? end);
           dstep DI LI ET FR s.
    + unfold tck_step in H. destruct b.
      all: destruct (t_pc k) eqn:EPC;
        repeat match type of H with
        | (if ?c then _ else _) = _ => destruct c eqn:?
        | match ?l with [] => _ | _ :: _ => _ end = _ => destruct l
        | match ?o with Some _ => _ | None => _ end = _ => destruct o
        end; try discriminate; inv H;
        repeat (match goal with |- context [if ?x then _ else _] => destruct x eqn:? end);
        dstep DI LI ET FR s.
    + unfold con_step in H. destruct pc;
        repeat match type of H with (if ?c then _ else _) = _ => destruct c eqn:? end;
        try discriminate; inv H;
        repeat (match goal with |- context [if ?x then _ else _] => destruct x eqn:? end);
        dstep DI LI ET FR s.
    + unfold job_step in H. destruct b; inv H; dstep DI LI ET FR s.
  - (* timeout *)
    unfold timeout_thread in H. destruct (thr s t) as [[a|u|k|k|pc|c]|] eqn:ET; try discriminate.
    + destruct (u_timeout s u) as [s1|] eqn:EU; inv H. unfold u_timeout in EU.
      destruct (u_pc u); try discriminate. inv EU.
      destruct (lookup (u_ch u) (chans s)) as [x|]; [destruct (c_gate x)|]; dstep DI LI ET FR s.
    + destruct (k_pc k) eqn:EPC; try discriminate. destruct (k_cur k) as [u|]; try discriminate.
      destruct (u_timeout s u) as [s1|] eqn:EU; inv H. unfold u_timeout in EU.
      destruct (u_pc u); try discriminate. inv EU.
      destruct (lookup (u_ch u) (chans s)) as [x|]; [destruct (c_gate x)|]; dstep DI LI ET FR s.
  - (* job start *)
    unfold job_start in H. destruct (mem c (jobs s) && negb (slock s c)); [|discriminate].
    destruct (subscribers s c); inv H;
      (eapply D_frame; [exact DI|cored; reflexivity|cored; reflexivity|]).
    + intros t0. left. cored. reflexivity.
    + intros t0. cored. unfold upd. destruct (N.eqb_spec t0 (2 * next_int s + 1)); auto.
  - unfold other_add in H. destruct (slock s c); [discriminate|].
    destruct (subscribers s c); [|destruct b]; inv H;
      (eapply D_frame; [exact DI|cored; reflexivity|cored; reflexivity|intros t0; left; cored; reflexivity]).
  - unfold other_rem in H. destruct (slock s c || (others s c =? 0)); [discriminate|].
    destruct ((others s c =? 1) && match hub s c with None => true | Some _ => false end); inv H;
      (eapply D_frame; [exact DI|cored; reflexivity|cored; reflexivity|intros t0; left; cored; reflexivity]).
Qed.

Theorem exec_D l : forall s s', DInv s -> LInv s -> InvBS s -> exec l s = Some s' -> DInv s'.
Proof.
  induction l as [|x l IH]; cbn; intros s s' DI LI I H.
  - inv H. auto.
  - destruct (astep s x) as [s1|] eqn:E; [|discriminate].
    apply (IH s1 s'); auto; [eapply astep_D|eapply astep_L|eapply astep_B]; eauto.
Qed.

(* ALL schedules *)
Theorem disconnect_at_most_once sched s :
  exec sched init = Some s -> (length (filter is_disc (trace s)) <= 1)%nat.
Proof. intros E. apply (d_one s). eapply exec_D; eauto; [apply DInv_init|apply LInv_init|apply InvBS_init]. Qed.

Theorem no_alive_after_disconnect sched s pre post :
  exec sched init = Some s -> trace s = pre ++ EvDisconnectCb :: post -> ~ In EvAliveCb post.
Proof. intros E. apply (d_order s). eapply exec_D; eauto; [apply DInv_init|apply LInv_init|apply InvBS_init]. Qed.

(* the disconnect callback runs only in the Closed state, which is absorbing *)
Theorem disconnect_only_closed sched s :
  exec sched init = Some s -> In EvDisconnectCb (trace s) -> status s = Closed.
Proof.
  intros E I. apply (d_closed s); [eapply exec_D; eauto; [apply DInv_init|apply LInv_init|apply InvBS_init]|].
  apply discs_in. auto.
Qed.
