(* C30 proofs, part A: one frame produced by flushFrame / WriteControl is decoded by the strict
   reference decoder of Model/WsReadSpec.v into exactly that frame (header bits, the three length
   layouts, masking), whatever follows it on the wire. *)
From Coq Require Import String List NArith Bool Arith Lia ZifyN ZifyNat.
From Cfg Require Import Gen.WsConst Model.WsUtf8 Model.WsFrame Model.WsReadSpec Model.WsWrite Model.WsWriteSpec
     Proofs.WsLib Proofs.WsReadA Proofs.WsReadC.
Import ListNotations.
Open Scope N_scope.

(* ---------------------------------------------------------------- big-endian *)

Lemma be_snoc : forall p b, be (p ++ [b]) = be p * 256 + b.
Proof. intros p b. unfold be. rewrite fold_left_app. reflexivity. Qed.

Lemma be_enc_length : forall k n, length (be_enc k n) = k.
Proof. induction k as [|k IH]; intro n; simpl; [reflexivity|]. rewrite app_length, IH. simpl. lia. Qed.

Lemma be_be_enc : forall k n, n < 256 ^ N.of_nat k -> be (be_enc k n) = n.
Proof.
  induction k as [|k IH]; intros n H.
  - simpl in *. assert (n = 0) by lia. subst. reflexivity.
  - simpl be_enc. rewrite be_snoc. rewrite IH.
    + rewrite N.mul_comm. symmetry. apply N.div_mod. discriminate.
    + apply N.div_lt_upper_bound; [discriminate|].
      rewrite Nat2N.inj_succ, N.pow_succ_r' in H. lia.
Qed.

(* ---------------------------------------------------------------- take_n on a known prefix *)

Lemma take_n_app : forall (p rest : bytes) n, n = N.of_nat (length p) -> take_n n (p ++ rest) = Some (p, rest).
Proof.
  intros p rest n ->. unfold take_n. rewrite app_length.
  destruct (N.ltb_spec (N.of_nat (length p + length rest)) (N.of_nat (length p))); [lia|].
  rewrite Nat2N.id. rewrite firstn_app, Nat.sub_diag, firstn_all. simpl. rewrite app_nil_r.
  rewrite skipn_app, Nat.sub_diag, skipn_all. reflexivity.
Qed.

(* ---------------------------------------------------------------- masking is an involution *)

Lemma xor_mask_invol : forall key pos p, xor_mask key pos (xor_mask key pos p) = p.
Proof.
  intros key pos p. revert pos. induction p as [|b r IH]; intro pos; simpl; [reflexivity|].
  rewrite IH. f_equal. rewrite N.lxor_assoc, N.lxor_nilpotent, N.lxor_0_r. reflexivity.
Qed.

Lemma xor_mask_length : forall key pos p, length (xor_mask key pos p) = length p.
Proof. intros key pos p. revert pos. induction p as [|b r IH]; intro pos; simpl; [reflexivity|]. rewrite IH. reflexivity. Qed.

(* ---------------------------------------------------------------- header bytes, by exhaustion *)

Definition b0_of (op : N) (fin : bool) : N := op + (if fin then c_finalBit else 0) + 0.

Lemma b0_bits : forall op fin, op < 16 ->
    b_fin (b0_of op fin) = fin /\ b_rsv1 (b0_of op fin) = false /\ b_rsv2 (b0_of op fin) = false
    /\ b_rsv3 (b0_of op fin) = false /\ b_opcode (b0_of op fin) = op.
Proof.
  intros op fin H.
  assert (E : forallb (fun op => forallb (fun fin =>
               Bool.eqb (b_fin (b0_of op fin)) fin && negb (b_rsv1 (b0_of op fin)) && negb (b_rsv2 (b0_of op fin))
               && negb (b_rsv3 (b0_of op fin)) && (b_opcode (b0_of op fin) =? op)) [true; false]) (n_range 0 16) = true)
    by (vm_compute; reflexivity).
  rewrite forallb_forall in E. specialize (E op (n_range_In 16 0 op ltac:(lia) ltac:(lia))).
  rewrite forallb_forall in E. specialize (E fin ltac:(destruct fin; simpl; auto)).
  apply andb_true_iff in E as [E H5]. apply andb_true_iff in E as [E H4]. apply andb_true_iff in E as [E H3].
  apply andb_true_iff in E as [H1 H2].
  apply eqb_prop in H1. apply negb_true_iff in H2. apply negb_true_iff in H3. apply negb_true_iff in H4.
  apply N.eqb_eq in H5. auto.
Qed.

Lemma b1_bits : forall (masked : bool) l, l < 128 ->
    b_masked ((if masked then c_maskBit else 0) + l) = masked /\ b_len7 ((if masked then c_maskBit else 0) + l) = l.
Proof.
  intros masked l H.
  assert (E : forallb (fun l : N => forallb (fun masked : bool =>
               Bool.eqb (b_masked ((if masked then c_maskBit else 0) + l)) masked
               && (b_len7 ((if masked then c_maskBit else 0) + l) =? l)) [true; false]) (n_range 0 128) = true)
    by (vm_compute; reflexivity).
  rewrite forallb_forall in E. specialize (E l (n_range_In 128 0 l ltac:(lia) ltac:(lia))).
  rewrite forallb_forall in E. specialize (E masked ltac:(destruct masked; simpl; auto)).
  apply andb_true_iff in E as [E F]. apply eqb_prop in E. apply N.eqb_eq in F. auto.
Qed.

(* ---------------------------------------------------------------- a frame as flushFrame lays it out *)

(* masked = the writer is a client *)
Definition enc_frame (masked : bool) (key : bytes) (b0 : N) (payload : bytes) : bytes :=
  encode_header (negb masked) b0 (N.of_nat (length payload))
  ++ (if masked then key ++ xor_mask key 0 payload else payload).

Definition S0 (ok : N -> bool) : spolicy := strict ok.

Lemma check_nil : forall P k, check P [] k = k.
Proof. reflexivity. Qed.

Lemma app_assoc4 : forall (a b c d : bytes), (a ++ b) ++ c ++ d = a ++ b ++ c ++ d.
Proof. intros. rewrite <- app_assoc. reflexivity. Qed.

(* the decoder, after the first two bytes of a frame written by enc_frame, finds length, key and payload *)
Lemma decode_body : forall ok (masked : bool) key b0 payload rest (k : N -> bytes -> bytes -> fres),
    N.of_nat (length payload) < two63 -> (masked = true -> length key = 4%nat) ->
    let len := N.of_nat (length payload) in
    let l7 := if 65536 <=? len then 127 else if 125 <? len then 126 else len in
    forall bs1,
      (encode_header (negb masked) b0 len ++ (if masked then key ++ xor_mask key 0 payload else payload)) ++ rest
      = [b0; (if masked then c_maskBit else 0) + l7] ++ bs1 ->
      spec_len (S0 ok) l7 bs1 (fun len' bs2 => spec_key masked bs2 (fun key' bs3 => k len' key' bs3))
      = k len (if masked then key else []) ((if masked then xor_mask key 0 payload else payload) ++ rest).
Proof.
  intros ok masked key b0 payload rest k Hlen Hkey len l7 bs1 E.
  assert (Hmb : (if negb masked then 0 else c_maskBit) = (if masked then c_maskBit else 0)) by (destruct masked; reflexivity).
  unfold encode_header in E. rewrite Hmb in E. fold len in E.
  unfold spec_len. subst l7.
  destruct (N.leb_spec 65536 len) as [Hbig|Hsmall].
  - (* 64 bit length *)
    rewrite <- !app_assoc in E. apply app_inv_head in E. subst bs1.
    change (127 =? 126) with false. change (127 =? 127) with true. cbv iota.
    unfold need. rewrite take_n_app by (rewrite be_enc_length; reflexivity).
    rewrite be_be_enc by (change (256 ^ N.of_nat 8) with 18446744073709551616; unfold two63 in Hlen; lia).
    destruct (N.leb_spec two63 len); [lia|].
    destruct (N.ltb_spec len 65536); [lia|]. rewrite check_nil.
    unfold spec_key. destruct masked.
    + unfold need. rewrite <- app_assoc. rewrite take_n_app by (rewrite (Hkey eq_refl); reflexivity). reflexivity.
    + reflexivity.
  - destruct (N.ltb_spec 125 len) as [Hmid|Htiny].
    + (* 16 bit length *)
      rewrite <- !app_assoc in E. apply app_inv_head in E. subst bs1.
      change (126 =? 126) with true. cbv iota.
      unfold need. rewrite take_n_app by (rewrite be_enc_length; reflexivity).
      rewrite be_be_enc by (change (256 ^ N.of_nat 2) with 65536; lia).
      destruct (N.ltb_spec len 126); [lia|]. rewrite check_nil.
      unfold spec_key. destruct masked.
      * unfold need. rewrite <- app_assoc. rewrite take_n_app by (rewrite (Hkey eq_refl); reflexivity). reflexivity.
      * reflexivity.
    + (* 7 bit length *)
      rewrite <- !app_assoc in E. apply app_inv_head in E. subst bs1.
      destruct (N.eqb_spec len 126); [lia|]. destruct (N.eqb_spec len 127); [lia|].
      unfold spec_key, need. destruct masked.
      * unfold need. rewrite <- app_assoc. rewrite take_n_app by (rewrite (Hkey eq_refl); reflexivity). reflexivity.
      * reflexivity.
Qed.

(* first two bytes of an encoded frame *)
Lemma enc_frame_head : forall masked key b0 payload rest,
    let len := N.of_nat (length payload) in
    let l7 := if 65536 <=? len then 127 else if 125 <? len then 126 else len in
    exists bs1, enc_frame masked key b0 payload ++ rest = [b0; (if masked then c_maskBit else 0) + l7] ++ bs1
                /\ l7 < 128.
Proof.
  intros masked key b0 payload rest len l7. unfold enc_frame, encode_header. fold len.
  assert (Hmb : (if negb masked then 0 else c_maskBit) = (if masked then c_maskBit else 0)) by (destruct masked; reflexivity).
  rewrite Hmb. subst l7.
  destruct (65536 <=? len).
  - eexists. split; [simpl; reflexivity|lia].
  - destruct (N.ltb_spec 125 len).
    + eexists. split; [simpl; reflexivity|lia].
    + eexists. split; [simpl; reflexivity|lia].
Qed.

(* ---------------------------------------------------------------- data frames *)

Definition peer (masked : bool) : scfg := mkScfg masked false 0 0 no_avail.

Lemma header_ok_data : forall (masked in_frag fin : bool) op l7,
    (if in_frag then op = 0 else op = 1 \/ op = 2) ->
    header_violations false masked in_frag fin false false false masked op l7 = [].
Proof.
  intros masked in_frag fin op l7 H. unfold header_violations.
  destruct in_frag.
  - subst op. simpl. rewrite eqb_reflx. reflexivity.
  - destruct H as [-> | ->]; simpl; rewrite eqb_reflx; reflexivity.
Qed.

Lemma decode_data_frame : forall ok infl masked key (fin : bool) op payload rest (frag : option fragst) typ acc total,
    N.of_nat (length payload) < two63 -> (masked = true -> length key = 4%nat) ->
    match frag with
    | None => (op = 1 \/ op = 2) /\ typ = op /\ acc = [] /\ total = 0
    | Some f => op = 0 /\ f = (typ, false, acc, total)
    end ->
    total + N.of_nat (length payload) < two63 ->
    spec_frame (S0 ok) (peer masked) infl frag (enc_frame masked key (b0_of op fin) payload ++ rest)
    = if fin then complete (S0 ok) (peer masked) infl typ false (acc ++ payload) rest
      else FCont [] (Some (typ, false, acc ++ payload, total + N.of_nat (length payload))) rest.
Proof.
  intros ok infl masked key fin op payload rest frag typ acc total Hlen Hkey Hfrag Htot.
  destruct (enc_frame_head masked key (b0_of op fin) payload rest) as [bs1 [E L7]].
  assert (Hop : op < 16) by (destruct frag as [f|]; [destruct Hfrag as [-> _]|destruct Hfrag as [[-> | ->] _]]; lia).
  destruct (b0_bits op fin Hop) as [B1 [B2 [B3 [B4 B5]]]].
  set (l7 := if 65536 <=? N.of_nat (length payload) then 127 else if 125 <? N.of_nat (length payload) then 126 else N.of_nat (length payload)) in *.
  destruct (b1_bits masked l7 L7) as [M1 M2].
  unfold spec_frame. rewrite E. unfold need. rewrite (take_n_app [_; _] bs1 2 eq_refl).
  rewrite B1, B2, B3, B4, B5, M1, M2. simpl s_compress. simpl s_server.
  rewrite header_ok_data.
  2:{ destruct frag as [f|]; [destruct Hfrag as [-> _]; reflexivity|destruct Hfrag as [H _]; exact H]. }
  rewrite check_nil.
  assert (Hctl : is_control op = false).
  { destruct frag as [f|]; [destruct Hfrag as [-> _]|destruct Hfrag as [[-> | ->] _]]; reflexivity. }
  rewrite Hctl.
  unfold enc_frame in E. subst l7.
  rewrite (decode_body ok masked key (b0_of op fin) payload rest
             (fun len key' bs3 => spec_data (S0 ok) (peer masked) infl frag fin false op len key' bs3) Hlen Hkey bs1 E).
  assert (Hun : unmask (peer masked) (if masked then key else []) (if masked then xor_mask key 0 payload else payload) = payload).
  { unfold unmask. simpl s_server. destruct masked; [apply xor_mask_invol|reflexivity]. }
  assert (Htake : take_n (N.of_nat (length payload)) ((if masked then xor_mask key 0 payload else payload) ++ rest)
                  = Some ((if masked then xor_mask key 0 payload else payload), rest)).
  { apply take_n_app. destruct masked; [rewrite xor_mask_length|]; reflexivity. }
  unfold spec_data.
  destruct frag as [f|].
  - destruct Hfrag as [_ ->].
    destruct (N.leb_spec two63 (total + N.of_nat (length payload))); [lia|].
    simpl s_limit. change (0 <? 0) with false. cbv iota beta. simpl andb. cbv iota.
    unfold need. rewrite Htake. rewrite Hun. reflexivity.
  - destruct Hfrag as [_ [-> [-> ->]]].
    change (false && s_compress (peer masked)) with false.
    destruct (N.leb_spec two63 (0 + N.of_nat (length payload))); [lia|].
    simpl s_limit. change (0 <? 0) with false. cbv iota beta. simpl andb. cbv iota.
    unfold need. rewrite Htake. rewrite Hun. reflexivity.
Qed.

(* ---------------------------------------------------------------- control frames *)

Lemma header_ok_ctl : forall (masked in_frag : bool) op l7,
    op = 8 \/ op = 9 \/ op = 10 -> l7 <= 125 ->
    header_violations false masked in_frag true false false false masked op l7 = [].
Proof.
  intros masked in_frag op l7 H L. unfold header_violations.
  destruct (N.ltb_spec 125 l7); [lia|].
  destruct H as [-> | [-> | ->]]; simpl; rewrite eqb_reflx; destruct in_frag; reflexivity.
Qed.

Lemma decode_control_frame : forall ok infl masked key op payload rest (frag : option fragst),
    op = 8 \/ op = 9 \/ op = 10 -> N.of_nat (length payload) <= 125 -> (masked = true -> length key = 4%nat) ->
    spec_frame (S0 ok) (peer masked) infl frag (enc_frame masked key (b0_of op true) payload ++ rest)
    = if op =? 9 then FCont [SPong payload] frag rest
      else if op =? 10 then FCont [] frag rest
      else close_frame (S0 ok) payload.
Proof.
  intros ok infl masked key op payload rest frag Hop Hlen Hkey.
  destruct (enc_frame_head masked key (b0_of op true) payload rest) as [bs1 [E L7]].
  assert (Hop16 : op < 16) by (destruct Hop as [-> | [-> | ->]]; lia).
  destruct (b0_bits op true Hop16) as [B1 [B2 [B3 [B4 B5]]]].
  set (l7 := if 65536 <=? N.of_nat (length payload) then 127 else if 125 <? N.of_nat (length payload) then 126 else N.of_nat (length payload)) in *.
  assert (Hl7 : l7 = N.of_nat (length payload)).
  { subst l7. destruct (N.leb_spec 65536 (N.of_nat (length payload))); [lia|].
    destruct (N.ltb_spec 125 (N.of_nat (length payload))); [lia|reflexivity]. }
  destruct (b1_bits masked l7 L7) as [M1 M2].
  unfold spec_frame. rewrite E. unfold need. rewrite (take_n_app [_; _] bs1 2 eq_refl).
  rewrite B1, B2, B3, B4, B5, M1, M2. simpl s_compress. simpl s_server.
  rewrite header_ok_ctl by (auto; rewrite Hl7; lia). rewrite check_nil.
  assert (Hctl : is_control op = true) by (destruct Hop as [-> | [-> | ->]]; reflexivity).
  rewrite Hctl.
  unfold enc_frame in E. clear Hl7. subst l7.
  assert (H63 : N.of_nat (length payload) < two63) by (unfold two63; lia).
  rewrite (decode_body ok masked key (b0_of op true) payload rest
             (fun len key' bs3 => spec_control (S0 ok) (peer masked) frag op len key' bs3) H63 Hkey bs1 E).
  assert (Hun : unmask (peer masked) (if masked then key else []) (if masked then xor_mask key 0 payload else payload) = payload).
  { unfold unmask. simpl s_server. destruct masked; [apply xor_mask_invol|reflexivity]. }
  assert (Htake : take_n (N.of_nat (length payload)) ((if masked then xor_mask key 0 payload else payload) ++ rest)
                  = Some ((if masked then xor_mask key 0 payload else payload), rest)).
  { apply take_n_app. destruct masked; [rewrite xor_mask_length|]; reflexivity. }
  unfold spec_control, need. rewrite Htake. cbv beta iota. rewrite Hun. reflexivity.
Qed.
