(* C24: the expiry sweep as two atomic phases interleaved with publish /
   remove / keep-alive / clear / reads / clock advances: theorems over all
   schedules. *)
From Coq Require Import List NArith ZArith Bool Lia Permutation Sorting.Sorted.
From Cfg Require Import Model.MapHub Model.MapSpec Proofs.MapBase Proofs.MapRefine Proofs.MapRefine2
  Proofs.MapExpiry Proofs.MapExpiry2 Proofs.MapCorollaries Proofs.MapSweep.
Import ListNotations.
Open Scope N_scope.

Definition present (h : hub) (ch : N) (k : key) : bool :=
  match entry_at h ch k with Some _ => true | None => false end.

(* removal broadcasts of key (ch,k) *)
Definition is_rm (ch : N) (k : key) (b : bcast) : bool :=
  (b_ch b =? ch) && key_eqb (p_key (b_pub b)) k && p_removed (b_pub b).
Definition rm_count (l : list bcast) (ch : N) (k : key) : nat := length (filter (is_rm ch k) l).

(* the operation discards channel ch wholesale (Clear, or the MetaTTL sweep, which may drop any channel) *)
Definition is_clear (o : op) (ch : N) : bool := match o with OClear c => c =? ch | ORemoveChannels => true | _ => false end.

(* the key left the state in this step, not through Clear *)
Definition departed (h h' : hub) (o : op) (ch : N) (k : key) : bool :=
  present h ch k && negb (present h' ch k) && negb (is_clear o ch).

Definition Eff (h h' : hub) (o : op) : Prop :=
  exists new, h_bcast h' = h_bcast h ++ new /\
    forall ch k, rm_count new ch k = if departed h h' o ch k then 1%nat else 0%nat.

Lemma rm_count_app : forall a b ch k, rm_count (a ++ b) ch k = (rm_count a ch k + rm_count b ch k)%nat.
Proof. intros. unfold rm_count. rewrite filter_app, app_length. reflexivity. Qed.

Lemma Eff_same : forall h h' o, h_bcast h' = h_bcast h -> (forall ch k, entry_at h' ch k = entry_at h ch k) -> Eff h h' o.
Proof.
  intros h h' o B E. exists []. split; [rewrite app_nil_r; auto|].
  intros ch k. unfold departed, present. rewrite E. destruct (entry_at h ch k); reflexivity.
Qed.

Lemma present_vis : forall h ch k, present h ch k = match vis_at h ch k with Some _ => true | None => false end.
Proof. intros. unfold present, vis_at. destruct (entry_at h ch k); reflexivity. Qed.

Lemma publish_err_same : forall cfgs h ch k o h' e, publish cfgs h ch k o = (h', UErr e) -> h' = h.
Proof.
  intros cfgs h ch k o h' e H. unfold publish in H.
  destruct (cfg_of cfgs ch) as [cf|e0]; [|inversion H; auto].
  destruct (is_ephemeral (cf_mode cf) && match po_exp o with Some _ => true | None => false end); [inversion H; auto|].
  destruct (is_ephemeral (cf_mode cf) && (0 <? po_ver o)); [inversion H; auto|].
  destruct (if po_idem o =? 0 then None else idem_get h ch (po_idem o)); [discriminate|].
  destruct (add cf h ch k o) as [[[[h1 p1] pp] r1] tp].
  destruct r1; try discriminate. destruct tp; discriminate.
Qed.

Lemma remove_err_same : forall cfgs h ch k o h' e, remove cfgs h ch k o = (h', UErr e) -> h' = h.
Proof.
  intros cfgs h ch k o h' e H. unfold remove in H.
  destruct (cfg_of cfgs ch) as [cf|e0]; [|inversion H; auto].
  destruct (is_ephemeral (cf_mode cf) && match ro_exp o with Some _ => true | None => false end); [inversion H; auto|].
  destruct (if ro_idem o =? 0 then None else idem_get h ch (ro_idem o)); [discriminate|].
  destruct (hremove cf h ch k o) as [[[h1 p1] pp] r1].
  destruct r1; try discriminate. destruct pp; discriminate.
Qed.

Lemma publish_cfg_ok : forall cfgs h ch k o h' p s r c, publish cfgs h ch k o = (h', URes p s r c) ->
  exists cf, cfg_of cfgs ch = CfgOk cf.
Proof. intros. unfold publish in H. destruct (cfg_of cfgs ch); [eauto|discriminate]. Qed.
Lemma remove_cfg_ok : forall cfgs h ch k o h' p s r c, remove cfgs h ch k o = (h', URes p s r c) ->
  exists cf, cfg_of cfgs ch = CfgOk cf.
Proof. intros. unfold remove in H. destruct (cfg_of cfgs ch); [eauto|discriminate]. Qed.

Lemma add_empty_same : forall cf h ch o h' p pp r tp,
  add cf h ch [] o = (h', p, pp, r, tp) -> forall i k, entry_at h' i k = entry_at h i k.
Proof.
  intros cf h ch o h' p pp r tp H. unfold add in H.
  destruct (add_ensure cf h ch) as [h1 c] eqn:EN.
  destruct (ensure_frame _ _ _ _ _ EN) as (SE & _ & _ & G1).
  destruct (add_stale cf [] o (aget key_eqb (c_state c) [])); [inversion H; subst; auto|].
  unfold add_keymode, add_commit, is_empty in H. cbv iota beta in H.
  destruct (has_stream (cf_mode cf)).
  - destruct (stream_add (c_stream c) (fun off => mkPub [] off (po_data o) (po_tags o) false (po_score o)) (cf_size cf)) as [s' off].
    inversion H; subst. intros i k. destruct (ret_touch_view cf (set_chan h1 ch (set_stream c s')) ch) as (_ & _ & VE). rewrite VE.
    etransitivity; [apply (same_entries_set_chan h1 ch c (set_stream c s') G1 eq_refl)|apply SE].
  - inversion H; subst. intros i k. destruct (ret_touch_view cf (set_chan h1 ch c) ch) as (_ & _ & VE). rewrite VE.
    etransitivity; [apply (same_entries_set_chan h1 ch c c G1 eq_refl)|apply SE].
Qed.

Lemma publish_empty_same : forall cfgs h ch o h' u,
  publish cfgs h ch [] o = (h', u) -> forall i k, entry_at h' i k = entry_at h i k.
Proof.
  intros cfgs h ch o h' u H. unfold publish in H.
  destruct (cfg_of cfgs ch) as [cf|e0]; [|inversion H; auto].
  destruct (is_ephemeral (cf_mode cf) && match po_exp o with Some _ => true | None => false end); [inversion H; auto|].
  destruct (is_ephemeral (cf_mode cf) && (0 <? po_ver o)); [inversion H; auto|].
  destruct (if po_idem o =? 0 then None else idem_get h ch (po_idem o)); [inversion H; auto|].
  destruct (add cf h ch [] o) as [[[[h1 p1] pp] r1] tp] eqn:AD.
  pose proof (add_empty_same _ _ _ _ _ _ _ _ _ AD) as SE.
  destruct r1; try (inversion H; subst; exact SE).
  destruct tp; inversion H; subst; auto.
  intros i k. rewrite <- SE. destruct (po_idem o =? 0); reflexivity.
Qed.

Lemma publish_Eff : forall cfgs h ch k o h' u, publish cfgs h ch k o = (h', u) -> Eff h h' (OPublish ch k o).
Proof.
  intros cfgs h ch k o h' u H. destruct u as [e|p s r c].
  - apply publish_err_same in H. subst. apply Eff_same; auto.
  - destruct s.
    + destruct (publish_suppressed_unchanged _ _ _ _ _ _ _ _ _ H) as ((B & _ & V) & _).
      exists []. split; [rewrite app_nil_r; auto|]. intros c0 k0. unfold departed. rewrite !present_vis, V.
      destruct (vis_at h c0 k0); reflexivity.
    + destruct (publish_cfg_ok _ _ _ _ _ _ _ _ _ _ H) as (cf & CF).
      destruct (publish_accepted _ _ _ _ _ _ _ _ _ _ H CF) as (_ & _ & q & prev & B & KQ & RQ & _ & _ & VO & VK & _).
      exists [mkBc ch q p (po_delta o) prev]. split; auto.
      intros c0 k0. unfold rm_count, is_rm. simpl. rewrite RQ, andb_false_r. simpl.
      unfold departed. rewrite !present_vis.
      destruct (ck_eqb (c0, k0) (ch, k)) eqn:E.
      * apply ck_eqb_eq in E. assert (c0 = ch /\ k0 = k) as [-> ->] by (inversion E; auto).
        destruct k as [|x k'].
        -- unfold vis_at. rewrite (publish_empty_same _ _ _ _ _ _ H). destruct (entry_at h ch []); reflexivity.
        -- destruct (VK ltac:(discriminate)) as (v1 & v2 & ->). destruct (vis_at h ch (x :: k')); reflexivity.
      * rewrite VO by (intro C; rewrite C, ck_eqb_refl in E; discriminate).
        destruct (vis_at h c0 k0); reflexivity.
Qed.

Lemma remove_Eff : forall cfgs h ch k o h' u, remove cfgs h ch k o = (h', u) -> Eff h h' (ORemove ch k o).
Proof.
  intros cfgs h ch k o h' u H. destruct u as [e|p s r c].
  - apply remove_err_same in H. subst. apply Eff_same; auto.
  - destruct s.
    + apply remove_suppressed_unchanged in H. subst. apply Eff_same; auto.
    + destruct (remove_cfg_ok _ _ _ _ _ _ _ _ _ _ H) as (cf & CF).
      destruct (remove_accepted _ _ _ _ _ _ _ _ _ _ H CF) as (_ & _ & q & e & B & EN & KQ & RQ & _ & U & _).
      exists [mkBc ch q p false None]. split; auto.
      intros c0 k0. unfold rm_count, is_rm, departed, present. simpl. rewrite KQ, RQ, andb_true_r, U.
      destruct (ck_eqb (c0, k0) (ch, k)) eqn:E.
      * apply ck_eqb_eq in E. assert (c0 = ch /\ k0 = k) as [-> ->] by (inversion E; auto).
        rewrite EN, N.eqb_refl, key_eqb_refl. reflexivity.
      * assert ((ch =? c0) && key_eqb k k0 = false) as ->.
        { destruct (ch =? c0) eqn:E1; auto. destruct (key_eqb k k0) eqn:E2; auto.
          apply N.eqb_eq in E1. apply key_eqb_eq in E2. subst. rewrite ck_eqb_refl in E. discriminate. }
        destruct (entry_at h c0 k0); reflexivity.
Qed.

Lemma entry_at_clear : forall h ch i k,
  entry_at (clear h ch) i k = if i =? ch then None else entry_at h i k.
Proof.
  intros. unfold clear, entry_at, get_chan.
  destruct (aget N.eqb (h_chans h) ch) as [c|] eqn:G0; simpl.
  - destruct (i =? ch) eqn:E.
    + apply N.eqb_eq in E; subst. rewrite (aget_adel_same N.eqb). reflexivity.
    + apply N.eqb_neq in E. rewrite (aget_adel_other N.eqb N_eqb_eq'); auto.
  - destruct (i =? ch) eqn:E; auto. apply N.eqb_eq in E; subst. rewrite G0. reflexivity.
Qed.

Lemma clear_Eff : forall h ch, Eff h (clear h ch) (OClear ch).
Proof.
  intros. exists []. split.
  - rewrite app_nil_r. unfold clear. destruct (get_chan h ch); reflexivity.
  - intros c0 k0. unfold departed, present, is_clear. rewrite entry_at_clear. rewrite (N.eqb_sym ch c0).
    destruct (c0 =? ch); [destruct (entry_at h c0 k0); reflexivity|].
    destruct (entry_at h c0 k0); reflexivity.
Qed.

Lemma read_state_same : forall cfgs h ch rev cur lim k asc h' r,
  read_state cfgs h ch rev cur lim k asc = (h', r) ->
  h_bcast h' = h_bcast h /\ forall i k', entry_at h' i k' = entry_at h i k'.
Proof.
  intros cfgs h ch rev cur lim k asc h' r H. unfold read_state in H.
  destruct (cfg_of cfgs ch) as [cf|ee]; [|inversion H; subst; auto].
  destruct (touch_meta_view h ch (cf_mttl cf)) as (VG & VB & VE).
  set (h0 := touch_meta h ch (cf_mttl cf)) in *.
  cut (h_bcast h' = h_bcast h0 /\ forall i k', entry_at h' i k' = entry_at h0 i k').
  { intros (A & B). split; [congruence|]. intros. rewrite B. apply VE. }
  clearbody h0. clear VG VB VE h. rename h0 into h.
  destruct (get_chan h ch) as [c|] eqn:G.
  - destruct (get_state_chan c rev cur lim k asc) as [c1 r1] eqn:GS. inversion H; subst. split; auto.
    apply (same_entries_set_chan h ch c c1 G).
    unfold get_state_chan in GS. destruct (state_pre (c_state c) (chan_pos c) rev lim k); inversion GS; subst; auto.
    apply refresh_cache_state.
  - unfold create_chan in H.
    assert (forall i k', entry_at (set_nep (set_chan h ch (new_chan (h_nep h) false)) (h_nep h + 1)) i k' = entry_at h i k').
    { intros. apply (same_entries_new_chan h ch (new_chan (h_nep h) false) G eq_refl). }
    destruct rev as [[ro re]|]; [destruct (negb (re =? 0))|]; inversion H; subst; auto.
Qed.

Lemma read_stream_same : forall cfgs h ch since lim rv h' r,
  read_stream cfgs h ch since lim rv = (h', r) ->
  h_bcast h' = h_bcast h /\ forall i k', entry_at h' i k' = entry_at h i k'.
Proof.
  intros cfgs h ch since lim rv h' r H. unfold read_stream in H.
  destruct (touch_meta_view h ch (mttl_of cfgs ch)) as (VG & VB & VE).
  set (h0 := touch_meta h ch (mttl_of cfgs ch)) in *.
  cut (h_bcast h' = h_bcast h0 /\ forall i k', entry_at h' i k' = entry_at h0 i k').
  { intros (A & B). split; [congruence|]. intros. rewrite B. apply VE. }
  clearbody h0. clear VG VB VE h. rename h0 into h.
  destruct (get_chan h ch) as [c|] eqn:G.
  - destruct since as [[so se]|].
    + destruct (negb (se =? 0) && negb (se =? s_epoch (c_stream c))); [inversion H; subst; auto|].
      destruct (negb rv && (s_top (c_stream c) =? so)); inversion H; subst; auto.
    + destruct (lim =? 0)%Z; inversion H; subst; auto.
  - unfold create_chan in H. inversion H; subst. split; auto.
    intros. apply (same_entries_new_chan h ch (new_chan (h_nep h) false) G eq_refl).
Qed.

(* what Phase 2 does for one candidate *)
Lemma phase2_one_cases : forall h ev,
  (exists e q ps,
     entry_at h (ev_ch ev) (ev_key ev) = Some e /\ e_exp e = ev_exp ev /\
     (forall i k, entry_at (phase2_one h ev) i k = if ck_eqb (i, k) (ev_ch ev, ev_key ev) then None else entry_at h i k) /\
     h_bcast (phase2_one h ev) = h_bcast h ++ [mkBc (ev_ch ev) q ps false None] /\
     p_key q = ev_key ev /\ p_removed q = true /\ p_tags q = ev_tags ev /\
     (forall i, i <> ev_ch ev -> items_at (phase2_one h ev) i = items_at h i /\ top_at (phase2_one h ev) i = top_at h i) /\
     (0 < ev_size ev ->
        p_off q = top_at h (ev_ch ev) + 1 /\ fst ps = p_off q /\ top_at (phase2_one h ev) (ev_ch ev) = p_off q /\
        items_at (phase2_one h ev) (ev_ch ev) =
          skipn (length (items_at h (ev_ch ev) ++ [q]) - N.to_nat (ev_size ev)) (items_at h (ev_ch ev) ++ [q])) /\
     (ev_size ev = 0 -> items_at (phase2_one h ev) (ev_ch ev) = items_at h (ev_ch ev) /\
                        top_at (phase2_one h ev) (ev_ch ev) = top_at h (ev_ch ev))) \/
  ((forall e, entry_at h (ev_ch ev) (ev_key ev) = Some e -> e_exp e <> ev_exp ev) /\
   h_bcast (phase2_one h ev) = h_bcast h /\
   (forall i k, entry_at (phase2_one h ev) i k = entry_at h i k) /\
   (forall i, items_at (phase2_one h ev) i = items_at h i /\ top_at (phase2_one h ev) i = top_at h i)).
Proof.
  intros h ev. unfold phase2_one.
  destruct (get_chan h (ev_ch ev)) as [c|] eqn:G.
  2:{ right. splits; auto. intros e HE. unfold entry_at in HE. rewrite G in HE. discriminate. }
  destruct (aget key_eqb (c_state c) (ev_key ev)) as [e|] eqn:GE.
  2:{ right. splits; auto. intros e HE. unfold entry_at in HE. rewrite G, GE in HE. discriminate. }
  assert (ENT : entry_at h (ev_ch ev) (ev_key ev) = Some e) by (unfold entry_at; rewrite G; exact GE).
  destruct (e_exp e =? ev_exp ev) eqn:EE.
  - apply N.eqb_eq in EE. left.
    set (c1 := set_state c (adel key_eqb (c_state c) (ev_key ev))).
    set (h1 := set_kexp h (adel ck_eqb (h_kexp h) (ev_ch ev, ev_key ev))).
    set (mk := fun off => mkPub (ev_key ev) off 0 (ev_tags ev) true 0%Z).
    assert (UPD : forall c2 b, c_state c2 = adel key_eqb (c_state c) (ev_key ev) ->
              forall i k, entry_at (add_bcast (set_chan h1 (ev_ch ev) c2) b) i k =
                          if ck_eqb (i, k) (ev_ch ev, ev_key ev) then None else entry_at h i k).
    { intros c2 b ST. apply (upd_set_chan_adel h1 (ev_ch ev) c c2); auto. }
    assert (OTH : forall c2 b i, i <> ev_ch ev ->
              items_at (add_bcast (set_chan h1 (ev_ch ev) c2) b) i = items_at h i /\
              top_at (add_bcast (set_chan h1 (ev_ch ev) c2) b) i = top_at h i).
    { intros c2 b i NE. apply (items_top_set_chan_other h1 (ev_ch ev) c2 i NE). }
    assert (SELF : forall c2 b, get_chan (add_bcast (set_chan h1 (ev_ch ev) c2) b) (ev_ch ev) = Some c2).
    { intros. change (get_chan (set_chan h1 (ev_ch ev) c2) (ev_ch ev) = Some c2). rewrite get_chan_set_chan, N.eqb_refl. reflexivity. }
    destruct (0 <? ev_size ev) eqn:SZ.
    + unfold stream_add. simpl.
      exists e, (mk (s_top (c_stream c) + 1)), (s_top (c_stream c) + 1, s_epoch (c_stream c)).
      splits; auto; try (apply UPD; reflexivity); try apply OTH.
      * intros _. unfold top_at at 2, items_at at 1. rewrite !SELF. simpl. unfold top_at, items_at. rewrite G. splits; auto.
      * intro Z. apply N.ltb_lt in SZ. lia.
    + exists e, (mk 0), (chan_pos c1). splits; auto; try (apply UPD; reflexivity); try apply OTH.
      * intro Z. apply N.ltb_ge in SZ. lia.
      * intros _. unfold top_at at 1, items_at at 1. rewrite !SELF. simpl. unfold top_at, items_at. rewrite G. auto.
  - apply N.eqb_neq in EE. right.
    assert (NW : forall e0, entry_at h (ev_ch ev) (ev_key ev) = Some e0 -> e_exp e0 <> ev_exp ev).
    { intros e0 HE. rewrite ENT in HE. inversion HE; subst. exact EE. }
    destruct (h_pnow h <? e_exp e); splits; auto.
Qed.

Lemma phase2_Eff : forall h h', phase2 h = Some h' -> Eff h h' OPhase2.
Proof.
  intros h h' H. unfold phase2 in H. destruct (h_pend h) as [|ev rest]; [discriminate|]. inversion H; subst; clear H.
  set (h0 := set_pend h rest (h_pnow h)).
  destruct (phase2_one_cases h0 ev) as [(e & q & ps & ENT & EE & U & B & KQ & RQ & _)|(NW & B & U & _)].
  - exists [mkBc (ev_ch ev) q ps false None]. split; [exact B|].
    intros c0 k0. unfold rm_count, is_rm, departed, present, is_clear. simpl. rewrite KQ, RQ, andb_true_r, U.
    change (entry_at h c0 k0) with (entry_at h0 c0 k0).
    destruct (ck_eqb (c0, k0) (ev_ch ev, ev_key ev)) eqn:E.
    + apply ck_eqb_eq in E. assert (c0 = ev_ch ev /\ k0 = ev_key ev) as [-> ->] by (inversion E; auto).
      rewrite ENT, N.eqb_refl, key_eqb_refl. reflexivity.
    + assert ((ev_ch ev =? c0) && key_eqb (ev_key ev) k0 = false) as ->.
      { destruct (ev_ch ev =? c0) eqn:E1; auto. destruct (key_eqb (ev_key ev) k0) eqn:E2; auto.
        apply N.eqb_eq in E1. apply key_eqb_eq in E2. subst. rewrite ck_eqb_refl in E. discriminate. }
      destruct (entry_at h0 c0 k0); reflexivity.
  - apply Eff_same; auto.
Qed.

(* ---------------------------------------------------- composing sweep steps *)
Definition shrinks (h h' : hub) : Prop :=
  forall i k, entry_at h' i k = None \/ entry_at h' i k = entry_at h i k.

Lemma shrinks_refl : forall h, shrinks h h.
Proof. intros h i k. right. reflexivity. Qed.

Lemma Eff_compose : forall h h1 h2 o1 o2 o3,
  Eff h h1 o1 -> Eff h1 h2 o2 -> shrinks h h1 -> shrinks h1 h2 ->
  (forall ch, is_clear o1 ch = false /\ is_clear o2 ch = false /\ is_clear o3 ch = false) ->
  Eff h h2 o3.
Proof.
  intros h h1 h2 o1 o2 o3 (n1 & B1 & C1) (n2 & B2 & C2) S1 S2 NC.
  exists (n1 ++ n2). split; [rewrite B2, B1, app_assoc; reflexivity|].
  intros ch k. rewrite rm_count_app, C1, C2. unfold departed, present.
  destruct (NC ch) as (-> & -> & ->). simpl. rewrite !andb_true_r.
  destruct (S1 ch k) as [E1|E1]; destruct (S2 ch k) as [E2|E2]; rewrite ?E1, ?E2;
    destruct (entry_at h ch k); simpl; try reflexivity; rewrite ?E1; reflexivity.
Qed.

Lemma phase2_shrinks : forall h h', phase2 h = Some h' -> shrinks h h'.
Proof.
  intros h h' H. unfold phase2 in H. destruct (h_pend h) as [|ev rest]; [discriminate|]. inversion H; subst; clear H.
  set (h0 := set_pend h rest (h_pnow h)).
  destruct (phase2_one_cases h0 ev) as [(e & q & ps & ENT & EE & U & _)|(NW & B & U & _)]; intros i k; rewrite U.
  - destruct (ck_eqb (i, k) (ev_ch ev, ev_key ev)); auto.
  - auto.
Qed.

Lemma phase2_all_Eff : forall fuel h, Eff h (phase2_all fuel h) OSweep /\ shrinks h (phase2_all fuel h).
Proof.
  induction fuel as [|f IH]; intros h; simpl.
  - split; [apply Eff_same; auto | apply shrinks_refl].
  - destruct (phase2 h) as [h1|] eqn:P; [|split; [apply Eff_same; auto | apply shrinks_refl]].
    destruct (IH h1) as (E2 & S2). pose proof (phase2_Eff _ _ P) as E1. pose proof (phase2_shrinks _ _ P) as S1.
    split.
    + eapply (Eff_compose h h1 _ OPhase2 OSweep OSweep); eauto.
    + intros i k. destruct (S2 i k) as [A|A]; auto. destruct (S1 i k) as [B|B]; rewrite A; auto.
Qed.

Lemma phase1_same : forall cfgs h h' ok, Inv h -> h_pend h = [] -> phase1 cfgs h = (h', ok) ->
  h_bcast h' = h_bcast h /\ (forall i k, entry_at h' i k = entry_at h i k) /\ h_now h' = h_now h.
Proof.
  intros cfgs h h' ok IV PE H.
  destruct (phase1_spec _ _ _ _ IV PE H) as (_ & _ & EC & _ & EN & _ & EB & _).
  splits; auto. intros. unfold entry_at, get_chan. rewrite EC. reflexivity.
Qed.

Lemma clear_stream_same : forall h ch, h_bcast (clear_stream h ch) = h_bcast h /\ forall i k, entry_at (clear_stream h ch) i k = entry_at h i k.
Proof.
  intros. unfold clear_stream. destruct (get_chan h ch) as [c|] eqn:G; auto. split; auto.
  apply (same_entries_set_chan h ch c _ G). reflexivity.
Qed.
Lemma fold_clear_stream_same : forall l h,
  h_bcast (fold_left clear_stream l h) = h_bcast h /\ forall i k, entry_at (fold_left clear_stream l h) i k = entry_at h i k.
Proof.
  induction l as [|x l IH]; intros h; simpl; auto.
  destruct (IH (clear_stream h x)) as (A & B). destruct (clear_stream_same h x) as (C & D).
  split; [congruence|]. intros. rewrite B. apply D.
Qed.

(* every step: removal broadcasts of a key = the key left the state (not by Clear) *)
Theorem step_Eff : forall cfgs h o h' r, Inv h -> step cfgs h o = (h', r) -> Eff h h' o.
Proof.
  intros cfgs h o h' r IV H. destruct o; simpl in H.
  - destruct (publish cfgs h ch k o) eqn:E. inversion H; subst. eapply publish_Eff; eauto.
  - destruct (remove cfgs h ch k o) eqn:E. inversion H; subst. eapply remove_Eff; eauto.
  - inversion H; subst. apply clear_Eff.
  - destruct (read_state cfgs h ch rev cursor limit k asc) eqn:E. inversion H; subst.
    destruct (read_state_same _ _ _ _ _ _ _ _ _ _ E). apply Eff_same; auto.
  - destruct (read_stream cfgs h ch since limit reverse) eqn:E. inversion H; subst.
    destruct (read_stream_same _ _ _ _ _ _ _ _ E). apply Eff_same; auto.
  - inversion H; subst. apply Eff_same; auto.
  - destruct (h_pend h) eqn:PE; [|inversion H; subst; apply Eff_same; auto].
    destruct (phase1 cfgs h) as [h1 ok] eqn:P1. inversion H; subst.
    destruct (phase1_same _ _ _ _ IV PE P1) as (A & B & _). apply Eff_same; auto.
  - destruct (phase2 h) eqn:P2; inversion H; subst; [eapply phase2_Eff; eauto | apply Eff_same; auto].
  - destruct (h_pend h) eqn:PE; [|inversion H; subst; apply Eff_same; auto].
    destruct (phase1 cfgs h) as [h1 ok] eqn:P1. inversion H; subst.
    destruct (phase1_same _ _ _ _ IV PE P1) as (A & B & _).
    destruct (phase2_all_Eff (length (h_pend h1)) h1) as (E2 & S2).
    assert (E1 : Eff h h1 OPhase1) by (apply Eff_same; auto).
    eapply (Eff_compose h h1 _ OPhase1 OSweep OSweep); eauto.
    intros i k. right. apply B.
  - destruct (expire_streams h) as [h1 ok] eqn:E. inversion H; subst. unfold expire_streams in E.
    destruct ((r_snext (h_ret h) =? 0) || (h_now h <? r_snext (h_ret h))); [inversion E; subst; apply Eff_same; auto|].
    destruct (ttl_loop _ _ _ _ _) as [[[[m q] fired] next] ok1]. inversion E; subst.
    destruct (fold_clear_stream_same fired (set_ret h (mkRet m q next (r_rexp (h_ret h)) (r_rqueue (h_ret h)) (r_rnext (h_ret h))))) as (A & B).
    apply Eff_same; auto.
  - destruct (remove_channels h) as [h1 ok] eqn:E. inversion H; subst.
    assert (B : h_bcast h' = h_bcast h).
    { unfold remove_channels in E. destruct ((r_rnext (h_ret h) =? 0) || (h_now h <? r_rnext (h_ret h))); [inversion E; subst; auto|].
      destruct (ttl_loop _ _ _ _ _) as [[[[m q] fired] next] ok1]. inversion E; subst. reflexivity. }
    exists []. split; [rewrite app_nil_r; exact B|].
    intros ch k. unfold departed, is_clear. rewrite andb_false_r. reflexivity.
Qed.

(* ------------------------------------------------------------ all schedules *)
Fixpoint departures (cfgs : list rawcfg) (h : hub) (ops : list op) (ch : N) (k : key) : nat :=
  match ops with
  | [] => 0
  | o :: ops' =>
      let '(h1, _) := step cfgs h o in
      ((if departed h h1 o ch k then 1 else 0) + departures cfgs h1 ops' ch k)%nat
  end.

Lemma run_cons : forall cfgs h o ops,
  fst (run cfgs h (o :: ops)) = fst (run cfgs (fst (step cfgs h o)) ops).
Proof.
  intros. simpl. destruct (step cfgs h o) as [h1 r]. simpl. destruct (run cfgs h1 ops). reflexivity.
Qed.

Theorem schedule_removals : forall cfgs ops h ch k, Inv h ->
  rm_count (h_bcast (fst (run cfgs h ops))) ch k =
  (rm_count (h_bcast h) ch k + departures cfgs h ops ch k)%nat.
Proof.
  intros cfgs. induction ops as [|o ops IH]; intros h ch k IV.
  - simpl. lia.
  - rewrite run_cons. simpl. destruct (step cfgs h o) as [h1 r] eqn:ST. simpl.
    pose proof (step_Inv _ _ _ _ _ IV ST) as IV1.
    rewrite IH by assumption.
    destruct (step_Eff _ _ _ _ _ IV ST) as (new & B & C).
    rewrite B, rm_count_app, C. lia.
Qed.

Theorem reachable_Inv : forall cfgs ops, Inv (fst (run cfgs hub0 ops)).
Proof.
  intros cfgs ops. assert (G : forall h, Inv h -> Inv (fst (run cfgs h ops))).
  { induction ops as [|o ops IH]; intros h IV; [exact IV|].
    rewrite run_cons. apply IH. destruct (step cfgs h o) as [h1 r] eqn:ST. simpl. eapply step_Inv; eauto. }
  apply G. apply Inv0.
Qed.

(* ------------------------------------------- refreshed keys are not removed *)
Definition alive (h : hub) (e : entry) : Prop := e_exp e = 0 \/ h_now h < e_exp e.

Lemma phase2_keeps_alive : forall h h', Inv h -> phase2 h = Some h' ->
  h_now h' = h_now h /\
  forall ch k e, entry_at h ch k = Some e -> alive h e -> entry_at h' ch k = Some e.
Proof.
  intros h h' IV H. pose proof IV as (_ & _ & _ & _ & (PO1 & PO2)).
  unfold phase2 in H. destruct (h_pend h) as [|ev rest] eqn:PE; [discriminate|]. inversion H; subst; clear H.
  set (h0 := set_pend h rest (h_pnow h)).
  destruct (PO1 ev (or_introl eq_refl)) as (EP & EN & _).
  assert (NOW : h_now (phase2_one h0 ev) = h_now h).
  { unfold phase2_one. destruct (get_chan h0 (ev_ch ev)); auto. destruct (aget key_eqb (c_state m) (ev_key ev)); auto.
    destruct (e_exp e =? ev_exp ev); [destruct (0 <? ev_size ev); [destruct (stream_add _ _ _)|]; reflexivity|].
    destruct (h_pnow h0 <? e_exp e); reflexivity. }
  split; auto. intros ch k e HE AL.
  destruct (phase2_one_cases h0 ev) as [(e0 & q & ps & ENT & EE & U & _)|(NW & B & U & _)]; rewrite U; auto.
  destruct (ck_eqb (ch, k) (ev_ch ev, ev_key ev)) eqn:E; auto.
  apply ck_eqb_eq in E. assert (ch = ev_ch ev /\ k = ev_key ev) as [-> ->] by (inversion E; auto).
  change (entry_at h0 (ev_ch ev) (ev_key ev)) with (entry_at h (ev_ch ev) (ev_key ev)) in ENT.
  rewrite ENT in HE. inversion HE; subst. exfalso. destruct AL; lia.
Qed.

Lemma phase2_all_keeps_alive : forall fuel h, Inv h ->
  h_now (phase2_all fuel h) = h_now h /\
  forall ch k e, entry_at h ch k = Some e -> alive h e -> entry_at (phase2_all fuel h) ch k = Some e.
Proof.
  induction fuel as [|f IH]; intros h IV; simpl; [auto|].
  destruct (phase2 h) as [h1|] eqn:P; [|auto].
  destruct (phase2_keeps_alive _ _ IV P) as (N1 & K1).
  destruct (IH h1 (phase2_Inv _ _ IV P)) as (N2 & K2).
  split; [congruence|]. intros ch k e HE AL. apply K2; auto. unfold alive in *. rewrite N1. exact AL.
Qed.

(* a key whose current deadline lies in the future (or that has none) survives
   every action of the sweep, whatever happened before *)
Theorem sweep_keeps_alive : forall cfgs h o h' r, Inv h ->
  (o = OPhase1 \/ o = OPhase2 \/ o = OSweep) -> step cfgs h o = (h', r) ->
  forall ch k e, entry_at h ch k = Some e -> alive h e -> entry_at h' ch k = Some e.
Proof.
  intros cfgs h o h' r IV [ -> | [ -> | -> ] ] H ch k e HE AL; simpl in H.
  - destruct (h_pend h) eqn:PE; [|inversion H; subst; auto].
    destruct (phase1 cfgs h) as [h1 ok] eqn:P1. inversion H; subst.
    destruct (phase1_same _ _ _ _ IV PE P1) as (_ & B & _). rewrite B. exact HE.
  - destruct (phase2 h) as [h1|] eqn:P; inversion H; subst; auto.
    destruct (phase2_keeps_alive _ _ IV P) as (_ & K). auto.
  - destruct (h_pend h) eqn:PE; [|inversion H; subst; auto].
    destruct (phase1 cfgs h) as [h1 ok] eqn:P1. inversion H; subst.
    destruct (phase1_same _ _ _ _ IV PE P1) as (_ & B & NW).
    destruct (phase1_spec _ _ _ _ IV PE P1) as (_ & IV1 & _).
    destruct (phase2_all_keeps_alive (length (h_pend h1)) h1 IV1) as (_ & K).
    apply K; [rewrite B; exact HE|]. unfold alive in *. rewrite NW. exact AL.
Qed.

(* publishing (accepted) or a keep-alive on a channel with KeyTTL gives the key
   a deadline in the future *)
Theorem refresh_sets_deadline : forall cfgs h ch k o h' p s r c cf,
  publish cfgs h ch k o = (h', URes p s r c) -> cfg_of cfgs ch = CfgOk cf -> 0 < cf_keyttl cf -> k <> [] ->
  (s = false \/ (r = RKeyExists /\ po_refresh o = true)) ->
  h_now h' = h_now h /\ exists e, entry_at h' ch k = Some e /\ e_exp e = h_now h + cf_keyttl cf.
Proof.
  intros cfgs h ch k o h' p s r c cf H CF TT KN CASE. unfold publish in H. rewrite CF in H.
  destruct (is_ephemeral (cf_mode cf) && match po_exp o with Some _ => true | None => false end); [discriminate|].
  destruct (is_ephemeral (cf_mode cf) && (0 <? po_ver o)); [discriminate|].
  destruct (if po_idem o =? 0 then None else idem_get h ch (po_idem o)) as [pi|].
  { inversion H; subst. destruct CASE as [C|[C _]]; discriminate. }
  destruct (add cf h ch k o) as [[[[h1 p1] pp] r1] tp] eqn:AD.
  assert (TTb : (0 <? cf_keyttl cf) = true) by (apply N.ltb_lt; exact TT).
  assert (EK : is_empty k = false) by (destruct k; [contradiction|reflexivity]).
  assert (GOAL : (r1 = RNone \/ (r1 = RKeyExists /\ po_refresh o = true)) ->
            h_now h1 = h_now h /\ exists e, entry_at h1 ch k = Some e /\ e_exp e = h_now h + cf_keyttl cf).
  { clear H. intro R1. unfold add in AD.
    destruct (add_ensure cf h ch) as [h0 c0] eqn:EN.
    destruct (ensure_frame _ _ _ _ _ EN) as (_ & _ & (_ & _ & NW) & G1).
    destruct (add_stale cf k o (aget key_eqb (c_state c0) k)).
    { inversion AD; subst. destruct R1 as [C|[C _]]; discriminate. }
    unfold add_keymode in AD. rewrite EK in AD.
    assert (FIN : forall c2 e2, c_state c2 = aset key_eqb (c_state c0) k e2 -> e_exp e2 = h_now h0 + cf_keyttl cf ->
               h_now (track (set_chan h0 ch c2) (ch, k) (h_now h0 + cf_keyttl cf)) = h_now h /\
               exists e, entry_at (track (set_chan h0 ch c2) (ch, k) (h_now h0 + cf_keyttl cf)) ch k = Some e /\ e_exp e = h_now h + cf_keyttl cf).
    { intros c2 e2 ST EX. split; [exact NW|]. exists e2. split; [|rewrite EX, NW; reflexivity].
      change (entry_at (set_chan h0 ch c2) ch k = Some e2).
      rewrite (upd_set_chan_aset h0 ch c0 c2 k e2 G1 ST), ck_eqb_refl. reflexivity. }
    assert (NOWm : forall x t, h_now (touch_meta x ch t) = h_now x) by (intros; unfold touch_meta; destruct (0 <? t); reflexivity).
    assert (NOWr : forall x, h_now (ret_touch cf x ch) = h_now x).
    { intros. unfold ret_touch. destruct (has_stream (cf_mode cf)); auto. rewrite NOWm. reflexivity. }
    assert (FINm : forall c2 e2, c_state c2 = aset key_eqb (c_state c0) k e2 -> e_exp e2 = h_now h0 + cf_keyttl cf ->
               h_now (touch_meta (track (set_chan h0 ch c2) (ch, k) (h_now h0 + cf_keyttl cf)) ch (cf_mttl cf)) = h_now h /\
               exists e, entry_at (touch_meta (track (set_chan h0 ch c2) (ch, k) (h_now h0 + cf_keyttl cf)) ch (cf_mttl cf)) ch k = Some e /\ e_exp e = h_now h + cf_keyttl cf).
    { intros c2 e2 ST EX. destruct (FIN c2 e2 ST EX) as (A & e & B & C).
      destruct (touch_meta_view (track (set_chan h0 ch c2) (ch, k) (h_now h0 + cf_keyttl cf)) ch (cf_mttl cf)) as (_ & _ & VE).
      rewrite NOWm, VE. split; auto. exists e. auto. }
    assert (FINr : forall c2 e2, c_state c2 = aset key_eqb (c_state c0) k e2 -> e_exp e2 = h_now h0 + cf_keyttl cf ->
               h_now (ret_touch cf (track (set_chan h0 ch c2) (ch, k) (h_now h0 + cf_keyttl cf)) ch) = h_now h /\
               exists e, entry_at (ret_touch cf (track (set_chan h0 ch c2) (ch, k) (h_now h0 + cf_keyttl cf)) ch) ch k = Some e /\ e_exp e = h_now h + cf_keyttl cf).
    { intros c2 e2 ST EX. destruct (FIN c2 e2 ST EX) as (A & e & B & C).
      destruct (ret_touch_view cf (track (set_chan h0 ch c2) (ch, k) (h_now h0 + cf_keyttl cf)) ch) as (_ & _ & VE).
      rewrite NOWr, VE. split; auto. exists e. auto. }
    destruct (po_mode o) eqn:PM; destruct (aget key_eqb (c_state c0) k) as [e0|] eqn:CUR;
      try (rewrite TTb, andb_true_r in AD).
    all: try (destruct (po_refresh o) eqn:RF; inversion AD; subst;
              [ eapply FINm; [reflexivity | reflexivity] | destruct R1 as [C|[C C2]]; discriminate ]; fail).
    all: try (inversion AD; subst; destruct R1 as [C|[C _]]; discriminate; fail).
    all: destruct (cas_check (snd (chan_pos c0)) (po_exp o) _);
         [inversion AD; subst; destruct R1 as [C|[C _]]; discriminate|];
         unfold add_commit in AD; rewrite EK, TTb in AD;
         destruct (if has_stream (cf_mode cf) then _ else _) as [c1 p2] eqn:SC;
         assert (ST1 : c_state c1 = c_state c0)
           by (destruct (has_stream (cf_mode cf)); [destruct (stream_add (c_stream c0) _ (cf_size cf))|]; inversion SC; reflexivity);
         destruct (if po_ver o =? 0 then _ else _) as [ver vep];
         inversion AD; subst; eapply FINr; [simpl; rewrite ST1; reflexivity | reflexivity]. }
  destruct r1.
  - destruct tp; inversion H; subst.
    + destruct GOAL as (A & e & B & C); auto. destruct (po_idem o =? 0); simpl; split; eauto.
    + destruct CASE as [C|[C _]]; discriminate.
  - inversion H; subst. destruct CASE as [C|[C _]]; discriminate.
  - inversion H; subst. destruct CASE as [C|[C _]]; discriminate.
  - inversion H; subst. destruct CASE as [C|[C C2]]; [discriminate|]. apply GOAL; auto.
  - inversion H; subst. destruct CASE as [C|[C _]]; discriminate.
  - inversion H; subst. destruct CASE as [C|[C _]]; discriminate.
Qed.

Lemma phase2_one_pend : forall h ev, h_pend (phase2_one h ev) = h_pend h.
Proof.
  intros. unfold phase2_one. destruct (get_chan h (ev_ch ev)); auto. destruct (aget key_eqb (c_state m) (ev_key ev)); auto.
  destruct (e_exp e =? ev_exp ev); [destruct (0 <? ev_size ev); [destruct (stream_add _ _ _)|]; reflexivity|].
  destruct (h_pnow h <? e_exp e); reflexivity.
Qed.

(* ------------------------------------- a quiescent sweep removes the expired *)
Definition expired_e (now : N) (e : entry) : bool := (0 <? e_exp e) && (e_exp e <=? now).

Lemma phase2_all_expires : forall evs h h0,
  Inv h -> h_pend h = evs ->
  (forall ev, In ev evs -> 0 < ev_exp ev /\ ev_exp ev <= h_now h0) -> h_now h = h_now h0 ->
  (* so far only expired entries of h0 were removed, the others are as in h0 *)
  (forall i k, entry_at h i k = None \/ entry_at h i k = entry_at h0 i k) ->
  (forall i k e, entry_at h0 i k = Some e -> expired_e (h_now h0) e = false -> entry_at h i k = Some e) ->
  (forall i k e, entry_at h0 i k = Some e -> expired_e (h_now h0) e = true ->
     entry_at h i k = None \/ In ((i, k), e_exp e) (map ev_item evs)) ->
  let h' := phase2_all (length evs) h in
  h_pend h' = [] /\
  forall i k, entry_at h' i k =
    match entry_at h0 i k with
    | Some e => if expired_e (h_now h0) e then None else Some e
    | None => None
    end.
Proof.
  induction evs as [|ev rest IH]; intros h h0 IV PE EV NW SH KEEP COV; simpl.
  - split; auto. intros i k. destruct (entry_at h0 i k) as [e|] eqn:E0.
    + destruct (expired_e (h_now h0) e) eqn:X.
      * destruct (COV _ _ _ E0 X) as [A|[]]. exact A.
      * apply KEEP; auto.
    + destruct (SH i k) as [A|A]; congruence.
  - unfold phase2. rewrite PE.
    set (hm := set_pend h rest (h_pnow h)).
    assert (P2 : phase2 h = Some (phase2_one hm ev)) by (unfold phase2; rewrite PE; reflexivity).
    pose proof (phase2_Inv _ _ IV P2) as IV1.
    destruct (phase2_keeps_alive _ _ IV P2) as (NW1 & _).
    destruct (EV ev (or_introl eq_refl)) as (EP & EN).
    apply (IH (phase2_one hm ev) h0); auto.
    + rewrite phase2_one_pend. reflexivity.
    + intros ev' HI. apply EV. right; auto.
    + congruence.
    + intros i k. destruct (phase2_one_cases hm ev) as [(e & q & ps & ENT & EE & U & _)|(NWc & B & U & _)]; rewrite U.
      * destruct (ck_eqb (i, k) (ev_ch ev, ev_key ev)); auto. apply SH.
      * apply SH.
    + intros i k e E0 X. destruct (phase2_one_cases hm ev) as [(e1 & q & ps & ENT & EE & U & _)|(NWc & B & U & _)]; rewrite U.
      * destruct (ck_eqb (i, k) (ev_ch ev, ev_key ev)) eqn:CK; [|apply KEEP; auto]. exfalso.
        apply ck_eqb_eq in CK. assert (i = ev_ch ev /\ k = ev_key ev) as [-> ->] by (inversion CK; auto).
        change (entry_at hm (ev_ch ev) (ev_key ev)) with (entry_at h (ev_ch ev) (ev_key ev)) in ENT.
        rewrite (KEEP _ _ _ E0 X) in ENT. inversion ENT; subst.
        unfold expired_e in X. apply andb_false_iff in X as [X|X]; [apply N.ltb_ge in X | apply N.leb_gt in X]; lia.
      * apply KEEP; auto.
    + intros i k e E0 X. destruct (phase2_one_cases hm ev) as [(e1 & q & ps & ENT & EE & U & _)|(NWc & B & U & _)]; rewrite U.
      * destruct (ck_eqb (i, k) (ev_ch ev, ev_key ev)) eqn:CK; auto.
        destruct (COV _ _ _ E0 X) as [A|[A|A]]; auto.
        exfalso. unfold ev_item in A. inversion A; subst. rewrite ck_eqb_refl in CK. discriminate.
      * destruct (COV _ _ _ E0 X) as [A|[A|A]]; auto. left.
        (* the candidate equals this entry's item but Phase 2 found another deadline: the entry is gone *)
        unfold ev_item in A. inversion A; subst.
        change (forall e, entry_at h (ev_ch ev) (ev_key ev) = Some e -> e_exp e <> ev_exp ev) in NWc.
        destruct (SH (ev_ch ev) (ev_key ev)) as [S|S]; auto.
        rewrite E0 in S. exfalso. eapply NWc; eauto.
Qed.

Theorem quiescent_sweep_expires : forall cfgs h, Inv h -> h_pend h = [] ->
  exists h', step cfgs h OSweep = (h', RUnit) /\ h_pend h' = [] /\ Inv h' /\
    forall i k, entry_at h' i k =
      match entry_at h i k with
      | Some e => if expired_e (h_now h) e then None else Some e
      | None => None
      end.
Proof.
  intros cfgs h IV PE. simpl. rewrite PE.
  destruct (phase1 cfgs h) as [h1 ok] eqn:P1.
  destruct (phase1_spec _ _ _ _ IV PE P1) as (OK & IV1 & EC & _ & EN & _ & _ & SND & _ & COV & _).
  subst ok. eexists. split; [reflexivity|].
  assert (EA : forall i k, entry_at h1 i k = entry_at h i k) by (intros; unfold entry_at, get_chan; rewrite EC; reflexivity).
  destruct (phase2_all_expires (h_pend h1) h1 h IV1 eq_refl) as (A & B); auto.
  - intros ev HI. destruct (SND _ HI) as (X & Y & _). auto.
  - intros i k e E0 X. rewrite EA. exact E0.
  - intros i k e E0 X. right. unfold expired_e in X. apply andb_true_iff in X as (X1 & X2).
    apply N.ltb_lt in X1. apply N.leb_le in X2. apply COV; auto.
  - splits; auto. apply phase2_all_Inv. exact IV1.
Qed.

(* the removal Phase 2 performs is appended to the stream exactly once, with the broadcast's offset *)
Theorem phase2_removal : forall h h', phase2 h = Some h' ->
  match h_pend h with
  | [] => False
  | ev :: rest =>
    h_pend h' = rest /\
    ((exists e q ps,
       entry_at h (ev_ch ev) (ev_key ev) = Some e /\ e_exp e = ev_exp ev /\
       (forall i k, entry_at h' i k = if ck_eqb (i, k) (ev_ch ev, ev_key ev) then None else entry_at h i k) /\
       h_bcast h' = h_bcast h ++ [mkBc (ev_ch ev) q ps false None] /\
       p_key q = ev_key ev /\ p_removed q = true /\ p_tags q = ev_tags ev /\
       (forall i, i <> ev_ch ev -> items_at h' i = items_at h i /\ top_at h' i = top_at h i) /\
       (0 < ev_size ev ->
          p_off q = top_at h (ev_ch ev) + 1 /\ fst ps = p_off q /\ top_at h' (ev_ch ev) = p_off q /\
          items_at h' (ev_ch ev) =
            skipn (length (items_at h (ev_ch ev) ++ [q]) - N.to_nat (ev_size ev)) (items_at h (ev_ch ev) ++ [q])) /\
       (ev_size ev = 0 -> items_at h' (ev_ch ev) = items_at h (ev_ch ev) /\ top_at h' (ev_ch ev) = top_at h (ev_ch ev))) \/
     ((forall e, entry_at h (ev_ch ev) (ev_key ev) = Some e -> e_exp e <> ev_exp ev) /\
      h_bcast h' = h_bcast h /\ (forall i k, entry_at h' i k = entry_at h i k) /\
      (forall i, items_at h' i = items_at h i /\ top_at h' i = top_at h i)))
  end.
Proof.
  intros h h' H. unfold phase2 in H. destruct (h_pend h) as [|ev rest] eqn:PE; [discriminate|].
  inversion H; subst; clear H. set (hm := set_pend h rest (h_pnow h)). split.
  - rewrite phase2_one_pend. reflexivity.
  - exact (phase2_one_cases hm ev).
Qed.
